(* LimitsProofs.v — proofs about Limits.v / LimitsCheck.v (no model definitions). *)
From AG Require Import LimitsCheck.
Open Scope N_scope.

Section P.
  Variable frags : list (name * fragment).

  (* ---- unfolding equations ------------------------------------------------ *)
  Lemma inline_sel_S n s :
    inline_sel frags (S n) s =
    match s with
    | SField al nm args dirs sub =>
        bindo (inline_list frags n sub) (fun sub' => Ok (SField al nm args dirs sub'))
    | SSpread nm dirs =>
        match assoc nm frags with
        | Some fr => bindo (inline_list frags n (fr_sels fr))
                           (fun sub' => Ok (SInline (Some (fr_cond fr)) dirs sub'))
        | None => Ok (SSpread nm dirs)
        end
    | SInline c dirs sub =>
        bindo (inline_list frags n sub) (fun sub' => Ok (SInline c dirs sub'))
    end.
  Proof. reflexivity. Qed.

  Lemma inline_list_S n x r :
    inline_list frags (S n) (x :: r) =
    bindo (inline_sel frags n x) (fun x' =>
    bindo (inline_list frags n r) (fun r' => Ok (x' :: r'))).
  Proof. reflexivity. Qed.

  Lemma inline_list_nil n : inline_list frags n [] = Ok [].
  Proof. destruct n; reflexivity. Qed.

  Lemma depth_sel_S n s :
    depth_sel frags (S n) s =
    match s with
    | SField _ nm _ _ sub =>
        if is_typename nm then Ok 0
        else bindo (depth_list frags n sub) (fun d => Ok (1 + d))
    | SSpread nm _ =>
        match assoc nm frags with
        | Some fr => depth_list frags n (fr_sels fr)
        | None => Ok 0
        end
    | SInline _ _ sub => depth_list frags n sub
    end.
  Proof. reflexivity. Qed.

  Lemma depth_list_S n x r :
    depth_list frags (S n) (x :: r) =
    bindo (depth_sel frags n x) (fun a =>
    bindo (depth_list frags n r) (fun b => Ok (N.max a b))).
  Proof. reflexivity. Qed.

  Lemma depth_list_nil n : depth_list frags n [] = Ok 0.
  Proof. destruct n; reflexivity. Qed.

  Lemma bindo_ok {A B} (x : outcome A) (f : A -> outcome B) y :
    bindo x f = Ok y -> exists a, x = Ok a /\ f a = Ok y.
  Proof. destruct x; cbn; try discriminate. intros H. eauto. Qed.

  Ltac inv_bind H :=
    let a := fresh "a" in let Ha := fresh "Ha" in
    apply bindo_ok in H; destruct H as (a & Ha & H).

  (* ---- T1: depth = plain depth of the inlined document --------------------- *)
  Lemma depth_inline n :
    (forall s s', inline_sel frags n s = Ok s' -> depth_sel frags n s = Ok (pdepth s')) /\
    (forall l l', inline_list frags n l = Ok l' -> depth_list frags n l = Ok (pdepth_list l')).
  Proof.
    induction n as [|n [IHs IHl]].
    - split; [discriminate|]. intros [|x r] l' H; [|discriminate]. injection H as <-. reflexivity.
    - split.
      + intros s s' H. rewrite inline_sel_S in H. rewrite depth_sel_S.
        destruct s as [al nm args dirs sub|nm dirs|c dirs sub].
        * inv_bind H. injection H as <-. cbn [pdepth]. rewrite (IHl _ _ Ha). cbn [bindo].
          destruct (is_typename nm); reflexivity.
        * destruct (assoc nm frags) as [fr|].
          -- inv_bind H. injection H as <-. cbn [pdepth]. apply (IHl _ _ Ha).
          -- injection H as <-. reflexivity.
        * inv_bind H. injection H as <-. cbn [pdepth]. apply (IHl _ _ Ha).
      + intros [|x r] l' H.
        * rewrite inline_list_nil in H. injection H as <-. apply depth_list_nil.
        * rewrite inline_list_S in H. inv_bind H. inv_bind H. injection H as <-.
          rewrite depth_list_S, (IHs _ _ Ha), (IHl _ _ Ha0). reflexivity.
  Qed.

  (* ---- visits ---------------------------------------------------------------- *)
  Lemma visits_sel_S n s :
    visits_sel frags (S n) s =
    match s with
    | SField _ nm _ _ sub =>
        if is_typename nm then Ok 1
        else bindo (visits_list frags n sub) (fun d => Ok (1 + d))
    | SSpread nm _ =>
        match assoc nm frags with
        | Some fr => bindo (visits_list frags n (fr_sels fr)) (fun d => Ok (1 + d))
        | None => Ok 1
        end
    | SInline _ _ sub => bindo (visits_list frags n sub) (fun d => Ok (1 + d))
    end.
  Proof. reflexivity. Qed.
  Lemma visits_list_S n x r :
    visits_list frags (S n) (x :: r) =
    bindo (visits_sel frags n x) (fun a => bindo (visits_list frags n r) (fun b => Ok (a + b))).
  Proof. reflexivity. Qed.
  Lemma visits_list_nil n : visits_list frags n [] = Ok 0.
  Proof. destruct n; reflexivity. Qed.

  Lemma visits_inline n :
    (forall s s', inline_sel frags n s = Ok s' -> visits_sel frags n s = Ok (pvisits s')) /\
    (forall l l', inline_list frags n l = Ok l' -> visits_list frags n l = Ok (pvisits_list l')).
  Proof.
    induction n as [|n [IHs IHl]].
    - split; [discriminate|]. intros [|x r] l' H; [|discriminate]. injection H as <-. reflexivity.
    - split.
      + intros s s' H. rewrite inline_sel_S in H. rewrite visits_sel_S.
        destruct s as [al nm args dirs sub|nm dirs|c dirs sub].
        * inv_bind H. injection H as <-. cbn [pvisits]. rewrite (IHl _ _ Ha). cbn [bindo].
          destruct (is_typename nm); reflexivity.
        * destruct (assoc nm frags) as [fr|].
          -- inv_bind H. injection H as <-. cbn [pvisits]. rewrite (IHl _ _ Ha). reflexivity.
          -- injection H as <-. reflexivity.
        * inv_bind H. injection H as <-. cbn [pvisits]. rewrite (IHl _ _ Ha). reflexivity.
      + intros [|x r] l' H.
        * rewrite inline_list_nil in H. injection H as <-. apply visits_list_nil.
        * rewrite inline_list_S in H. inv_bind H. inv_bind H. injection H as <-.
          rewrite visits_list_S, (IHs _ _ Ha), (IHl _ _ Ha0). reflexivity.
  Qed.

  (* ---- nesting --------------------------------------------------------------- *)
  Lemma nest_sel_S n s :
    nest_sel frags (S n) s =
    match s with
    | SField _ _ _ _ [] => Ok 0
    | SField _ _ _ _ sub => bindo (nest_list frags n sub) (fun d => Ok (1 + d))
    | SSpread nm _ =>
        match assoc nm frags with
        | Some fr => bindo (nest_list frags n (fr_sels fr)) (fun d => Ok (1 + d))
        | None => Ok 0
        end
    | SInline _ _ sub => bindo (nest_list frags n sub) (fun d => Ok (1 + d))
    end.
  Proof. reflexivity. Qed.
  Lemma nest_list_S n x r :
    nest_list frags (S n) (x :: r) =
    bindo (nest_sel frags n x) (fun a => bindo (nest_list frags n r) (fun b => Ok (N.max a b))).
  Proof. reflexivity. Qed.
  Lemma nest_list_nil n : nest_list frags n [] = Ok 0.
  Proof. destruct n; reflexivity. Qed.

  (* inlining maps the empty set to the empty set and non-empty to non-empty *)
  Lemma inline_list_cons n x r l' :
    inline_list frags n (x :: r) = Ok l' -> exists x' r', l' = x' :: r'.
  Proof.
    destruct n; [discriminate|]. rewrite inline_list_S. intros H.
    inv_bind H. inv_bind H. injection H as <-. eauto.
  Qed.

  Lemma nest_inline n :
    (forall s s', inline_sel frags n s = Ok s' -> nest_sel frags n s = Ok (pnest s')) /\
    (forall l l', inline_list frags n l = Ok l' -> nest_list frags n l = Ok (pnest_list l')).
  Proof.
    induction n as [|n [IHs IHl]].
    - split; [discriminate|]. intros [|x r] l' H; [|discriminate]. injection H as <-. reflexivity.
    - split.
      + intros s s' H. rewrite inline_sel_S in H. rewrite nest_sel_S.
        destruct s as [al nm args dirs sub|nm dirs|c dirs sub].
        * inv_bind H. injection H as <-. destruct sub as [|y ys].
          -- rewrite inline_list_nil in Ha. injection Ha as <-. reflexivity.
          -- destruct (inline_list_cons _ _ _ _ Ha) as (x' & r' & ->).
             rewrite (IHl _ _ Ha). reflexivity.
        * destruct (assoc nm frags) as [fr|].
          -- inv_bind H. injection H as <-. cbn [pnest]. rewrite (IHl _ _ Ha). reflexivity.
          -- injection H as <-. reflexivity.
        * inv_bind H. injection H as <-. cbn [pnest]. rewrite (IHl _ _ Ha). reflexivity.
      + intros [|x r] l' H.
        * rewrite inline_list_nil in H. injection H as <-. apply nest_list_nil.
        * rewrite inline_list_S in H. inv_bind H. inv_bind H. injection H as <-.
          rewrite nest_list_S, (IHs _ _ Ha), (IHl _ _ Ha0). reflexivity.
  Qed.

  (* ---- directives ------------------------------------------------------------ *)
  Lemma dirs_sel_S n s :
    dirs_sel frags (S n) s =
    match s with
    | SField _ _ _ dirs sub =>
        bindo (dirs_list frags n sub) (fun d => Ok (N.max (N.of_nat (length dirs)) d))
    | SSpread nm _ =>
        match assoc nm frags with
        | Some fr => dirs_list frags n (fr_sels fr)
        | None => Ok 0
        end
    | SInline _ _ sub => dirs_list frags n sub
    end.
  Proof. reflexivity. Qed.
  Lemma dirs_list_S n x r :
    dirs_list frags (S n) (x :: r) =
    bindo (dirs_sel frags n x) (fun a => bindo (dirs_list frags n r) (fun b => Ok (N.max a b))).
  Proof. reflexivity. Qed.
  Lemma dirs_list_nil n : dirs_list frags n [] = Ok 0.
  Proof. destruct n; reflexivity. Qed.

  Lemma dirs_inline n :
    (forall s s', inline_sel frags n s = Ok s' -> dirs_sel frags n s = Ok (pdirs s')) /\
    (forall l l', inline_list frags n l = Ok l' -> dirs_list frags n l = Ok (pdirs_list l')).
  Proof.
    induction n as [|n [IHs IHl]].
    - split; [discriminate|]. intros [|x r] l' H; [|discriminate]. injection H as <-. reflexivity.
    - split.
      + intros s s' H. rewrite inline_sel_S in H. rewrite dirs_sel_S.
        destruct s as [al nm args dirs sub|nm dirs|c dirs sub].
        * inv_bind H. injection H as <-. cbn [pdirs]. rewrite (IHl _ _ Ha). reflexivity.
        * destruct (assoc nm frags) as [fr|].
          -- inv_bind H. injection H as <-. cbn [pdirs]. apply (IHl _ _ Ha).
          -- injection H as <-. reflexivity.
        * inv_bind H. injection H as <-. cbn [pdirs]. apply (IHl _ _ Ha).
      + intros [|x r] l' H.
        * rewrite inline_list_nil in H. injection H as <-. apply dirs_list_nil.
        * rewrite inline_list_S in H. inv_bind H. inv_bind H. injection H as <-.
          rewrite dirs_list_S, (IHs _ _ Ha), (IHl _ _ Ha0). reflexivity.
  Qed.

  (* ---- recursion-depth walker: exceeded <-> nesting of the inlined document > limit --- *)
  Lemma rec_sel_S n maxd lvl x :
    rec_sel frags (S n) maxd lvl x =
    match opens frags x with
    | None => Ok (1, false)
    | Some sub =>
        if maxd <? lvl + 1 then Ok (1, true)
        else bindo (rec_list frags n maxd (lvl + 1) sub) (fun a => Ok (1 + fst a, snd a))
    end.
  Proof. reflexivity. Qed.
  Lemma rec_list_S n maxd lvl x r :
    rec_list frags (S n) maxd lvl (x :: r) =
    bindo (rec_sel frags n maxd lvl x) (fun a =>
      if snd a then Ok a
      else bindo (rec_list frags n maxd lvl r) (fun b => Ok (fst a + fst b, snd b))).
  Proof. reflexivity. Qed.
  Lemma rec_list_nil n maxd lvl : rec_list frags n maxd lvl [] = Ok (0, false).
  Proof. destruct n; reflexivity. Qed.

  Lemma ltb_false_le a b : b <= a -> (a <? b) = false.
  Proof. intros. apply N.ltb_ge. assumption. Qed.
  Lemma ltb_true_lt a b : a < b -> (a <? b) = true.
  Proof. intros. apply N.ltb_lt. assumption. Qed.

  Lemma rec_exceeds n :
    (forall x x' maxd lvl r, lvl <= maxd -> inline_sel frags n x = Ok x' ->
        rec_sel frags n maxd lvl x = Ok r -> snd r = (maxd <? lvl + pnest x')) /\
    (forall l l' maxd lvl r, lvl <= maxd -> inline_list frags n l = Ok l' ->
        rec_list frags n maxd lvl l = Ok r -> snd r = (maxd <? lvl + pnest_list l')).
  Proof.
    induction n as [|n [IHs IHl]].
    - split; [discriminate|]. intros [|x r] l' maxd lvl res Hl H; [|discriminate].
      injection H as <-. intros Hr. injection Hr as <-. cbn [snd pnest_list fold_right].
      symmetry. apply ltb_false_le. lia.
    - split.
      + intros x x' maxd lvl res Hl Hi Hr. rewrite inline_sel_S in Hi. rewrite rec_sel_S in Hr.
        (* the selection set opened by x and the nesting of its inlined form *)
        assert (Hcase :
          (opens frags x = None /\ pnest x' = 0) \/
          (exists sub sub', opens frags x = Some sub /\ inline_list frags n sub = Ok sub' /\
                            pnest x' = 1 + pnest_list sub')).
        { destruct x as [al nm args dirs sub|nm dirs|c dirs sub]; cbn [opens].
          - inv_bind Hi. injection Hi as <-. destruct sub as [|y ys].
            + left. rewrite inline_list_nil in Ha. injection Ha as <-. split; reflexivity.
            + right. destruct (inline_list_cons _ _ _ _ Ha) as (y' & ys' & ->).
              exists (y :: ys), (y' :: ys'). repeat split; assumption.
          - destruct (assoc nm frags) as [fr|].
            + inv_bind Hi. injection Hi as <-. right. exists (fr_sels fr), a. repeat split; assumption.
            + injection Hi as <-. left. split; reflexivity.
          - inv_bind Hi. injection Hi as <-. right. exists sub, a. repeat split; assumption. }
        destruct Hcase as [[Ho Hp]|(sub & sub' & Ho & Hs & Hp)]; rewrite Ho in Hr; rewrite Hp.
        * injection Hr as <-. cbn [snd]. symmetry. apply ltb_false_le. lia.
        * destruct (N.ltb_spec maxd (lvl + 1)) as [Hlt|Hge].
          -- injection Hr as <-. cbn [snd]. symmetry. apply ltb_true_lt. lia.
          -- inv_bind Hr. injection Hr as <-. cbn [snd].
             rewrite (IHl _ _ _ _ _ Hge Hs Ha). f_equal. lia.
      + intros [|x r] l' maxd lvl res Hl Hi Hr.
        * rewrite inline_list_nil in Hi. injection Hi as <-. rewrite rec_list_nil in Hr.
          injection Hr as <-. cbn [snd pnest_list fold_right]. symmetry. apply ltb_false_le. lia.
        * rewrite inline_list_S in Hi. inv_bind Hi. inv_bind Hi. injection Hi as <-.
          rewrite rec_list_S in Hr. inv_bind Hr.
          pose proof (IHs _ _ _ _ _ Hl Ha Ha1) as Hx.
          change (pnest_list (a :: a0)) with (N.max (pnest a) (pnest_list a0)).
          destruct (snd a1) eqn:Es.
          -- injection Hr as <-. rewrite Es. symmetry in Hx. apply N.ltb_lt in Hx.
             symmetry. apply ltb_true_lt. lia.
          -- inv_bind Hr. injection Hr as <-. cbn [snd].
             rewrite (IHl _ _ _ _ _ Hl Ha0 Ha2).
             symmetry in Hx. apply N.ltb_ge in Hx.
             destruct (N.max_spec (pnest a) (pnest_list a0)) as [[Hm ->]|[Hm ->]]; [reflexivity|].
             rewrite (ltb_false_le _ _ Hx). apply ltb_false_le. lia.
  Qed.

  (* ---- directive walker: exceeded <-> directive count of the inlined document > limit -- *)
  Lemma dir_sel_S n lim x :
    dir_sel frags (S n) lim x =
    match x with
    | SField _ _ _ dirs sub =>
        if lim <? N.of_nat (length dirs) then Ok (1, true)
        else bindo (dir_list frags n lim sub) (fun a => Ok (1 + fst a, snd a))
    | SSpread nm _ =>
        match assoc nm frags with
        | Some fr => bindo (dir_list frags n lim (fr_sels fr)) (fun a => Ok (1 + fst a, snd a))
        | None => Ok (1, false)
        end
    | SInline _ _ sub => bindo (dir_list frags n lim sub) (fun a => Ok (1 + fst a, snd a))
    end.
  Proof. reflexivity. Qed.
  Lemma dir_list_S n lim x r :
    dir_list frags (S n) lim (x :: r) =
    bindo (dir_sel frags n lim x) (fun a =>
      if snd a then Ok a
      else bindo (dir_list frags n lim r) (fun b => Ok (fst a + fst b, snd b))).
  Proof. reflexivity. Qed.
  Lemma dir_list_nil n lim : dir_list frags n lim [] = Ok (0, false).
  Proof. destruct n; reflexivity. Qed.

  Lemma dir_exceeds n :
    (forall x x' lim r, inline_sel frags n x = Ok x' ->
        dir_sel frags n lim x = Ok r -> snd r = (lim <? pdirs x')) /\
    (forall l l' lim r, inline_list frags n l = Ok l' ->
        dir_list frags n lim l = Ok r -> snd r = (lim <? pdirs_list l')).
  Proof.
    induction n as [|n [IHs IHl]].
    - split; [discriminate|]. intros [|x r] l' lim res H; [|discriminate].
      injection H as <-. intros Hr. injection Hr as <-. cbn [snd pdirs_list fold_right].
      symmetry. apply ltb_false_le. lia.
    - split.
      + intros x x' lim res Hi Hr. rewrite inline_sel_S in Hi. rewrite dir_sel_S in Hr.
        destruct x as [al nm args dirs sub|nm dirs|c dirs sub].
        * inv_bind Hi. injection Hi as <-. cbn [pdirs].
          change (fold_right (fun x acc => N.max (pdirs x) acc) 0 a) with (pdirs_list a).
          destruct (N.ltb_spec lim (N.of_nat (length dirs))) as [Hlt|Hge].
          -- injection Hr as <-. cbn [snd]. symmetry. apply ltb_true_lt. lia.
          -- inv_bind Hr. injection Hr as <-. cbn [snd]. rewrite (IHl _ _ _ _ Ha Ha0).
             destruct (N.max_spec (N.of_nat (length dirs)) (pdirs_list a)) as [[Hm ->]|[Hm ->]]; [reflexivity|].
             rewrite (ltb_false_le _ _ Hge). apply ltb_false_le. lia.
        * destruct (assoc nm frags) as [fr|].
          -- inv_bind Hi. injection Hi as <-. inv_bind Hr. injection Hr as <-. cbn [snd pdirs].
             apply (IHl _ _ _ _ Ha Ha0).
          -- injection Hi as <-. injection Hr as <-. cbn [snd pdirs].
             symmetry. apply ltb_false_le. lia.
        * inv_bind Hi. injection Hi as <-. inv_bind Hr. injection Hr as <-. cbn [snd pdirs].
          apply (IHl _ _ _ _ Ha Ha0).
      + intros [|x r] l' lim res Hi Hr.
        * rewrite inline_list_nil in Hi. injection Hi as <-. rewrite dir_list_nil in Hr.
          injection Hr as <-. cbn [snd pdirs_list fold_right]. symmetry. apply ltb_false_le. lia.
        * rewrite inline_list_S in Hi. inv_bind Hi. inv_bind Hi. injection Hi as <-.
          rewrite dir_list_S in Hr. inv_bind Hr.
          pose proof (IHs _ _ _ _ Ha Ha1) as Hx.
          change (pdirs_list (a :: a0)) with (N.max (pdirs a) (pdirs_list a0)).
          destruct (snd a1) eqn:Es.
          -- injection Hr as <-. rewrite Es. symmetry in Hx. apply N.ltb_lt in Hx.
             symmetry. apply ltb_true_lt. lia.
          -- inv_bind Hr. injection Hr as <-. cbn [snd].
             rewrite (IHl _ _ _ _ Ha0 Ha2).
             symmetry in Hx. apply N.ltb_ge in Hx.
             destruct (N.max_spec (pdirs a) (pdirs_list a0)) as [[Hm ->]|[Hm ->]]; [reflexivity|].
             rewrite (ltb_false_le _ _ Hx). apply ltb_false_le. lia.
  Qed.
End P.

(* ---- complexity: pushing the fragment's type changes nothing when it is the enclosing type --- *)
Section Cx.
  Variable frags : list (name * fragment).
  Variable Sch : schema.
  Variable vars : list (name * value).
  Variable vdefs : list vardef.

  Lemma cx_sel_S push n cur s :
    cx_sel frags Sch vars vdefs push (S n) cur s =
    match s with
    | SField _ nm args _ sub =>
        if is_typename nm then Ok (0, false)
        else
          bindo (cx_list frags Sch vars vdefs push n (field_ty Sch cur nm) sub) (fun c =>
            let r := apply_rule Sch vars vdefs cur nm args (fst c) in
            Ok (fst r, snd c || snd r))
    | SSpread nm _ =>
        match assoc nm frags with
        | Some fr => cx_list frags Sch vars vdefs push n (if push then Some (fr_cond fr) else cur) (fr_sels fr)
        | None => Ok (0, false)
        end
    | SInline (Some c) _ sub => cx_list frags Sch vars vdefs push n (Some c) sub
    | SInline None _ sub => cx_list frags Sch vars vdefs push n cur sub
    end.
  Proof. reflexivity. Qed.
  Lemma cx_list_S push n cur x r :
    cx_list frags Sch vars vdefs push (S n) cur (x :: r) =
    bindo (cx_sel frags Sch vars vdefs push n cur x) (fun a =>
    bindo (cx_list frags Sch vars vdefs push n cur r) (fun b => Ok (fst a + fst b, snd a || snd b))).
  Proof. reflexivity. Qed.
  Lemma sm_sel_S n cur s :
    sm_sel frags Sch (S n) cur s =
    match s with
    | SField _ nm _ _ sub => is_typename nm || sm_list frags Sch n (field_ty Sch cur nm) sub
    | SSpread nm _ =>
        match assoc nm frags with
        | Some fr =>
            match cur with
            | Some c => name_eqb c (fr_cond fr) && sm_list frags Sch n cur (fr_sels fr)
            | None => false
            end
        | None => true
        end
    | SInline (Some c) _ sub => sm_list frags Sch n (Some c) sub
    | SInline None _ sub => sm_list frags Sch n cur sub
    end.
  Proof. reflexivity. Qed.
  Lemma sm_list_S n cur x r :
    sm_list frags Sch (S n) cur (x :: r) = sm_sel frags Sch n cur x && sm_list frags Sch n cur r.
  Proof. reflexivity. Qed.

  Lemma cx_sm n :
    (forall cur s, sm_sel frags Sch n cur s = true ->
        cx_sel frags Sch vars vdefs false n cur s = cx_sel frags Sch vars vdefs true n cur s) /\
    (forall cur l, sm_list frags Sch n cur l = true ->
        cx_list frags Sch vars vdefs false n cur l = cx_list frags Sch vars vdefs true n cur l).
  Proof.
    induction n as [|n [IHs IHl]].
    - split; [intros cur s H; discriminate H|]. intros cur [|x r] H; [reflexivity|discriminate H].
    - split.
      + intros cur s H. rewrite sm_sel_S in H. rewrite !cx_sel_S.
        destruct s as [al nm args dirs sub|nm dirs|c dirs sub].
        * destruct (is_typename nm); [reflexivity|]. cbn [orb] in H. rewrite (IHl _ _ H). reflexivity.
        * destruct (assoc nm frags) as [fr|]; [|reflexivity].
          destruct cur as [c|]; [|discriminate H].
          apply andb_true_iff in H. destruct H as [Hc H]. apply name_eqb_eq in Hc. subst c.
          apply (IHl _ _ H).
        * destruct c as [c|]; apply (IHl _ _ H).
      + intros cur [|x r] H; [reflexivity|]. rewrite sm_list_S in H.
        apply andb_true_iff in H. destruct H as [H1 H2].
        rewrite !cx_list_S, (IHs _ _ H1), (IHl _ _ H2). reflexivity.
  Qed.
End Cx.

(* ---- request level ----------------------------------------------------------- *)
Section Req.
  Variable Sch : schema.
  Variable d : document.
  Variable vars : list (name * value).
  Variable n : nat.

  Ltac inv_bind H :=
    let a := fresh "a" in let Ha := fresh "Ha" in
    apply bindo_ok in H; destruct H as (a & Ha & H).

  Lemma i_rec_exceeds lim ops r ls :
    walk_ops (rec_list (doc_frags d) n (l_rec lim) 0) ops = Ok r ->
    over_ops (fun o => bindo (inline_list (doc_frags d) n (op_sels o)) (fun l => Ok [l]))
             (@app _) [] ops = Ok ls ->
    snd r = (l_rec lim <? ref_nest ls).
  Proof.
    revert r ls. induction ops as [|o rest IH]; intros r ls Hr Hl.
    - injection Hr as <-. injection Hl as <-. cbn [snd ref_nest fold_right]. symmetry. apply N.ltb_ge. lia.
    - cbn [walk_ops over_ops] in Hr, Hl. inv_bind Hr. inv_bind Hl. inv_bind Ha0. injection Ha0 as <-.
      inv_bind Hl. injection Hl as <-. cbn [app].
      change (ref_nest (a1 :: a0)) with (N.max (pnest_list a1) (ref_nest a0)).
      pose proof (proj2 (rec_exceeds (doc_frags d) n) _ _ _ 0 _ (N.le_0_l _) Ha1 Ha) as Hx.
      rewrite N.add_0_l in Hx.
      destruct (snd a) eqn:Es.
      + injection Hr as <-. rewrite Es. symmetry in Hx. apply N.ltb_lt in Hx.
        symmetry. apply N.ltb_lt. lia.
      + inv_bind Hr. injection Hr as <-. cbn [snd]. rewrite (IH _ _ Ha2 Ha0).
        symmetry in Hx. apply N.ltb_ge in Hx.
        destruct (N.max_spec (pnest_list a1) (ref_nest a0)) as [[Hm ->]|[Hm ->]]; [reflexivity|].
        transitivity false; [apply N.ltb_ge; lia|symmetry; apply N.ltb_ge; lia].
  Qed.

  Lemma i_dir_exceeds l ops r ls :
    walk_ops (dir_list (doc_frags d) n l) ops = Ok r ->
    over_ops (fun o => bindo (inline_list (doc_frags d) n (op_sels o)) (fun l => Ok [l]))
             (@app _) [] ops = Ok ls ->
    snd r = (l <? ref_dirs ls).
  Proof.
    revert r ls. induction ops as [|o rest IH]; intros r ls Hr Hl.
    - injection Hr as <-. injection Hl as <-. cbn [snd ref_dirs fold_right]. symmetry. apply N.ltb_ge. lia.
    - cbn [walk_ops over_ops] in Hr, Hl. inv_bind Hr. inv_bind Hl. inv_bind Ha0. injection Ha0 as <-.
      inv_bind Hl. injection Hl as <-. cbn [app].
      change (ref_dirs (a1 :: a0)) with (N.max (pdirs_list a1) (ref_dirs a0)).
      pose proof (proj2 (dir_exceeds (doc_frags d) n) _ _ _ _ Ha1 Ha) as Hx.
      destruct (snd a) eqn:Es.
      + injection Hr as <-. rewrite Es. symmetry in Hx. apply N.ltb_lt in Hx.
        symmetry. apply N.ltb_lt. lia.
      + inv_bind Hr. injection Hr as <-. cbn [snd]. rewrite (IH _ _ Ha2 Ha0).
        symmetry in Hx. apply N.ltb_ge in Hx.
        destruct (N.max_spec (pdirs_list a1) (ref_dirs a0)) as [[Hm ->]|[Hm ->]]; [reflexivity|].
        transitivity false; [apply N.ltb_ge; lia|symmetry; apply N.ltb_ge; lia].
  Qed.

  Lemma i_cx_sm : spreads_match Sch d n = true -> i_cx Sch d vars n false = i_cx Sch d vars n true.
  Proof.
    unfold spreads_match, i_cx. induction (doc_ops d) as [|o rest IH]; [reflexivity|].
    cbn [forallb over_ops]. intros H. apply andb_true_iff in H. destruct H as [H1 H2].
    rewrite (IH H2). destruct (root_of Sch (op_ty o)) as [r|]; [|reflexivity].
    rewrite (proj2 (cx_sm (doc_frags d) Sch vars (op_vars o) n) _ _ H1). reflexivity.
  Qed.

  Lemma i_depth_ref dp : ref_depth Sch d n = Ok dp -> i_depth Sch d n = Ok dp.
  Proof.
    unfold ref_depth, i_depth. revert dp. induction (doc_ops d) as [|o rest IH]; intros dp H; [exact H|].
    cbn [over_ops] in *. inv_bind H. inv_bind H. injection H as <-.
    rewrite (IH _ Ha0). destruct (has_root Sch o).
    - inv_bind Ha. injection Ha as <-.
      rewrite (proj2 (depth_inline (doc_frags d) n) _ _ Ha1). reflexivity.
    - rewrite Ha. reflexivity.
  Qed.

  (* The request is rejected by a limit exactly when a reference measure of the
     inlined document exceeds that limit. *)
  Theorem decision_exact lim dec sr :
    spreads_match Sch d n = true ->
    impl_decision Sch d vars n lim = Ok dec ->
    spec_limit_reject Sch d vars n lim = Ok sr ->
    is_limit_reject dec = sr.
  Proof.
    intros Hsm Hd Hs. unfold impl_decision in Hd. unfold spec_limit_reject in Hs.
    inv_bind Hs. inv_bind Hs. inv_bind Hs. injection Hs as <-.
    inv_bind Hd.
    pose proof (i_rec_exceeds lim _ _ _ Ha2 Ha) as Hrec.
    destruct (snd a2) eqn:E1.
    { injection Hd as <-. rewrite <- Hrec. reflexivity. }
    inv_bind Hd.
    assert (Hdir : snd a3 = exceeds (l_dirs lim) (ref_dirs a)).
    { unfold i_dirwalk in Ha3. unfold exceeds. destruct (l_dirs lim) as [l|].
      - apply (i_dir_exceeds l _ _ _ Ha3 Ha).
      - injection Ha3 as <-. reflexivity. }
    destruct (snd a3) eqn:E2.
    { injection Hd as <-. rewrite <- Hrec, <- Hdir. reflexivity. }
    inv_bind Hd. inv_bind Hd.
    rewrite (i_cx_sm Hsm) in Ha4. rewrite Ha0 in Ha4. injection Ha4 as <-.
    rewrite (i_depth_ref _ Ha1) in Ha5. injection Ha5 as <-.
    rewrite <- Hrec, <- Hdir. cbn [orb].
    destruct (exceeds (l_cx lim) (fst a0)); [injection Hd as <-; reflexivity|].
    destruct (exceeds (l_depth lim) a1); [injection Hd as <-; reflexivity|].
    destruct (snd a0); injection Hd as <-; reflexivity.
  Qed.
End Req.

(* ---- C10 witnesses ------------------------------------------------------------ *)
(* Query { o: O }   O implements I { x (complexity = 5) }   interface I { x } *)
Definition w_schema : schema :=
  {| s_types := [ (10, MObject [(20, {| mf_ty := 11; mf_rule := CDefault |})]);
                  (11, MObject [(21, {| mf_ty := 13; mf_rule := CConst 5 |})]);
                  (12, MInterface [(21, {| mf_ty := 13; mf_rule := CDefault |})]);
                  (13, MOther) ];
     s_query := 10; s_mutation := None; s_subscription := None |}.
Definition w_op (sels : list selection) : operation :=
  {| op_name := None; op_ty := OpQuery; op_vars := []; op_dirs := []; op_sels := sels |}.
(* { o { ...F } }  fragment F on I { x }   versus   { o { ... on I { x } } } *)
Definition w_doc_spread : document :=
  {| doc_ops := [w_op [SField None 20 [] [] [SSpread 30 []]]];
     doc_frags := [(30, {| fr_cond := 12; fr_dirs := []; fr_sels := [SField None 21 [] [] []] |})] |}.
Definition w_doc_inline : document :=
  {| doc_ops := [w_op [SField None 20 [] [] [SInline (Some 12) [] [SField None 21 [] [] []]]]];
     doc_frags := [] |}.
Definition w_limits : limits := {| l_rec := 32; l_dirs := None; l_cx := Some 3; l_depth := None |}.

(* the same selection is accepted when written inline and rejected as "too
   complex" when written through a named fragment *)
Lemma c10_spread_refuted :
  impl_decision w_schema w_doc_inline [] 50 w_limits = Ok D_ACCEPT /\
  impl_decision w_schema w_doc_spread [] 50 w_limits = Ok D_CX /\
  spec_limit_reject w_schema w_doc_spread [] 50 w_limits = Ok false /\
  inlined w_doc_spread 50 = inlined w_doc_inline 50.
Proof. repeat split; vm_compute; reflexivity. Qed.

Lemma c10_nonvacuous :
  spreads_match w_schema w_doc_inline 50 = true /\
  impl_decision w_schema w_doc_inline [] 50 {| l_rec := 32; l_dirs := None; l_cx := Some 1; l_depth := None |} = Ok D_CX /\
  spec_limit_reject w_schema w_doc_inline [] 50 {| l_rec := 32; l_dirs := None; l_cx := Some 1; l_depth := None |} = Ok true.
Proof. repeat split; vm_compute; reflexivity. Qed.

(* ---- C11: cost ------------------------------------------------------------------ *)
Lemma pvisits_le_psize :
  forall s, pvisits s <= psize s.
Proof.
  induction s as [al nm args dirs sub IH|nm dirs|c dirs sub IH] using selection_ind'.
  - cbn [pvisits psize]. destruct (is_typename nm); [lia|].
    assert (fold_right (fun x acc => pvisits x + acc) 0 sub <= fold_right (fun x acc => psize x + acc) 0 sub).
    { induction IH as [|x l Hx _ IHl]; cbn [fold_right]; lia. }
    lia.
  - cbn. lia.
  - cbn [pvisits psize].
    assert (fold_right (fun x acc => pvisits x + acc) 0 sub <= fold_right (fun x acc => psize x + acc) 0 sub).
    { induction IH as [|x l Hx _ IHl]; cbn [fold_right]; lia. }
    lia.
Qed.

Lemma pvisits_list_le_psize l : pvisits_list l <= psize_list l.
Proof.
  induction l as [|x l IH]; cbn [pvisits_list psize_list fold_right]; [lia|].
  pose proof (pvisits_le_psize x). unfold pvisits_list, psize_list in IH. lia.
Qed.

(* the Inline-mode pass costs exactly the size of the INLINED document *)
Lemma c11_visits_inlined frags n l l' v :
  inline_list frags n l = Ok l' -> visits_list frags n l = Ok v -> v = pvisits_list l' /\ v <= psize_list l'.
Proof.
  intros Hi Hv. rewrite (proj2 (visits_inline frags n) _ _ Hi) in Hv. injection Hv as <-.
  split; [reflexivity|apply pvisits_list_le_psize].
Qed.

(* fan-out family: fragment 0 selects one field, fragment k+1 spreads fragment k twice *)
Definition fan_frag (k : nat) : fragment :=
  {| fr_cond := 10; fr_dirs := [];
     fr_sels := match k with
                | O => [SField None 100 [] [] []]
                | S j => [SSpread (N.of_nat j) []; SSpread (N.of_nat j) []]
                end |}.
Definition fan_table (L : nat) : list (name * fragment) :=
  map (fun k => (N.of_nat k, fan_frag k)) (seq 0 (S L)).
Definition fan_doc (L : nat) : document :=
  {| doc_ops := [w_op [SSpread (N.of_nat L) []]]; doc_frags := fan_table L |}.

Lemma assoc_fan_aux k len start :
  (start <= k < start + len)%nat ->
  assoc (N.of_nat k) (map (fun k => (N.of_nat k, fan_frag k)) (seq start len)) = Some (fan_frag k).
Proof.
  revert start. induction len as [|len IH]; intros start H; [lia|].
  cbn [seq map assoc]. destruct (name_eqb (N.of_nat k) (N.of_nat start)) eqn:E.
  - apply name_eqb_eq in E. apply Nat2N.inj in E. subst. reflexivity.
  - apply IH. assert (k <> start). { intros ->. rewrite name_eqb_refl in E. discriminate. } lia.
Qed.

Lemma assoc_fan L k : (k <= L)%nat -> assoc (N.of_nat k) (fan_table L) = Some (fan_frag k).
Proof. intros. apply assoc_fan_aux. lia. Qed.

Lemma typename_100 : is_typename 100 = false.
Proof. reflexivity. Qed.

Lemma fan_visits L k : (k <= L)%nat -> forall n, (3 * k + 3 <= n)%nat ->
  visits_sel (fan_table L) n (SSpread (N.of_nat k) []) = Ok (3 * 2 ^ N.of_nat k - 1).
Proof.
  induction k as [|k IH]; intros Hk n Hn.
  - destruct n as [|[|[|n]]]; try lia.
    rewrite visits_sel_S, (assoc_fan L 0 Hk). cbn [fan_frag fr_sels].
    rewrite visits_list_S, visits_sel_S, typename_100, visits_list_nil. reflexivity.
  - destruct n as [|[|n]]; try lia.
    rewrite visits_sel_S, (assoc_fan L (S k) Hk). cbn [fan_frag fr_sels].
    rewrite visits_list_S. destruct n as [|n]; [lia|].
    rewrite visits_list_S, visits_list_nil.
    rewrite (IH ltac:(lia) (S n) ltac:(lia)), (IH ltac:(lia) n ltac:(lia)). cbn [bindo].
    f_equal. rewrite Nat2N.inj_succ, N.pow_succ_r'.
    assert (1 <= 2 ^ N.of_nat k) by (apply N.lt_pred_le; apply N.neq_0_lt_0; apply N.pow_nonzero; lia).
    lia.
Qed.

Lemma fan_size L : doc_size (fan_doc L) = 2 * N.of_nat L + 2.
Proof.
  unfold doc_size, fan_doc, fan_table. cbn [doc_frags doc_ops w_op op_sels fold_right psize_list psize].
  assert (H : forall start len,
    fold_right (fun fr acc => psize_list (fr_sels (snd fr)) + acc) 0
      (map (fun k => (N.of_nat k, fan_frag k)) (seq start len)) =
    match start with O => (match len with O => 0 | S l => 1 + 2 * N.of_nat l end) | S _ => 2 * N.of_nat len end).
  { intros start len. revert start. induction len as [|len IH]; intros start.
    - destruct start; reflexivity.
    - cbn [seq map fold_right snd]. rewrite IH. destruct start; cbn [fan_frag fr_sels psize_list fold_right psize].
      + destruct len; lia.
      + lia. }
  rewrite H. lia.
Qed.

(* a document of size 2L+2 whose Inline-mode validation pass alone performs
   3*2^L - 1 selection visits, while its nesting (L+1) is within the limit *)
Lemma c11_fanout L :
  doc_size (fan_doc L) = 2 * N.of_nat L + 2 /\
  inline_pass w_schema (fan_doc L) (3 * L + 4) = Ok (3 * 2 ^ N.of_nat L - 1) /\
  i_nest (fan_doc L) (3 * L + 4) = Ok (N.of_nat L + 1).
Proof.
  split; [apply fan_size|]. split.
  - unfold inline_pass, fan_doc. cbn [doc_ops doc_frags over_ops has_root w_op op_ty root_of w_schema s_query op_sels].
    replace (3 * L + 4)%nat with (S (3 * L + 3)) by lia.
    rewrite visits_list_S, visits_list_nil, (fan_visits L L (le_n _) _ (le_n _)). cbn [bindo]. f_equal. lia.
  - unfold i_nest, fan_doc. cbn [doc_ops doc_frags over_ops w_op op_sels].
    assert (H : forall k, (k <= L)%nat -> forall n, (3 * k + 3 <= n)%nat ->
              nest_sel (fan_table L) n (SSpread (N.of_nat k) []) = Ok (N.of_nat k + 1)).
    { induction k as [|k IH]; intros Hk n Hn.
      - destruct n as [|[|[|n]]]; try lia.
        rewrite nest_sel_S, (assoc_fan L 0 Hk). cbn [fan_frag fr_sels].
        rewrite nest_list_S, nest_sel_S, nest_list_nil. reflexivity.
      - destruct n as [|[|n]]; try lia.
        rewrite nest_sel_S, (assoc_fan L (S k) Hk). cbn [fan_frag fr_sels].
        rewrite nest_list_S. destruct n as [|n]; [lia|].
        rewrite nest_list_S, nest_list_nil.
        rewrite (IH ltac:(lia) (S n) ltac:(lia)), (IH ltac:(lia) n ltac:(lia)). cbn [bindo].
        f_equal. rewrite Nat2N.inj_succ. lia. }
    replace (3 * L + 4)%nat with (S (3 * L + 3)) by lia.
    rewrite nest_list_S, nest_list_nil, (H L (le_n _) _ (le_n _)). cbn [bindo]. f_equal. lia.
Qed.

(* default configuration (recursion limit 32): a document of 46 selections costs > 12 million visits *)
Lemma c11_default_config :
  doc_size (fan_doc 22) = 46 /\ 3 * 2 ^ 22 - 1 = 12582911 /\ 22 + 1 <= 32 /\
  work_bound 46 < 12582911.
Proof. repeat split; vm_compute; try reflexivity; discriminate. Qed.

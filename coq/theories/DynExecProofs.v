(* DynExecProofs.v — the dynamic executor model with every deviation flag off
   yields the specification's data (lockstep induction on fuel), and the
   lemmas it needs.  No model definitions here. *)
From AG Require Import DynExec.
Require Import Lia.
Open Scope N_scope.

(* ------------------------------------------------------------ outcomes --- *)
Lemma outv_ind' (P : outv -> Prop) :
  P OErr -> P ONull -> (forall z, P (OInt z)) -> (forall b, P (OFloat b)) -> (forall s, P (OStr s)) ->
  (forall b, P (OBool b)) -> (forall n, P (OEnum n)) -> (forall k, P (ORef k)) ->
  (forall l, Forall P l -> P (OList l)) -> forall o, P o.
Proof.
  intros HE HN HI HF HS HB HEn HR HL. fix IH 1. destruct o.
  - exact HE. - exact HN. - apply HI. - apply HF. - apply HS. - apply HB. - apply HEn. - apply HR.
  - apply HL. induction l as [|x l IHl]; constructor; [apply IH | exact IHl].
Qed.

Section Lemmas.
  Variable S : schema.
  Variable w : world.

  (* with every flag off the relaxed conformance is Exec.conforms *)
  Lemma dconforms_none : forall o t, dconforms dquirks_none S w t o = conforms S w t o.
  Proof.
    induction o using outv_ind'; intro t; cbn [dconforms conforms dquirks_none dq_null_at_nonnull
      dq_null_value_not_null dq_scalar_unchecked].
    - reflexivity.
    - rewrite Bool.orb_false_r. cbn. apply Bool.andb_true_r.
    - destruct (scalar_kind S (strip_nn t)) as [k|]; [|reflexivity]. destruct k as [|[p|p|]]; reflexivity.
    - destruct (scalar_kind S (strip_nn t)) as [k|]; [|reflexivity]. destruct k as [|[p|p|]]; reflexivity.
    - destruct (scalar_kind S (strip_nn t)) as [k|]; [|reflexivity]. destruct k as [|[[p|p|]|[p|p|]|]]; reflexivity.
    - destruct (scalar_kind S (strip_nn t)) as [k|]; [|reflexivity]. destruct k as [|[[p|p|]|[p|p|]|]]; reflexivity.
    - destruct (strip_nn t) as [n0| |]; try reflexivity; destruct (tdef_of S n0) as [[]|]; reflexivity.
    - reflexivity.
    - destruct (strip_nn t) as [|t'|]; try reflexivity.
      induction H as [|x l Hx Hl IHl]; [reflexivity|]. rewrite Hx, IHl. reflexivity.
  Qed.

  Lemma dconforms_top_none nullv t o :
    dconforms_top dquirks_none S w nullv t o = conforms S w t o.
  Proof.
    unfold dconforms_top. destruct o; try apply dconforms_none.
    destruct nullv; [apply dconforms_none | reflexivity].
  Qed.

  (* an outcome the harness resolver cannot convert does not conform *)
  Lemma hfails_item_not_conforms : forall o t, hfails_item S w t o = true -> conforms S w t o = false.
  Proof.
    induction o using outv_ind'; intros t; cbn [hfails_item conforms]; unfold scalar_kind; try reflexivity.
    - discriminate.
    - destruct (strip_nn t) as [n0| |]; try reflexivity. destruct (tdef_of S n0) as [[]|]; try reflexivity; discriminate.
    - destruct (strip_nn t) as [n0| |]; try reflexivity. destruct (tdef_of S n0) as [[]|]; try reflexivity; discriminate.
    - destruct (strip_nn t) as [n0| |]; try reflexivity. destruct (tdef_of S n0) as [[]|]; try reflexivity; discriminate.
    - destruct (strip_nn t) as [n0| |]; try reflexivity. destruct (tdef_of S n0) as [[]|]; try reflexivity; discriminate.
    - destruct (strip_nn t) as [n0| |]; try reflexivity. destruct (tdef_of S n0) as [[]|]; try reflexivity; discriminate.
    - destruct (strip_nn t) as [n0| |]; try reflexivity. destruct (node_ty w k) as [nt|]; [|reflexivity].
      unfold inhabits. destruct (tdef_of S n0) as [[]|]; try reflexivity; try discriminate.
      intro H. destruct (name_eqb nt n0); [discriminate|reflexivity].
    - destruct (strip_nn t) as [|t'|]; try reflexivity.
      induction H as [|x l Hx Hl IHl]; [discriminate|]. intro E.
      apply Bool.orb_true_iff in E. destruct E as [E|E].
      + rewrite (Hx _ E). reflexivity.
      + rewrite (IHl E). apply Bool.andb_false_r.
  Qed.

  Lemma hfails_not_conforms t o : hfails S w t o = true -> conforms S w t o = false.
  Proof.
    unfold hfails. destruct o; try apply hfails_item_not_conforms.
    - reflexivity. - discriminate.
  Qed.

  Lemma conforms_nn t o : conforms S w (TNonNull t) o = true -> conforms S w t o = true /\ o <> ONull.
  Proof.
    destruct t as [n0|t'|t']; destruct o; cbn [conforms strip_nn is_nonnull negb]; unfold scalar_kind;
      try discriminate; (split; [assumption|discriminate]).
  Qed.

  Lemma conforms_list t l : conforms S w (TList t) (OList l) = true -> Forall (fun x => conforms S w t x = true) l.
  Proof.
    cbn [conforms strip_nn]. induction l as [|x l IH]; [constructor|].
    intro H. apply Bool.andb_true_iff in H. destruct H as [Hx Hl]. constructor; [exact Hx|exact (IH Hl)].
  Qed.
End Lemmas.

(* ------------------------------------------------ grouping and merging --- *)

Ltac bindo_inv H :=
  match type of H with
  | bindo ?x _ = Ok _ => let E := fresh "E" in destruct x eqn:E; cbn [bindo] in H; try discriminate H
  end.

Lemma add_group_in g o x : In x (map fst (add_group g o)) -> In x (map fst g) \/ x = o_key o.
Proof.
  induction g as [|[k [nm sels]] r IH]; cbn [add_group map fst In].
  - intros [H|[]]; right; symmetry; exact H.
  - destruct (name_eqb k (o_key o)); cbn [map fst In]; [tauto|].
    intros [H|H]; [tauto|]. destruct (IH H); tauto.
Qed.

Lemma add_group_nodup g o : NoDup (map fst g) -> NoDup (map fst (add_group g o)).
Proof.
  induction g as [|[k [nm sels]] r IH]; cbn [add_group map fst]; intro H.
  - constructor; [intros []|constructor].
  - destruct (name_eqb k (o_key o)) eqn:E; cbn [map fst]; [exact H|].
    inversion H as [|? ? Hn Hr]; subst. constructor; [|exact (IH Hr)].
    intro Hin. destruct (add_group_in _ _ _ Hin) as [Hi|He]; [exact (Hn Hi)|].
    subst. rewrite name_eqb_refl in E. discriminate.
Qed.

Lemma group_nodup occs : NoDup (map fst (group occs)).
Proof.
  unfold group. assert (G : forall acc, NoDup (map fst acc) -> NoDup (map fst (fold_left add_group occs acc))).
  { induction occs as [|o r IH]; intros acc H; cbn [fold_left]; [exact H|]. apply IH, add_group_nodup, H. }
  apply G. constructor.
Qed.

Lemma insert_value_fresh : forall t f k v,
  ~ In k (map fst t) -> (length t < f)%nat -> insert_value f t k v = t ++ [(k, v)].
Proof.
  induction t as [|[k' pv] r IH]; intros f k v Hn Hl; destruct f as [|f']; cbn [length] in Hl; try lia.
  - reflexivity.
  - cbn [insert_value app]. destruct (name_eqb k' k) eqn:E.
    + apply name_eqb_eq in E. subst. exfalso. apply Hn. left. reflexivity.
    + f_equal. apply IH; [|lia]. intro Hi. apply Hn. right. exact Hi.
Qed.

Lemma create_value_object_nodup f l :
  NoDup (map fst l) -> (length l <= f)%nat -> create_value_object f l = VObj l.
Proof.
  unfold create_value_object. intros Hn Hl. f_equal.
  assert (G : forall l acc, NoDup (map fst (acc ++ l)) -> (length (acc ++ l) <= f)%nat ->
              fold_left (fun t kv => insert_value f t (fst kv) (snd kv)) l acc = acc ++ l).
  { clear. induction l as [|[k v] r IH]; intros acc Hn Hl; cbn [fold_left fst snd].
    - symmetry. apply app_nil_r.
    - rewrite insert_value_fresh.
      + rewrite IH; rewrite <- app_assoc; cbn [app]; [reflexivity|exact Hn|exact Hl].
      + rewrite map_app in Hn. cbn [map fst] in Hn. apply NoDup_remove_2 in Hn.
        intro Hi. apply Hn. apply in_or_app. left. exact Hi.
      + rewrite app_length in Hl. cbn [length] in Hl. lia. }
  apply (G l []); assumption.
Qed.

(* ------------------------------------------------------- the refinement --- *)
Definition Rres (s : res) (i : ires) : Prop :=
  match s, i with
  | RVal v, IVal v' => v = v'
  | RFail, IFail _ => True
  | _, _ => False
  end.
Definition Ropt {A} (s : option A) (i : A + path) : Prop :=
  match s, i with
  | Some l, inl l' => l = l'
  | None, inr _ => True
  | _, _ => False
  end.

Definition mkocc (g : name * (name * list selection)) : occ :=
  {| o_key := fst g; o_name := fst (snd g); o_sels := snd (snd g); o_iface := false |}.

Section Refine.
  Variable S : schema.
  Variable w : world.
  Variable frags : list (name * fragment).
  Variable vars : list (name * value).
  Variable vdefs : list vardef.
  Variable nullv : bool.

  Local Notation sset := (s_set S w frags vars vdefs).
  Local Notation sgroups := (s_groups S w frags vars vdefs).
  Local Notation sfield := (s_field S w frags vars vdefs).
  Local Notation scomp := (s_complete S w frags vars vdefs).
  Local Notation sitems := (s_items S w frags vars vdefs).
  Local Notation dset := (d_set dquirks_none S w frags vars vdefs nullv).
  Local Notation doccs := (d_occs dquirks_none S w frags vars vdefs nullv).
  Local Notation dfield := (d_field dquirks_none S w frags vars vdefs nullv).
  Local Notation dcomp := (d_comp dquirks_none S w frags vars vdefs nullv).
  Local Notation ditems := (d_items dquirks_none S w frags vars vdefs nullv).

  (* unfolding equations *)
  Lemma sset_S n rt nid sels p :
    sset (Datatypes.S n) rt nid sels p =
    bindo (s_collect S frags vars vdefs n rt sels) (fun occs =>
    bindo (sgroups n rt nid (group occs) p) (fun r =>
      let '(kv, es, tr) := r in
      Ok (match kv with Some l => RVal (VObj l) | None => RFail end, es, tr))).
  Proof. reflexivity. Qed.
  Lemma sgroups_nil n rt nid p : sgroups n rt nid [] p = Ok (Some [], [], []).
  Proof. destruct n; reflexivity. Qed.
  Lemma sgroups_cons n rt nid k nm sub r p :
    sgroups (Datatypes.S n) rt nid ((k, (nm, sub)) :: r) p =
    bindo (sfield n rt nid k nm sub p) (fun a =>
    bindo (sgroups n rt nid r p) (fun b =>
      let '(ra, ea, ta) := a in
      let '(rb, eb, tb) := b in
      Ok (match ra, rb with RVal v, Some l => Some ((k, v) :: l) | _, _ => None end, ea ++ eb, ta ++ tb))).
  Proof. reflexivity. Qed.
  Lemma sfield_S n rt nid k nm sub p :
    sfield (Datatypes.S n) rt nid k nm sub p =
    if name_eqb nm N_typename then Ok (RVal (VStr (type_str S rt)), [], [])
    else match obj_field_ty S rt nm with
         | None => Err 7
         | Some t =>
             let o := out w nid nm in
             let p' := p ++ [PF k] in
             if resolver_fails S w t o
             then Ok (if is_nonnull t then RFail else RVal VNull, [p'], [(nid, nm)])
             else bindo (scomp n t o sub p') (fun r => let '(v, es, tr) := r in Ok (v, es, (nid, nm) :: tr))
         end.
  Proof. reflexivity. Qed.
  Lemma scomp_S n t o sub p :
    scomp (Datatypes.S n) t o sub p =
    match t with
    | TNonNull t' =>
        bindo (scomp n t' o sub p) (fun r =>
          let '(v, es, tr) := r in Ok (match v with RVal VNull => RFail | _ => v end, es, tr))
    | TList t' =>
        match o with
        | OList l =>
            bindo (sitems n t' l 0 sub p) (fun r =>
              let '(vs, es, tr) := r in
              Ok (match vs with Some l => RVal (VList l) | None => RVal VNull end, es, tr))
        | _ => Ok (RVal VNull, [], [])
        end
    | TNamed tn =>
        match o with
        | ORef k =>
            match node_ty w k with
            | Some rt' =>
                bindo (sset n rt' k sub p) (fun r =>
                  let '(v, es, tr) := r in Ok (match v with RFail => RVal VNull | _ => v end, es, tr))
            | None => Ok (RVal VNull, [], [])
            end
        | ONull => Ok (RVal VNull, [], [])
        | _ => Ok (RVal (leaf_value false o), [], [])
        end
    end.
  Proof. reflexivity. Qed.
  Lemma sitems_nil n t i sub p : sitems n t [] i sub p = Ok (Some [], [], []).
  Proof. destruct n; reflexivity. Qed.
  Lemma sitems_cons n t o r i sub p :
    sitems (Datatypes.S n) t (o :: r) i sub p =
    bindo (scomp n t o sub (p ++ [PI i])) (fun a =>
    bindo (sitems n t r (i + 1) sub p) (fun b =>
      let '(ra, ea, ta) := a in
      let '(rb, eb, tb) := b in
      Ok (match ra, rb with RVal v, Some l => Some (v :: l) | _, _ => None end, ea ++ eb, ta ++ tb))).
  Proof. reflexivity. Qed.

  Lemma dset_S n rt par sels p :
    dset (Datatypes.S n) rt par sels p =
    bindo (s_collect S frags vars vdefs n rt sels) (fun occs0 =>
    bindo (doccs n rt par (dedup_occs occs0) p) (fun r =>
      let '(kv, es, tr) := r in
      Ok (match kv with inl l => IVal (create_value_object n l) | inr ep => IFail ep end, es, tr))).
  Proof. reflexivity. Qed.
  Lemma doccs_nil n rt par p : doccs n rt par [] p = Ok (inl [], [], []).
  Proof. destruct n; reflexivity. Qed.
  Lemma doccs_cons n rt par o r p :
    doccs (Datatypes.S n) rt par (o :: r) p =
    bindo (dfield n rt par o p) (fun a =>
      let '(ra, ea, ta) := a in
      match ra with
      | IFail ep => Ok (inr ep, ea, ta)
      | IVal v =>
          bindo (doccs n rt par r p) (fun b =>
            let '(rb, eb, tb) := b in
            Ok (match rb with inl l => inl ((o_key o, v) :: l) | inr ep => inr ep end, ea ++ eb, ta ++ tb))
      end).
  Proof. reflexivity. Qed.
  Lemma ditems_nil n t i sub p : ditems n t [] i sub p = Ok (inl [], [], []).
  Proof. destruct n; reflexivity. Qed.
  Lemma ditems_cons n t ov r i sub p :
    ditems (Datatypes.S n) t (ov :: r) i sub p =
    bindo (dcomp n t ov sub (p ++ [PI i])) (fun a =>
      let '(ra, ea, ta) := a in
      match ra with
      | IFail ep => Ok (inr ep, ea, ta)
      | IVal v =>
          bindo (ditems n t r (i + 1) sub p) (fun b =>
            let '(rb, eb, tb) := b in
            Ok (match rb with inl l => inl (v :: l) | inr ep => inr ep end, ea ++ eb, ta ++ tb))
      end).
  Proof. reflexivity. Qed.

  (* a container that completes resolved every occurrence *)
  Lemma doccs_inl : forall occs n rt par p l es tr,
    doccs n rt par occs p = Ok (inl l, es, tr) -> (length occs <= n)%nat /\ map fst l = map o_key occs.
  Proof.
    induction occs as [|o r IH]; intros n rt par p l es tr H.
    - rewrite doccs_nil in H. inversion H; subst. split; [cbn; lia|reflexivity].
    - destruct n as [|n]; [discriminate H|]. rewrite doccs_cons in H.
      bindo_inv H. destruct a as [[ra ea] ta]. destruct ra as [v|ep]; [|discriminate H].
      bindo_inv H. destruct a as [[rb eb] tb]. destruct rb as [l'|ep]; [|discriminate H].
      inversion H; subst. destruct (IH _ _ _ _ _ _ _ E0) as [Hl Hk].
      split; [cbn [length]; lia|cbn [map fst]; rewrite Hk; reflexivity].
  Qed.

  Definition P_set (n : nat) : Prop := forall rt nid sels p v es tr,
    sset n rt nid sels p = Ok (v, es, tr) ->
    exists v' es' tr', dset n rt (Some nid) sels p = Ok (v', es', tr') /\ Rres v v'.
  Definition P_groups (n : nat) : Prop := forall gs rt nid p kv es tr,
    sgroups n rt nid gs p = Ok (kv, es, tr) ->
    exists kv' es' tr', doccs n rt (Some nid) (map mkocc gs) p = Ok (kv', es', tr') /\ Ropt kv kv'.
  Definition P_field (n : nat) : Prop := forall rt nid k nm sub p v es tr,
    sfield n rt nid k nm sub p = Ok (v, es, tr) ->
    exists v' es' tr', dfield n rt (Some nid) {| o_key := k; o_name := nm; o_sels := sub; o_iface := false |} p
                       = Ok (v', es', tr') /\ Rres v v'.
  Definition P_comp (n : nat) : Prop := forall t o sub p v es tr,
    conforms S w t o = true ->
    scomp n t o sub p = Ok (v, es, tr) ->
    exists v' es' tr', dcomp n t o sub p = Ok (v', es', tr') /\ Rres v v'.
  Definition P_items (n : nat) : Prop := forall l t i sub p vs es tr,
    Forall (fun x => conforms S w t x = true) l ->
    sitems n t l i sub p = Ok (vs, es, tr) ->
    exists vs' es' tr', ditems n t l i sub p = Ok (vs', es', tr') /\ Ropt vs vs'.

  Lemma dfield_S n rt nid o p :
    dfield (Datatypes.S n) rt (Some nid) o p =
    if name_eqb (o_name o) N_typename then Ok (IVal (VStr (type_str S rt)), [], [])
    else match obj_field_ty S rt (o_name o) with
         | None => Err 7
         | Some t =>
             let p' := p ++ [PF (o_key o)] in
             let ov := out w nid (o_name o) in
             let tr0 := [(nid, o_name o)] in
             if hfails S w t ov then fail_field dquirks_none t p' tr0
             else if negb (dconforms_top dquirks_none S w nullv t ov) then fail_field dquirks_none t p' tr0
             else if is_onull ov && negb nullv then Ok (if is_nonnull t then IFail p' else IVal VNull, [], tr0)
             else bindo (dcomp n t ov (o_sels o) p') (fun r =>
                    let '(v, es, tr) := r in Ok (v, es, (nid, o_name o) :: tr))
         end.
  Proof. reflexivity. Qed.

  Lemma dcomp_S n t ov sub p :
    dcomp (Datatypes.S n) t ov sub p =
    match t with
    | TNonNull t' =>
        bindo (dcomp n t' ov sub p) (fun r =>
          let '(v, es, tr) := r in
          Ok (match v with IVal VNull => IFail p | _ => v end, es, tr))
    | TList t' =>
        match ov with
        | OList l =>
            bindo (ditems n t' l 0 sub p) (fun r =>
              let '(vs, es, tr) := r in
              Ok (d_catch dquirks_none (match vs with inl l => IVal (VList l) | inr ep => IFail ep end, es, tr)))
        | ONull => Ok (IVal VNull, [], [])
        | _ => Ok (IVal VNull, [], [])
        end
    | TNamed tn =>
        match ov with
        | ORef k =>
            match node_ty w k with
            | Some rt' =>
                if inhabits S rt' tn then bindo (dset n rt' (Some k) sub p) (fun r => Ok (d_catch dquirks_none r))
                else Ok (IFail p, [], [])
            | None => Ok (IVal VNull, [], [])
            end
        | ONull => Ok (IVal VNull, [], [])
        | OEnum v =>
            match tdef_of S tn with
            | Some (DEnum vs) => Ok (if mem v vs then IVal (VEnum v) else IFail p, [], [])
            | Some (DScalar _) => Ok (IFail p, [], [])
            | _ => Ok (IFail p, [], [])
            end
        | _ =>
            match tdef_of S tn with
            | Some (DScalar k) => Ok (if leaf_kind_ok k ov then IVal (leaf_value false ov) else IFail p, [], [])
            | _ => Ok (IFail p, [], [])
            end
        end
    end.
  Proof. reflexivity. Qed.

  Lemma step_set n : P_groups n -> P_set (Datatypes.S n).
  Proof.
    intros HG rt nid sels p v es tr H. rewrite sset_S in H.
    bindo_inv H. bindo_inv H. destruct a0 as [[kv es0] tr0]. inversion H; subst; clear H.
    destruct (HG _ _ _ _ _ _ _ E0) as (kv' & es' & tr' & Hd & HR).
    rewrite dset_S, E. cbn [bindo]. change (dedup_occs a) with (map mkocc (group a)). rewrite Hd. cbn [bindo].
    destruct kv as [l|], kv' as [l'|ep]; cbn [Ropt] in HR; try contradiction.
    - subst l'. eexists _, _, _. split; [reflexivity|]. cbn [Rres].
      destruct (doccs_inl _ _ _ _ _ _ _ _ Hd) as [Hl Hk].
      rewrite create_value_object_nodup; [reflexivity| |].
      + rewrite Hk, map_map. cbn [mkocc o_key]. apply group_nodup.
      + rewrite map_length in Hl. rewrite <- (map_length fst l), Hk, !map_length. exact Hl.
    - eexists _, _, _. split; [reflexivity|exact I].
  Qed.

  Lemma groups_0 : P_groups 0.
  Proof.
    intros [|[k [nm sub]] r] rt nid p kv es tr H; [|discriminate H].
    inversion H; subst. eexists _, _, _. split; [reflexivity|reflexivity].
  Qed.

  Lemma step_groups n : P_field n -> P_groups n -> P_groups (Datatypes.S n).
  Proof.
    intros HF HG [|[k [nm sub]] r] rt nid p kv es tr H.
    - rewrite sgroups_nil in H. inversion H; subst. cbn [map]. rewrite doccs_nil.
      eexists _, _, _. split; [reflexivity|reflexivity].
    - rewrite sgroups_cons in H. bindo_inv H. bindo_inv H.
      destruct a as [[ra ea] ta], a0 as [[rb eb] tb]. inversion H; subst; clear H.
      destruct (HF _ _ _ _ _ _ _ _ _ E) as (v' & es' & tr' & Hd & HR).
      cbn [map]. rewrite doccs_cons. unfold mkocc at 1. cbn [fst snd]. rewrite Hd. cbn [bindo].
      destruct ra as [v|], v' as [v''|ep]; cbn [Rres] in HR; try contradiction.
      + subst v''. destruct (HG _ _ _ _ _ _ _ E0) as (kv' & es2 & tr2 & Hd2 & HR2). rewrite Hd2. cbn [bindo o_key].
        destruct rb as [l|], kv' as [l'|ep]; cbn [Ropt] in HR2; try contradiction;
          eexists _, _, _; (split; [reflexivity|]); cbn [Ropt]; [subst; reflexivity|exact I].
      + eexists _, _, _. split; [reflexivity|exact I].
  Qed.

  Lemma items_0 : P_items 0.
  Proof.
    intros [|o r] t i sub p vs es tr _ H; [|discriminate H].
    inversion H; subst. eexists _, _, _. split; [reflexivity|reflexivity].
  Qed.

  Lemma step_items n : P_comp n -> P_items n -> P_items (Datatypes.S n).
  Proof.
    intros HC HI [|o r] t i sub p vs es tr Hall H.
    - rewrite sitems_nil in H. inversion H; subst. rewrite ditems_nil.
      eexists _, _, _. split; [reflexivity|reflexivity].
    - rewrite sitems_cons in H. bindo_inv H. bindo_inv H.
      destruct a as [[ra ea] ta], a0 as [[rb eb] tb]. inversion H; subst; clear H.
      inversion Hall as [|? ? Ho Hr]; subst.
      destruct (HC _ _ _ _ _ _ _ Ho E) as (v' & es' & tr' & Hd & HR).
      rewrite ditems_cons, Hd. cbn [bindo].
      destruct ra as [v|], v' as [v''|ep]; cbn [Rres] in HR; try contradiction.
      + subst v''. destruct (HI _ _ _ _ _ _ _ _ Hr E0) as (kv' & es2 & tr2 & Hd2 & HR2). rewrite Hd2. cbn [bindo].
        destruct rb as [l|], kv' as [l'|ep]; cbn [Ropt] in HR2; try contradiction;
          eexists _, _, _; (split; [reflexivity|]); cbn [Ropt]; [subst; reflexivity|exact I].
      + eexists _, _, _. split; [reflexivity|exact I].
  Qed.

  Lemma scomp_null n t sub p v es tr :
    is_nonnull t = false -> scomp n t ONull sub p = Ok (v, es, tr) -> v = RVal VNull.
  Proof.
    intros Hn H. destruct n as [|n]; [discriminate H|]. rewrite scomp_S in H.
    destruct t; [inversion H; reflexivity|inversion H; reflexivity|discriminate Hn].
  Qed.

  Lemma step_field n : P_comp n -> P_field (Datatypes.S n).
  Proof.
    intros HC rt nid k nm sub p v es tr H. rewrite sfield_S in H. rewrite dfield_S. cbn [o_name o_key o_sels].
    destruct (name_eqb nm N_typename).
    { inversion H; subst. eexists _, _, _. split; [reflexivity|reflexivity]. }
    destruct (obj_field_ty S rt nm) as [t|]; [|discriminate H].
    cbv zeta in H. cbv zeta. rewrite dconforms_top_none.
    assert (FF : forall ep tr0, exists v' es' tr',
               fail_field dquirks_none t ep tr0 = Ok (v', es', tr') /\
               Rres (if is_nonnull t then RFail else RVal VNull) v').
    { intros ep tr0. unfold fail_field. cbn [dq_no_catch dquirks_none orb].
      destruct (is_nonnull t); eexists _, _, _; (split; [reflexivity|]); [exact I|reflexivity]. }
    unfold resolver_fails in H.
    destruct (hfails S w t (out w nid nm)) eqn:HFa.
    - pose proof (hfails_not_conforms _ _ _ _ HFa) as Hc. rewrite Hc in H.
      assert (H' : Ok (if is_nonnull t then RFail else RVal VNull, [p ++ [PF k]], [(nid, nm)]) = Ok (v, es, tr))
        by (destruct (out w nid nm); exact H).
      inversion H'; subst. apply FF.
    - destruct (conforms S w t (out w nid nm)) eqn:Hc; cbn [negb].
      + assert (H' : bindo (scomp n t (out w nid nm) sub (p ++ [PF k]))
                       (fun r => let '(v, es, tr) := r in Ok (v, es, (nid, nm) :: tr)) = Ok (v, es, tr)).
        { destruct (out w nid nm); try exact H. discriminate HFa. }
        clear H. bindo_inv H'. destruct a as [[v0 es0] tr0]. inversion H'; subst; clear H'.
        destruct (is_onull (out w nid nm) && negb nullv) eqn:ON.
        * destruct (out w nid nm); try discriminate ON.
          cbn [conforms] in Hc. apply Bool.negb_true_iff in Hc. rewrite Hc.
          rewrite (scomp_null _ _ _ _ _ _ _ Hc E).
          eexists _, _, _. split; [reflexivity|reflexivity].
        * destruct (HC _ _ _ _ _ _ _ Hc E) as (v' & es' & tr' & Hd & HR). rewrite Hd. cbn [bindo].
          eexists _, _, _. split; [reflexivity|exact HR].
      + assert (H' : Ok (if is_nonnull t then RFail else RVal VNull, [p ++ [PF k]], [(nid, nm)]) = Ok (v, es, tr))
          by (destruct (out w nid nm); exact H).
        inversion H'; subst. apply FF.
  Qed.

  Lemma step_comp n : P_comp n -> P_set n -> P_items n -> P_comp (Datatypes.S n).
  Proof.
    intros HC HS HI t o sub p v es tr Hc H. rewrite scomp_S in H. rewrite dcomp_S.
    destruct t as [tn|t'|t'].
    - (* named *)
      destruct o; cbn [conforms strip_nn is_nonnull negb] in Hc; unfold scalar_kind in Hc; try discriminate Hc.
      + inversion H; subst. eexists _, _, _. split; [reflexivity|reflexivity].
      + destruct (tdef_of S tn) as [[| | |k|]|]; try discriminate Hc.
        destruct k as [|[q|q|]]; try discriminate Hc.
        inversion H; subst. eexists _, _, _. split; [reflexivity|reflexivity].
      + destruct (tdef_of S tn) as [[| | |k|]|]; try discriminate Hc.
        destruct k as [|[q|q|]]; try discriminate Hc.
        inversion H; subst. eexists _, _, _. split; [reflexivity|reflexivity].
      + destruct (tdef_of S tn) as [[| | |k|]|]; try discriminate Hc.
        destruct k as [|[[q|q|]|[q|q|]|]]; try discriminate Hc.
        inversion H; subst. eexists _, _, _. split; [reflexivity|reflexivity].
      + destruct (tdef_of S tn) as [[| | |k|]|]; try discriminate Hc.
        destruct k as [|[[q|q|]|[q|q|]|]]; try discriminate Hc.
        inversion H; subst. eexists _, _, _. split; [reflexivity|reflexivity].
      + destruct (tdef_of S tn) as [[| | | |vs]|]; try discriminate Hc.
        rewrite Hc. inversion H; subst. eexists _, _, _. split; [reflexivity|reflexivity].
      + destruct (node_ty w nid) as [rt'|]; [|discriminate Hc]. rewrite Hc.
        bindo_inv H. destruct a as [[v0 es0] tr0]. inversion H; subst; clear H.
        destruct (HS _ _ _ _ _ _ _ E) as (v' & es' & tr' & Hd & HR). rewrite Hd. cbn [bindo d_catch].
        cbn [dq_no_catch dquirks_none].
        destruct v0 as [x|], v' as [x'|ep]; cbn [Rres] in HR; try contradiction;
          eexists _, _, _; (split; [reflexivity|]); cbn [Rres]; [|reflexivity].
        subst. destruct x'; reflexivity.
    - (* list *)
      destruct o; cbn [conforms strip_nn is_nonnull negb] in Hc; unfold scalar_kind in Hc; try discriminate Hc.
      + inversion H; subst. eexists _, _, _. split; [reflexivity|reflexivity].
      + pose proof (conforms_list _ _ _ _ Hc) as Hall.
        bindo_inv H. destruct a as [[vs es0] tr0]. inversion H; subst; clear H.
        destruct (HI _ _ _ _ _ _ _ _ Hall E) as (vs' & es' & tr' & Hd & HR). rewrite Hd. cbn [bindo d_catch].
        cbn [dq_no_catch dquirks_none].
        destruct vs as [x|], vs' as [x'|ep]; cbn [Ropt] in HR; try contradiction;
          eexists _, _, _; (split; [reflexivity|]); cbn [Rres]; [subst; reflexivity|reflexivity].
    - (* non-null *)
      destruct (conforms_nn _ _ _ _ Hc) as [Hc' _].
      bindo_inv H. destruct a as [[v0 es0] tr0]. inversion H; subst; clear H.
      destruct (HC _ _ _ _ _ _ _ Hc' E) as (v' & es' & tr' & Hd & HR). rewrite Hd. cbn [bindo].
      eexists _, _, _. split; [reflexivity|].
      destruct v0 as [x|], v' as [x'|ep]; cbn [Rres] in HR; try contradiction.
      + subst x'. destruct x; cbn [Rres]; try reflexivity; exact I.
      + exact I.
  Qed.

  Lemma refine_all : forall n, P_set n /\ P_groups n /\ P_field n /\ P_comp n /\ P_items n.
  Proof.
    induction n as [|n (HS & HG & HF & HC & HI)].
    - repeat split.
      + intros rt nid sels p v es tr H. discriminate H.
      + apply groups_0.
      + intros rt nid k nm sub p v es tr H. discriminate H.
      + intros t o sub p v es tr _ H. discriminate H.
      + apply items_0.
    - repeat split.
      + apply step_set, HG.
      + apply step_groups; assumption.
      + apply step_field, HC.
      + apply step_comp; assumption.
      + apply step_items; assumption.
  Qed.
End Refine.

(* with every deviation flag off, the dynamic executor model answers the
   specification's data: for every schema, world, document, operation name,
   variables, null style and fuel on which the specification terminates *)
Theorem dyn_corrected_data : forall S w d opname vars nullv n r,
  spec_exec S w d opname vars n = Ok r ->
  exists r', dyn_exec dquirks_none nullv S w d opname vars n = Ok r' /\ rs_data r' = rs_data r.
Proof.
  intros S w d opname vars nullv n r H. unfold spec_exec in H. unfold dyn_exec.
  destruct (select_op d opname) as [o|]; [|discriminate H].
  destruct (root_name S o) as [rt|]; [|discriminate H].
  bindo_inv H. destruct a as [[v es] tr]. inversion H; subst; clear H.
  destruct (refine_all S w (doc_frags d) vars (op_vars o) nullv n) as (HS & _).
  destruct (HS _ _ _ _ _ _ _ E) as (v' & es' & tr' & Hd & HR). rewrite Hd. cbn [bindo].
  destruct v as [x|], v' as [x'|ep]; cbn [Rres] in HR; try contradiction;
    eexists; (split; [reflexivity|]); cbn [rs_data]; [subst; reflexivity|reflexivity].
Qed.

(* ------------------------------------------ non-null positions (any q) --- *)
Section NonNull.
  Variable q : dquirks.
  Variable S : schema.
  Variable w : world.
  Variable frags : list (name * fragment).
  Variable vars : list (name * value).
  Variable vdefs : list vardef.
  Variable nullv : bool.
  Hypothesis Hq : dq_null_at_nonnull q = false.

  Local Notation dcomp := (d_comp q S w frags vars vdefs nullv).
  Local Notation dfield := (d_field q S w frags vars vdefs nullv).

  Lemma dcomp_nn_S n t ov sub p :
    dcomp (Datatypes.S n) (TNonNull t) ov sub p =
    bindo (dcomp n t ov sub p) (fun r =>
      let '(v, es, tr) := r in
      Ok (match v with
          | IVal VNull => if dq_null_at_nonnull q && is_onull ov then IVal VNull else IFail p
          | _ => v
          end, es, tr)).
  Proof. reflexivity. Qed.

  (* completing a value at a non-null type never yields null *)
  Lemma d_comp_nonnull n t ov sub p v es tr :
    dcomp n (TNonNull t) ov sub p = Ok (IVal v, es, tr) -> v <> VNull.
  Proof.
    destruct n as [|n]; [discriminate|]. rewrite dcomp_nn_S, Hq. cbn [andb]. intro H.
    bindo_inv H. destruct a as [[[x|ep] es0] tr0].
    - destruct x; inversion H; subst; discriminate.
    - inversion H.
  Qed.

  Lemma dfield_S' n rt nid o p :
    dfield (Datatypes.S n) rt (Some nid) o p =
    if name_eqb (o_name o) N_typename then Ok (IVal (VStr (type_str S rt)), [], [])
    else match obj_field_ty S rt (o_name o) with
         | None => Err 7
         | Some t =>
             let p' := p ++ [PF (o_key o)] in
             let rp := if dq_resolver_err_no_path q then [] else p' in
             let ov := out w nid (o_name o) in
             let tr0 := [(nid, o_name o)] in
             if hfails S w t ov then fail_field q t rp tr0
             else if negb (dq_no_catch q) && negb (dconforms_top q S w nullv t ov) then fail_field q t p' tr0
             else if is_onull ov && negb nullv then Ok (if is_nonnull t then IFail p' else IVal VNull, [], tr0)
             else bindo (dcomp n t ov (o_sels o) p') (fun r =>
                    let '(v, es, tr) := r in Ok (v, es, (nid, o_name o) :: tr))
         end.
  Proof. reflexivity. Qed.

  (* a field whose declared type is non-null never holds null *)
  Lemma d_field_nonnull n rt nid o p t v es tr :
    obj_field_ty S rt (o_name o) = Some (TNonNull t) ->
    dfield n rt (Some nid) o p = Ok (IVal v, es, tr) -> v <> VNull.
  Proof.
    intros Ht H. destruct n as [|n]; [discriminate|]. rewrite dfield_S' in H.
    destruct (name_eqb (o_name o) N_typename); [inversion H; discriminate|].
    rewrite Ht in H. cbv zeta in H. unfold fail_field in H. cbn [is_nonnull] in H.
    rewrite !Bool.orb_true_r in H.
    destruct (hfails S w (TNonNull t) (out w nid (o_name o))); [inversion H|].
    destruct (negb (dq_no_catch q) && negb (dconforms_top q S w nullv (TNonNull t) (out w nid (o_name o)))); [inversion H|].
    destruct (is_onull (out w nid (o_name o)) && negb nullv); [inversion H|].
    bindo_inv H. destruct a as [[v0 es0] tr0]. inversion H; subst.
    eapply d_comp_nonnull. exact E.
  Qed.
End NonNull.

(* DynExec.v — model of the executor of schemas assembled at run time with the
   dynamic-schema API (src/dynamic/resolve.rs, src/dynamic/schema.rs), against
   the specification [spec_exec] of Exec.v (GraphQL October 2021, section 6).

   What is transcribed:
   - prepare_request's pruning of @skip/@include (shared with static schemas);
   - collect_fields: one future per field OCCURRENCE; a fragment applies when it
     has no type condition, or the condition is the object's name, or it is in
     [object.implements] (type_condition_matched) — nothing else;
   - resolve_container: the futures run left to right and the first error ends
     the container (try_join_all on ready futures at the query root, the serial
     loop everywhere else); the results are merged by create_value_object;
   - collect_field: a resolver error becomes a ServerError WITHOUT path
     (err.into_server_error(field.pos)); no error is ever caught below the root:
     execute_once answers data = null and that single error;
   - resolve over TypeRef: Named/NonNull/List; None at NonNull is an error with
     path, Some(value) at NonNull is passed through unchecked;
   - resolve_value: scalars accept every FieldValue::Value their validator
     accepts (built-in scalars have no validator); enums accept member names;
     an Object type runs its selection set on WHATEVER value it is given;
     interfaces/unions need FieldValue::WithType with a possible type
     (interfaces: the registry's possible types = direct implementors);
   - resolve_list: items left to right, first error wins, path of the item.

   Resolvers are the data-driven resolvers of harness/src/bin/c02.rs: the
   outcome [out w nid f] is converted into a FieldValue ([hfails] = that
   conversion fails, the resolver returns Err); [nullv] = a null outcome is
   returned as Some(FieldValue::NULL) instead of None. *)
From AG Require Export Exec.
Open Scope N_scope.

(* deviations of today's code from the specification, one flag each; with a
   flag off the model does what corrected code would do *)
Record dquirks := {
  dq_skip_no_default : bool;      (* 1 @skip/@include ignore variable defaults *)
  dq_cond_implements_only : bool; (* 2 type conditions: object name or object.implements only (never a union) *)
  dq_no_catch : bool;             (* 3 no error is caught at a nullable position: the whole data is null *)
  dq_per_occurrence : bool;       (* 4 repeated response keys are resolved once per occurrence and merged *)
  dq_null_at_nonnull : bool;      (* 5 a null VALUE at a non-null position is passed through *)
  dq_scalar_unchecked : bool;     (* 6 built-in scalars accept values of every kind *)
  dq_null_value_not_null : bool;  (* 7 a null VALUE at an object/abstract/enum/list type is not completed to null *)
  dq_resolver_err_no_path : bool  (* 8 resolver errors carry no path (errors only; no effect on data) *)
}.

Definition dquirks_today : dquirks :=
  {| dq_skip_no_default := true; dq_cond_implements_only := true; dq_no_catch := true; dq_per_occurrence := true;
     dq_null_at_nonnull := true; dq_scalar_unchecked := true; dq_null_value_not_null := true;
     dq_resolver_err_no_path := true |}.

Definition dquirks_none : dquirks :=
  {| dq_skip_no_default := false; dq_cond_implements_only := false; dq_no_catch := false; dq_per_occurrence := false;
     dq_null_at_nonnull := false; dq_scalar_unchecked := false; dq_null_value_not_null := false;
     dq_resolver_err_no_path := false |}.

Definition is_onull (o : outv) : bool := match o with ONull => true | _ => false end.

Definition leaf_kind_ok (k : N) (o : outv) : bool :=
  match o with
  | OInt _ => k =? 0
  | OFloat _ => k =? 1
  | OStr _ => k =? 2
  | OBool _ => k =? 3
  | _ => false
  end.

Section Dyn.
  Variable q : dquirks.
  Variable S : schema.
  Variable w : world.
  Variable frags : list (name * fragment).
  Variable vars : list (name * value).
  Variable vdefs : list vardef.
  Variable nullv : bool.

  (* ---- the harness resolver: conversion of an outcome into a FieldValue fails
     (item_fv / top_fv in harness/src/bin/c02.rs) *)
  Fixpoint hfails_item (t : ty) (o : outv) {struct o} : bool :=
    let t0 := strip_nn t in
    match o with
    | OErr => true
    | ONull => false
    | ORef k =>
        match t0 with
        | TNamed n =>
            match node_ty w k with
            | None => true
            | Some nt =>
                match tdef_of S n with
                | Some (DObject _ _) => negb (name_eqb nt n)
                | Some (DInterface _ _) => false
                | Some (DUnion _) => false
                | _ => true
                end
            end
        | _ => true
        end
    | OList l =>
        match t0 with
        | TList t' => (fix any (l : list outv) : bool :=
                         match l with [] => false | x :: r => hfails_item t' x || any r end) l
        | _ => true
        end
    | _ =>
        match t0 with
        | TNamed n => match tdef_of S n with Some (DScalar _) => false | Some (DEnum _) => false | _ => true end
        | _ => true
        end
    end.

  Definition hfails (t : ty) (o : outv) : bool :=
    match o with OErr => true | ONull => false | _ => hfails_item t o end.

  (* ---- would the executor complete this VALUE without raising an error of its
     own (errors of nested fields not counted)?  Same skeleton as Exec.conforms,
     relaxed by the deviation flags; with all flags off it IS Exec.conforms. *)
  Fixpoint dconforms (t : ty) (o : outv) {struct o} : bool :=
    let t0 := strip_nn t in
    match o with
    | OErr => false
    | ONull =>
        (negb (is_nonnull t) || dq_null_at_nonnull q) &&
        (negb (dq_null_value_not_null q) ||
         match t0 with
         | TNamed n => match tdef_of S n with Some (DScalar _) => true | Some (DObject _ _) => true | _ => false end
         | _ => false
         end)
    | OInt _ => match scalar_kind S t0 with Some k => dq_scalar_unchecked q || (k =? 0) | None => false end
    | OFloat _ => match scalar_kind S t0 with Some k => dq_scalar_unchecked q || (k =? 1) | None => false end
    | OStr _ => match scalar_kind S t0 with Some k => dq_scalar_unchecked q || (k =? 2) | None => false end
    | OBool _ => match scalar_kind S t0 with Some k => dq_scalar_unchecked q || (k =? 3) | None => false end
    | OEnum v => match t0 with
                 | TNamed n => match tdef_of S n with
                               | Some (DEnum vs) => mem v vs
                               | Some (DScalar _) => dq_scalar_unchecked q
                               | _ => false
                               end
                 | _ => false
                 end
    | ORef k => match t0 with
                | TNamed n => match node_ty w k with Some nt => inhabits S nt n | None => false end
                | _ => false
                end
    | OList l => match t0 with
                 | TList t' => (fix all (l : list outv) : bool :=
                                  match l with [] => true | x :: r => dconforms t' x && all r end) l
                 | _ => false
                 end
    end.

  (* at the top of a field a null outcome is None when [nullv] is off *)
  Definition dconforms_top (t : ty) (o : outv) : bool :=
    match o with
    | ONull => if nullv then dconforms t o else negb (is_nonnull t)
    | _ => dconforms t o
    end.

  (* ---- prepare_request: remove_skipped_selection::is_skipped *)
  Definition d_cond (d : directive) : option bool :=
    if dq_skip_no_default q then
      Some (match assoc N_if (d_args d) with
            | Some (VBool b) => b
            | Some (VVar v) => match assoc v vars with Some (VBool b) => b | _ => false end
            | _ => false
            end)
    else dir_if vars vdefs d.
  Definition d_skipped (dirs : list directive) : option bool := skipped d_cond dirs.

  (* ---- collect_fields: type_condition_matched *)
  Definition d_applies (cond rt : name) : bool :=
    if dq_cond_implements_only q then name_eqb cond rt || mem cond (implements_of S rt)
    else applies_spec S cond rt.

  Fixpoint d_collect (n : nat) (rt : name) (sels : list selection) {struct n} : outcome (list occ) :=
    match sels with
    | [] => Ok []
    | s :: r =>
      match n with
      | O => OutOfFuel
      | Datatypes.S n' =>
        bindo (match d_skipped (sel_dirs s) with
               | None => Err 8
               | Some true => Ok []
               | Some false =>
                 match s with
                 | SField al nm _ _ sub =>
                     Ok [{| o_key := key_of al nm; o_name := nm; o_sels := sub; o_iface := false |}]
                 | SSpread nm _ =>
                     match assoc nm frags with
                     | Some fr => if d_applies (fr_cond fr) rt then d_collect n' rt (fr_sels fr) else Ok []
                     | None => Ok []
                     end
                 | SInline c _ sub =>
                     if match c with Some c => d_applies c rt | None => true end
                     then d_collect n' rt sub else Ok []
                 end
               end) (fun a => bindo (d_collect n' rt r) (fun b => Ok (a ++ b)))
      end
    end.

  Definition fail_field (t : ty) (ep : path) (tr : list (N * name)) : outcome isres :=
    if dq_no_catch q || is_nonnull t then Ok (IFail ep, [], tr) else Ok (IVal VNull, [ep], tr).

  (* an error coming out of a nested container / list *)
  Definition d_catch (r : isres) : isres :=
    let '(v, es, tr) := r in
    match v with
    | IFail ep => if dq_no_catch q then (IFail ep, es, tr) else (IVal VNull, es ++ [ep], tr)
    | IVal x => (IVal x, es, tr)
    end.

  (* [par]: the node the container's resolvers read; None = the parent value is
     not a node (a null value resolved as an object): every resolver fails *)
  Fixpoint d_set (n : nat) (rt : name) (par : option N) (sels : list selection) (p : path) {struct n}
    : outcome isres :=
    match n with
    | O => OutOfFuel
    | Datatypes.S n' =>
      bindo (d_collect n' rt sels) (fun occs0 =>
      let occs := if dq_per_occurrence q then occs0 else dedup_occs occs0 in
      bindo (d_occs n' rt par occs p) (fun r =>
        let '(kv, es, tr) := r in
        Ok (match kv with
            | inl l => IVal (create_value_object n' l)
            | inr ep => IFail ep
            end, es, tr)))
    end
  with d_occs (n : nat) (rt : name) (par : option N) (occs : list occ) (p : path) {struct n}
       : outcome ((list (name * value) + path) * list path * list (N * name)) :=
    match occs with
    | [] => Ok (inl [], [], [])
    | o :: r =>
      match n with
      | O => OutOfFuel
      | Datatypes.S n' =>
        bindo (d_field n' rt par o p) (fun a =>
          let '(ra, ea, ta) := a in
          match ra with
          | IFail ep => Ok (inr ep, ea, ta)            (* the rest is dropped *)
          | IVal v =>
              bindo (d_occs n' rt par r p) (fun b =>
                let '(rb, eb, tb) := b in
                Ok (match rb with
                    | inl l => inl ((o_key o, v) :: l)
                    | inr ep => inr ep
                    end, ea ++ eb, ta ++ tb))
          end)
      end
    end
  with d_field (n : nat) (rt : name) (par : option N) (o : occ) (p : path) {struct n} : outcome isres :=
    match n with
    | O => OutOfFuel
    | Datatypes.S n' =>
      if name_eqb (o_name o) N_typename then Ok (IVal (VStr (type_str S rt)), [], [])
      else match obj_field_ty S rt (o_name o) with
           | None => Err 7           (* rejected by validation (the code would skip the field) *)
           | Some t =>
               let p' := p ++ [PF (o_key o)] in
               let rp := if dq_resolver_err_no_path q then [] else p' in
               match par with
               | None => Ok (IFail rp, [], [])
               | Some nid =>
                   let ov := out w nid (o_name o) in
                   let tr0 := [(nid, o_name o)] in
                   if hfails t ov then fail_field t rp tr0
                   else if negb (dq_no_catch q) && negb (dconforms_top t ov) then fail_field t p' tr0
                   else if is_onull ov && negb nullv then
                     (* the resolver returned None *)
                     Ok (if is_nonnull t then IFail p' else IVal VNull, [], tr0)
                   else bindo (d_comp n' t ov (o_sels o) p') (fun r =>
                          let '(v, es, tr) := r in Ok (v, es, (nid, o_name o) :: tr))
               end
           end
    end
  with d_comp (n : nat) (t : ty) (ov : outv) (sub : list selection) (p : path) {struct n}
       : outcome isres :=
    (* resolve(type_ref, Some(value)) *)
    match n with
    | O => OutOfFuel
    | Datatypes.S n' =>
      match t with
      | TNonNull t' =>
          bindo (d_comp n' t' ov sub p) (fun r =>
            let '(v, es, tr) := r in
            Ok (match v with
                | IVal VNull => if dq_null_at_nonnull q && is_onull ov then IVal VNull else IFail p
                | _ => v
                end, es, tr))
      | TList t' =>
          match ov with
          | OList l =>
              bindo (d_items n' t' l 0 sub p) (fun r =>
                let '(vs, es, tr) := r in
                Ok (d_catch (match vs with inl l => IVal (VList l) | inr ep => IFail ep end, es, tr)))
          | ONull => Ok (if dq_null_value_not_null q then IFail p else IVal VNull, [], [])   (* "expects an array" *)
          | _ => Ok (IVal VNull, [], [])
          end
      | TNamed tn =>
          match ov with
          | ORef k =>
              match node_ty w k with
              | Some rt' =>
                  if inhabits S rt' tn then
                    bindo (d_set n' rt' (Some k) sub p) (fun r => Ok (d_catch r))
                  else Ok (IFail p, [], [])        (* not a possible type of the interface / union *)
              | None => Ok (IVal VNull, [], [])
              end
          | ONull =>
              if dq_null_value_not_null q then
                match tdef_of S tn with
                | Some (DScalar _) => Ok (IVal VNull, [], [])
                | Some (DObject _ _) => bindo (d_set n' tn None sub p) (fun r => Ok (d_catch r))
                | Some _ => Ok (IFail p, [], [])
                | None => Err 7
                end
              else Ok (IVal VNull, [], [])
          | OEnum v =>
              match tdef_of S tn with
              | Some (DEnum vs) => Ok (if mem v vs then IVal (VEnum v) else IFail p, [], [])
              | Some (DScalar _) => Ok (if dq_scalar_unchecked q then IVal (VEnum v) else IFail p, [], [])
              | _ => Ok (IFail p, [], [])
              end
          | _ =>
              match tdef_of S tn with
              | Some (DScalar k) =>
                  Ok (if dq_scalar_unchecked q || leaf_kind_ok k ov then IVal (leaf_value false ov) else IFail p, [], [])
              | _ => Ok (IFail p, [], [])
              end
          end
      end
    end
  with d_items (n : nat) (t : ty) (l : list outv) (i : N) (sub : list selection) (p : path) {struct n}
       : outcome ((list value + path) * list path * list (N * name)) :=
    match l with
    | [] => Ok (inl [], [], [])
    | ov :: r =>
      match n with
      | O => OutOfFuel
      | Datatypes.S n' =>
        bindo (d_comp n' t ov sub (p ++ [PI i])) (fun a =>
          let '(ra, ea, ta) := a in
          match ra with
          | IFail ep => Ok (inr ep, ea, ta)
          | IVal v =>
              bindo (d_items n' t r (i + 1) sub p) (fun b =>
                let '(rb, eb, tb) := b in
                Ok (match rb with inl l => inl (v :: l) | inr ep => inr ep end, ea ++ eb, ta ++ tb))
          end)
      end
    end.
End Dyn.

(* execute_once: query root with serial = false, mutation root with serial =
   true (the same order on ready futures); an error nulls the data *)
Definition dyn_exec (q : dquirks) (nullv : bool) (S : schema) (w : world) (d : document) (opname : option name)
           (vars : list (name * value)) (n : nat) : outcome response :=
  match select_op d opname with
  | None => Err 1
  | Some o =>
      match root_name S o with
      | None => Err 2
      | Some rt =>
          bindo (d_set q S w (doc_frags d) vars (op_vars o) nullv n rt (Some (root_nid o)) (op_sels o) []) (fun r =>
            let '(v, es, tr) := r in
            Ok (match v with
                | IVal x => {| rs_data := x; rs_errors := es; rs_trace := tr |}
                | IFail ep => {| rs_data := VNull; rs_errors := ep :: es; rs_trace := tr |}
                end))
      end
  end.

(* Exec.v — executor models for the static (derive-built) schema family.
   spec_*: the GraphQL (October 2021) §6 algorithm: CollectFields with
   DoesFragmentTypeApply and @skip/@include on coerced variables, grouped field
   sets executed once, CompleteValue with null propagation.
   impl_*: what async-graphql does: prepare_request's pruning
   (remove_skipped_selection), Fields::add_set (one future per field
   OCCURRENCE, its own type-condition test), resolve_container(+_serial) with
   try_join_all on ready futures (= left to right, stop at the first error),
   Option<T>::resolve catching errors, resolve_list overwriting the error
   path, create_value_object/insert_value merging, f64 to_value. *)
From AG Require Export Base Doc.
Open Scope N_scope.

Inductive ty := TNamed (n : name) | TList (t : ty) | TNonNull (t : ty).

Inductive tdef :=
| DObject (fields : list (name * ty)) (implements : list name)
| DInterface (fields : list (name * ty)) (possible : list name)
| DUnion (possible : list name)
| DScalar (k : N)            (* 0 Int, 1 Float, 2 String, 3 Boolean, 4 ID *)
| DEnum (values : list name).

Record schema := {
  s_types : list (name * tdef);
  s_query : name;
  s_mutation : option name;
  s_tname : list (name * str) }.       (* characters of each type name (for __typename) *)

(* what a resolver returns, as data *)
Inductive outv :=
| OErr | ONull | OInt (z : Z) | OFloat (bits : N) | OStr (s : str) | OBool (b : bool)
| OEnum (n : name) | ORef (nid : N) | OList (l : list outv).

Record node := { n_ty : name; n_fields : list (name * outv) }.
Record world := {
  w_nodes : list (N * node);
  w_defaults : list (name * outv);     (* outcome of fields a node does not mention *)
  w_idname : name }.                   (* "id": defaults to the node id *)

Definition node_ty (w : world) (nid : N) : option name :=
  match assoc nid (w_nodes w) with Some nd => Some (n_ty nd) | None => None end.

Definition out (w : world) (nid : N) (f : name) : outv :=
  match assoc nid (w_nodes w) with
  | Some nd =>
      match assoc f (n_fields nd) with
      | Some o => o
      | None => if name_eqb f (w_idname w) then OInt (Z.of_N nid)
                else match assoc f (w_defaults w) with Some o => o | None => ONull end
      end
  | None => ONull
  end.

Inductive pseg := PF (n : name) | PI (i : N).
Definition path := list pseg.

Definition pseg_eqb (a b : pseg) : bool :=
  match a, b with
  | PF x, PF y => name_eqb x y
  | PI x, PI y => N.eqb x y
  | _, _ => false
  end.
Definition path_eqb (a b : path) : bool := list_eqb pseg_eqb a b.

(* ------------------------------------------------------------ shared --- *)
Section Common.
  Variable S : schema.
  Variable w : world.

  Definition tdef_of (n : name) : option tdef := assoc n (s_types S).

  Definition obj_field_ty (rt f : name) : option ty :=
    match tdef_of rt with
    | Some (DObject fs _) => assoc f fs
    | _ => None
    end.

  Definition type_str (rt : name) : str :=
    match assoc rt (s_tname S) with Some s => s | None => [] end.

  Definition is_nonnull (t : ty) : bool := match t with TNonNull _ => true | _ => false end.

  (* IEEE-754 binary64: exponent all ones = inf / NaN *)
  Definition float_finite (bits : N) : bool :=
    negb (N.land (N.shiftr bits 52) 2047 =? 2047).

  (* does a runtime node of type [nt] inhabit the named output type [tn] *)
  Definition inhabits (nt tn : name) : bool :=
    match tdef_of tn with
    | Some (DObject _ _) => name_eqb nt tn
    | Some (DInterface _ p) => mem nt p
    | Some (DUnion p) => mem nt p
    | _ => false
    end.

  (* the Rust conversion of the world outcome into the resolver's return type
     succeeds (FromOut in harness/src/family.rs) *)
  Definition strip_nn (t : ty) : ty := match t with TNonNull t' => t' | _ => t end.
  Definition scalar_kind (t : ty) : option N :=
    match t with TNamed n => match tdef_of n with Some (DScalar k) => Some k | _ => None end | _ => None end.

  Fixpoint conforms (t : ty) (o : outv) {struct o} : bool :=
    let t0 := strip_nn t in
    match o with
    | OErr => false
    | ONull => negb (is_nonnull t)
    | OInt _ => match scalar_kind t0 with Some 0 => true | _ => false end
    | OFloat _ => match scalar_kind t0 with Some 1 => true | _ => false end
    | OStr _ => match scalar_kind t0 with Some 2 => true | _ => false end
    | OBool _ => match scalar_kind t0 with Some 3 => true | _ => false end
    | OEnum v => match t0 with TNamed n => match tdef_of n with Some (DEnum vs) => mem v vs | _ => false end | _ => false end
    | ORef k => match t0 with
                | TNamed n => match node_ty w k with Some nt => inhabits nt n | None => false end
                | _ => false
                end
    | OList l => match t0 with
                 | TList t' => (fix all (l : list outv) : bool :=
                                  match l with [] => true | x :: r => conforms t' x && all r end) l
                 | _ => false
                 end
    end.

  Definition resolver_fails (t : ty) (o : outv) : bool :=
    match o with OErr => true | _ => negb (conforms t o) end.

  (* serialisation of a leaf outcome *)
  Definition leaf_value (nan_null : bool) (o : outv) : value :=
    match o with
    | OInt z => VInt z
    | OFloat b => if nan_null && negb (float_finite b) then VNull else VFloat b
    | OStr s => VStr s
    | OBool b => VBool b
    | OEnum n => VEnum n
    | _ => VNull
    end.

  (* occurrence of a field in a flattened selection set *)
  Record occ := { o_key : name; o_name : name; o_sels : list selection; o_iface : bool }.

  Definition key_of (al : option name) (nm : name) : name :=
    match al with Some a => a | None => nm end.
End Common.

(* @skip / @include: [cond] evaluates the `if` argument; None = the condition
   cannot be evaluated (such documents are rejected by validation: both
   executors below answer Err 8 and are not compared there) *)
Definition sel_dirs (s : selection) : list directive :=
  match s with SField _ _ _ d _ => d | SSpread _ d => d | SInline _ d _ => d end.

Fixpoint skipped (cond : directive -> option bool) (dirs : list directive) : option bool :=
  match dirs with
  | [] => Some false
  | d :: r =>
      if name_eqb (d_name d) N_skip then
        match cond d with None => None | Some true => Some true | Some false => skipped cond r end
      else if name_eqb (d_name d) N_include then
        match cond d with None => None | Some false => Some true | Some true => skipped cond r end
      else skipped cond r
  end.

(* ---------------------------------------------------------------- spec --- *)
Inductive res := RVal (v : value) | RFail.

Section Spec.
  Variable S : schema.
  Variable w : world.
  Variable frags : list (name * fragment).
  Variable vars : list (name * value).          (* request variables *)
  Variable vdefs : list vardef.                 (* of the operation *)

  (* CoerceVariableValues restricted to Boolean use: value, else default *)
  Definition var_bool (v : name) : option bool :=
    match assoc v vars with
    | Some (VBool b) => Some b
    | Some _ => None
    | None => match assoc v (map (fun d => (vd_name d, vd_default d)) vdefs) with
              | Some (Some (VBool b)) => Some b
              | _ => None
              end
    end.

  Definition dir_if (d : directive) : option bool :=
    match assoc N_if (d_args d) with
    | Some (VBool b) => Some b
    | Some (VVar v) => var_bool v
    | _ => None
    end.

  Definition spec_skipped (dirs : list directive) : option bool := skipped dir_if dirs.

  (* DoesFragmentTypeApply *)
  Definition applies_spec (cond rt : name) : bool :=
    name_eqb cond rt ||
    match tdef_of S cond with
    | Some (DInterface _ p) => mem rt p
    | Some (DUnion p) => mem rt p
    | _ => false
    end.

  (* CollectFields, flattened in document order *)
  Fixpoint s_collect (n : nat) (rt : name) (sels : list selection) {struct n} : outcome (list occ) :=
    match sels with
    | [] => Ok []
    | s :: r =>
      match n with
      | O => OutOfFuel
      | Datatypes.S n' =>
        bindo (match spec_skipped (sel_dirs s) with
               | None => Err 8
               | Some true => Ok []
               | Some false =>
                 match s with
                 | SField al nm _ _ sub =>
                     Ok [{| o_key := key_of al nm; o_name := nm; o_sels := sub; o_iface := false |}]
                 | SSpread nm _ =>
                     match assoc nm frags with
                     | Some fr => if applies_spec (fr_cond fr) rt then s_collect n' rt (fr_sels fr) else Ok []
                     | None => Ok []
                     end
                 | SInline c _ sub =>
                     if match c with Some c => applies_spec c rt | None => true end
                     then s_collect n' rt sub else Ok []
                 end
               end) (fun a => bindo (s_collect n' rt r) (fun b => Ok (a ++ b)))
      end
    end.

  (* group by response key, first occurrence fixes position and field name;
     the sub-selections of later occurrences are appended (MergeSelectionSets) *)
  Fixpoint add_group (g : list (name * (name * list selection))) (o : occ)
    : list (name * (name * list selection)) :=
    match g with
    | [] => [(o_key o, (o_name o, o_sels o))]
    | (k, (nm, sels)) :: r =>
        if name_eqb k (o_key o) then (k, (nm, sels ++ o_sels o)) :: r
        else (k, (nm, sels)) :: add_group r o
    end.
  Definition group (occs : list occ) := fold_left add_group occs [].

  (* returns the completed value (or failure to be handled by the parent),
     the errors raised (their paths) and the resolver invocations (node, field) *)
  Definition sres := (res * list path * list (N * name))%type.

  Fixpoint s_set (n : nat) (rt : name) (nid : N) (sels : list selection) (p : path) {struct n}
    : outcome sres :=
    match n with
    | O => OutOfFuel
    | Datatypes.S n' =>
      bindo (s_collect n' rt sels) (fun occs =>
      bindo (s_groups n' rt nid (group occs) p) (fun r =>
        let '(kv, es, tr) := r in
        Ok (match kv with Some l => RVal (VObj l) | None => RFail end, es, tr)))
    end
  with s_groups (n : nat) (rt : name) (nid : N) (gs : list (name * (name * list selection))) (p : path)
       {struct n} : outcome (option (list (name * value)) * list path * list (N * name)) :=
    match gs with
    | [] => Ok (Some [], [], [])
    | (k, (nm, sub)) :: r =>
      match n with
      | O => OutOfFuel
      | Datatypes.S n' =>
        bindo (s_field n' rt nid k nm sub p) (fun a =>
        bindo (s_groups n' rt nid r p) (fun b =>
          let '(ra, ea, ta) := a in
          let '(rb, eb, tb) := b in
          Ok (match ra, rb with
              | RVal v, Some l => Some ((k, v) :: l)
              | _, _ => None
              end, ea ++ eb, ta ++ tb)))
      end
    end
  with s_field (n : nat) (rt : name) (nid : N) (k nm : name) (sub : list selection) (p : path)
       {struct n} : outcome sres :=
    match n with
    | O => OutOfFuel
    | Datatypes.S n' =>
      if name_eqb nm N_typename then Ok (RVal (VStr (type_str S rt)), [], [])
      else match obj_field_ty S rt nm with
           | None => Err 7        (* field not defined on the runtime type: rejected by validation *)
           | Some t =>
               let o := out w nid nm in
               let p' := p ++ [PF k] in
               if resolver_fails S w t o
               then Ok (if is_nonnull t then RFail else RVal VNull, [p'], [(nid, nm)])
               else bindo (s_complete n' t o sub p') (fun r =>
                      let '(v, es, tr) := r in Ok (v, es, (nid, nm) :: tr))
           end
    end
  with s_complete (n : nat) (t : ty) (o : outv) (sub : list selection) (p : path)
       {struct n} : outcome sres :=
    match n with
    | O => OutOfFuel
    | Datatypes.S n' =>
      match t with
      | TNonNull t' =>
          bindo (s_complete n' t' o sub p) (fun r =>
            let '(v, es, tr) := r in
            Ok (match v with RVal VNull => RFail | _ => v end, es, tr))
      | TList t' =>
          match o with
          | OList l =>
              bindo (s_items n' t' l 0 sub p) (fun r =>
                let '(vs, es, tr) := r in
                Ok (match vs with Some l => RVal (VList l) | None => RVal VNull end, es, tr))
          | _ => Ok (RVal VNull, [], [])
          end
      | TNamed tn =>
          match o with
          | ORef k =>
              match node_ty w k with
              | Some rt' =>
                  bindo (s_set n' rt' k sub p) (fun r =>
                    let '(v, es, tr) := r in
                    Ok (match v with RFail => RVal VNull | _ => v end, es, tr))
              | None => Ok (RVal VNull, [], [])
              end
          | ONull => Ok (RVal VNull, [], [])
          | _ => Ok (RVal (leaf_value false o), [], [])
          end
      end
    end
  with s_items (n : nat) (t : ty) (l : list outv) (i : N) (sub : list selection) (p : path)
       {struct n} : outcome (option (list value) * list path * list (N * name)) :=
    match l with
    | [] => Ok (Some [], [], [])
    | o :: r =>
      match n with
      | O => OutOfFuel
      | Datatypes.S n' =>
        bindo (s_complete n' t o sub (p ++ [PI i])) (fun a =>
        bindo (s_items n' t r (i + 1) sub p) (fun b =>
          let '(ra, ea, ta) := a in
          let '(rb, eb, tb) := b in
          Ok (match ra, rb with
              | RVal v, Some l => Some (v :: l)
              | _, _ => None
              end, ea ++ eb, ta ++ tb)))
      end
    end.
End Spec.

(* ---------------------------------------------------------------- impl --- *)
(* deviations of today's code from the specification, one flag each; with a
   flag off the model does what the corrected code would do *)
Record quirks := {
  q_skip_no_default : bool;     (* @skip/@include ignore variable defaults *)
  q_union_cond : bool;          (* union condition applies only when the static type is that union *)
  q_nan_null : bool;            (* non-finite floats serialise as null, no error *)
  q_field_err_parent : bool;    (* a resolver error at a nullable field fails the parent container *)
  q_list_path : bool;           (* resolve_list overwrites the path of an item's error *)
  q_iface_no_path : bool;       (* interface-dispatched resolver errors carry no path *)
  q_per_occurrence : bool }.    (* repeated response keys are resolved once per occurrence *)

Definition quirks_today : quirks :=
  {| q_skip_no_default := true; q_union_cond := true; q_nan_null := true; q_field_err_parent := true;
     q_list_path := true; q_iface_no_path := true; q_per_occurrence := true |}.

Inductive ires := IVal (v : value) | IFail (p : path).   (* IFail: error in flight, with its path *)

Section Impl.
  Variable q : quirks.
  Variable S : schema.
  Variable w : world.
  Variable frags : list (name * fragment).
  Variable vars : list (name * value).
  Variable vdefs : list vardef.

  (* remove_skipped_selection::is_skipped — request variables only; a value
     that is not a boolean, or an unbound variable, reads as false
     (unwrap_or_default) *)
  Definition i_cond (d : directive) : option bool :=
    if q_skip_no_default q then
      Some (match assoc N_if (d_args d) with
            | Some (VBool b) => b
            | Some (VVar v) => match assoc v vars with Some (VBool b) => b | _ => false end
            | _ => false
            end)
    else dir_if vars vdefs d.
  Definition i_skipped (dirs : list directive) : option bool := skipped i_cond dirs.

  Definition implements_of (rt : name) : list name :=
    match tdef_of S rt with Some (DObject _ imp) => imp | _ => [] end.

  (* Fields::add_set: applies_concrete_object || cond = T::type_name() *)
  Definition applies_concrete (cond rt : name) : bool :=
    name_eqb cond rt || mem cond (implements_of rt) ||
    (if q_union_cond q then false
     else match tdef_of S cond with Some (DUnion p) => mem rt p | _ => false end).

  Definition is_iface (n : name) : bool :=
    match tdef_of S n with Some (DInterface _ _) => true | _ => false end.

  (* flatten to field occurrences; [st] = T::type_name() of the container
     being collected (the object itself, or the interface/union enum) *)
  Fixpoint i_collect (n : nat) (st rt : name) (sels : list selection) {struct n} : outcome (list occ) :=
    match sels with
    | [] => Ok []
    | s :: r =>
      match n with
      | O => OutOfFuel
      | Datatypes.S n' =>
        bindo (match i_skipped (sel_dirs s) with
               | None => Err 8
               | Some true => Ok []
               | Some false =>
                 match s with
               | SField al nm _ _ sub =>
                   Ok [{| o_key := key_of al nm; o_name := nm; o_sels := sub;
                          o_iface := negb (name_eqb st rt) && is_iface st |}]
               | SSpread nm _ =>
                   match assoc nm frags with
                   | Some fr =>
                       if applies_concrete (fr_cond fr) rt then i_collect n' rt rt (fr_sels fr)
                       else if name_eqb (fr_cond fr) st then i_collect n' st rt (fr_sels fr)
                       else Ok []
                   | None => Ok []
                   end
               | SInline (Some c) _ sub =>
                   if applies_concrete c rt then i_collect n' rt rt sub
                   else if name_eqb c st then i_collect n' st rt sub
                   else Ok []
               | SInline None _ sub => i_collect n' st rt sub
                 end
               end) (fun a => bindo (i_collect n' st rt r) (fun b => Ok (a ++ b)))
      end
    end.

  (* create_value_object / insert_value *)
  Fixpoint insert_value (fuel : nat) (target : list (name * value)) (k : name) (v : value)
    {struct fuel} : list (name * value) :=
    match fuel with
    | O => target
    | Datatypes.S f' =>
      match target with
      | [] => [(k, v)]
      | (k', pv) :: r =>
          if name_eqb k' k then
            (k', match pv, v with
                 | VObj tm, VObj om => VObj (fold_left (fun t kv => insert_value f' t (fst kv) (snd kv)) om tm)
                 | VList tl, VList nl =>
                     VList ((fix zip (tl nl : list value) : list value :=
                               match tl, nl with
                               | t :: tr, x :: xr =>
                                   match t, x with
                                   | VObj tm, VObj om =>
                                       VObj (fold_left (fun t kv => insert_value f' t (fst kv) (snd kv)) om tm)
                                   | _, _ => t
                                   end :: zip tr xr
                               | tl, _ => tl
                               end) tl nl)
                 | _, _ => pv
                 end) :: r
          else (k', pv) :: insert_value f' r k v
      end
    end.
  Definition create_value_object (fuel : nat) (kvs : list (name * value)) : value :=
    VObj (fold_left (fun t kv => insert_value fuel t (fst kv) (snd kv)) kvs []).

  (* keep only the first occurrence of each key (what a once-per-key executor collects) *)
  Definition dedup_occs (occs : list occ) : list occ :=
    map (fun g => {| o_key := fst g; o_name := fst (snd g); o_sels := snd (snd g); o_iface := false |})
        (group occs).

  Definition isres := (ires * list path * list (N * name))%type.

  Definition catch_res (catch : bool) (v : ires) (es : list path) (tr : list (N * name)) : isres :=
    match v with
    | IFail ep => if catch then (IVal VNull, es ++ [ep], tr) else (IFail ep, es, tr)
    | IVal x => (IVal x, es, tr)
    end.

  Fixpoint i_set (n : nat) (st rt : name) (nid : N) (sels : list selection) (p : path) {struct n}
    : outcome isres :=
    match n with
    | O => OutOfFuel
    | Datatypes.S n' =>
      bindo (i_collect n' st rt sels) (fun occs0 =>
      let occs := if q_per_occurrence q then occs0
                  else map (fun o => {| o_key := o_key o; o_name := o_name o; o_sels := o_sels o;
                                        o_iface := existsb (fun o' => name_eqb (o_key o') (o_key o) && o_iface o') occs0 |})
                           (dedup_occs occs0) in
      bindo (i_occs n' rt nid occs p) (fun r =>
        let '(kv, es, tr) := r in
        Ok (match kv with
            | inl l => IVal (create_value_object n' l)
            | inr ep => IFail ep
            end, es, tr)))
    end
  with i_occs (n : nat) (rt : name) (nid : N) (occs : list occ) (p : path) {struct n}
       : outcome ((list (name * value) + path) * list path * list (N * name)) :=
    match occs with
    | [] => Ok (inl [], [], [])
    | o :: r =>
      match n with
      | O => OutOfFuel
      | Datatypes.S n' =>
        bindo (i_field n' rt nid o p) (fun a =>
          let '(ra, ea, ta) := a in
          match ra with
          | IFail ep => Ok (inr ep, ea, ta)            (* try_join_all: the rest is dropped *)
          | IVal v =>
              bindo (i_occs n' rt nid r p) (fun b =>
                let '(rb, eb, tb) := b in
                Ok (match rb with
                    | inl l => inl ((o_key o, v) :: l)
                    | inr ep => inr ep
                    end, ea ++ eb, ta ++ tb))
          end)
      end
    end
  with i_field (n : nat) (rt : name) (nid : N) (o : occ) (p : path) {struct n} : outcome isres :=
    match n with
    | O => OutOfFuel
    | Datatypes.S n' =>
      if name_eqb (o_name o) N_typename then Ok (IVal (VStr (type_str S rt)), [], [])
      else match obj_field_ty S rt (o_name o) with
           | None => Err 7           (* rejected by validation (the code would answer null) *)
           | Some t =>
               let ov := out w nid (o_name o) in
               let p' := p ++ [PF (o_key o)] in
               if resolver_fails S w t ov then
                 let ep := if o_iface o && q_iface_no_path q then [] else p' in
                 if q_field_err_parent q || is_nonnull t
                 then Ok (IFail ep, [], [(nid, o_name o)])
                 else Ok (IVal VNull, [ep], [(nid, o_name o)])
               else bindo (i_comp n' true t ov (o_sels o) p') (fun r =>
                      let '(v, es, tr) := r in Ok (v, es, (nid, o_name o) :: tr))
           end
    end
  with i_comp (n : nat) (catch : bool) (t : ty) (ov : outv) (sub : list selection) (p : path) {struct n}
       : outcome isres :=
    (* OutputType::resolve of the Rust type: Option<_> ([catch]) stores an
       inner error with ctx.add_error and yields null; other types propagate *)
    match n with
    | O => OutOfFuel
    | Datatypes.S n' =>
      match t with
      | TNonNull t' => i_comp n' false t' ov sub p
      | TList t' =>
          match ov with
          | OList l =>
              bindo (i_items n' t' l 0 sub p) (fun r =>
                let '(vs, es, tr) := r in
                Ok (catch_res catch (match vs with inl l => IVal (VList l) | inr ep => IFail ep end) es tr))
          | _ => Ok (IVal VNull, [], [])
          end
      | TNamed tn =>
          match ov with
          | ORef k =>
              match node_ty w k with
              | Some rt' =>
                  let st := match tdef_of S tn with Some (DObject _ _) => rt' | _ => tn end in
                  bindo (i_set n' st rt' k sub p) (fun r =>
                    let '(v, es, tr) := r in Ok (catch_res catch v es tr))
              | None => Ok (IVal VNull, [], [])
              end
          | ONull => Ok (IVal VNull, [], [])
          | _ => Ok (IVal (leaf_value (q_nan_null q) ov), [], [])
          end
      end
    end
  with i_items (n : nat) (t : ty) (l : list outv) (i : N) (sub : list selection) (p : path) {struct n}
       : outcome ((list value + path) * list path * list (N * name)) :=
    match l with
    | [] => Ok (inl [], [], [])
    | ov :: r =>
      match n with
      | O => OutOfFuel
      | Datatypes.S n' =>
        bindo (i_comp n' true t ov sub (p ++ [PI i])) (fun a =>
          let '(ra, ea, ta) := a in
          match ra with
          | IFail ep => Ok (inr (if q_list_path q then p ++ [PI i] else ep), ea, ta)
          | IVal v =>
              bindo (i_items n' t r (i + 1) sub p) (fun b =>
                let '(rb, eb, tb) := b in
                Ok (match rb with inl l => inl (v :: l) | inr ep => inr ep end, ea ++ eb, ta ++ tb))
          end)
      end
    end.
End Impl.

(* ------------------------------------------------------------- request --- *)
Record response := {
  rs_data : value;                  (* VNull when the whole data is null *)
  rs_errors : list path;
  rs_trace : list (N * name) }.     (* resolver invocations, in order *)

Definition select_op (d : document) (opname : option name) : option operation :=
  match opname with
  | Some n => (fix find (l : list operation) := match l with
                                                | [] => None
                                                | o :: r => if option_eqb name_eqb (op_name o) (Some n) then Some o else find r
                                                end) (doc_ops d)
  | None => match doc_ops d with [o] => Some o | _ => None end
  end.

Definition root_name (S : schema) (o : operation) : option name :=
  match op_ty o with
  | OpQuery => Some (s_query S)
  | OpMutation => s_mutation S
  | OpSubscription => None
  end.

Definition root_nid (o : operation) : N := match op_ty o with OpMutation => 1 | _ => 0 end.

Definition spec_exec (S : schema) (w : world) (d : document) (opname : option name)
           (vars : list (name * value)) (n : nat) : outcome response :=
  match select_op d opname with
  | None => Err 1
  | Some o =>
      match root_name S o with
      | None => Err 2
      | Some rt =>
          bindo (s_set S w (doc_frags d) vars (op_vars o) n rt (root_nid o) (op_sels o) []) (fun r =>
            let '(v, es, tr) := r in
            Ok {| rs_data := match v with RVal x => x | RFail => VNull end; rs_errors := es; rs_trace := tr |})
      end
  end.

Definition impl_exec (q : quirks) (S : schema) (w : world) (d : document) (opname : option name)
           (vars : list (name * value)) (n : nat) : outcome response :=
  match select_op d opname with
  | None => Err 1
  | Some o =>
      match root_name S o with
      | None => Err 2
      | Some rt =>
          bindo (i_set q S w (doc_frags d) vars (op_vars o) n rt rt (root_nid o) (op_sels o) []) (fun r =>
            let '(v, es, tr) := r in
            Ok (match v with
                | IVal x => {| rs_data := x; rs_errors := es; rs_trace := tr |}
                | IFail ep => {| rs_data := VNull; rs_errors := ep :: es; rs_trace := tr |}
                end))
      end
  end.

(* SerdeRT.v — C16: serde values convert to GraphQL values and back.

   Model of value/src/serializer.rs (the `Serializer` behind `to_value`) and of
   value/src/deserializer.rs (`impl Deserializer for ConstValue`, the enum /
   variant / seq / map accessors) driven by the visitors that serde and
   serde-derive generate for a type (the documented data-model protocol:
   which `deserialize_*` a type asks for and which `visit_*` its visitor
   accepts).  Executable definitions only; proofs are in SerdeRTProofs.v. *)
From AG Require Export Base.
Open Scope Z_scope.

(* ------------------------------------------------------------ strings ---- *)
(* A string is its list of Unicode scalar values (Base.str). *)
Definition str_eqb (a b : str) : bool := list_eqb N.eqb a b.

(* Rust's `Ord for String` (bytewise on UTF-8 = lexicographic on scalar values):
   the order of BTreeMap<String, _>. *)
Fixpoint str_ltb (a b : str) : bool :=
  match a, b with
  | [], [] => false
  | [], _ :: _ => true
  | _ :: _, [] => false
  | x :: a', y :: b' => if N.ltb x y then true else if N.eqb x y then str_ltb a' b' else false
  end.

Fixpoint sassoc {A} (k : str) (l : list (str * A)) : option A :=
  match l with
  | [] => None
  | (k', v) :: l' => if str_eqb k k' then Some v else sassoc k l'
  end.

Fixpoint smem (k : str) (l : list str) : bool :=
  match l with
  | [] => false
  | k' :: l' => if str_eqb k k' then true else smem k l'
  end.

Fixpoint snodup (l : list str) : bool :=
  match l with
  | [] => true
  | k :: l' => negb (smem k l') && snodup l'
  end.

(* IndexMap::insert: an existing key keeps its position and gets the new
   value, a new key is appended. *)
Fixpoint obj_insert {A} (k : str) (v : A) (o : list (str * A)) : list (str * A) :=
  match o with
  | [] => [(k, v)]
  | (k', v') :: o' => if str_eqb k k' then (k, v) :: o' else (k', v') :: obj_insert k v o'
  end.

(* BTreeMap::insert on the sorted association list. *)
Fixpoint bt_insert {A} (k : str) (v : A) (m : list (str * A)) : list (str * A) :=
  match m with
  | [] => [(k, v)]
  | (k', v') :: m' =>
      if str_eqb k k' then (k, v) :: m'
      else if str_ltb k k' then (k, v) :: m
      else (k', v') :: bt_insert k v m'
  end.

(* strictly increasing keys = the iteration order of a BTreeMap *)
Fixpoint keys_sorted (l : list str) : bool :=
  match l with
  | [] => true
  | k :: l' => match l' with
               | [] => true
               | k' :: _ => str_ltb k k' && keys_sorted l'
               end
  end.

(* --------------------------------------------------- GraphQL values ------ *)
(* async_graphql_value::ConstValue.  Number = serde_json::Number: an integer in
   [-2^63, 2^64) or a finite binary64 (bit pattern). *)
Inductive gval :=
| GNull
| GInt (z : Z)
| GFloat (bits : N)
| GStr (s : str)
| GBool (b : bool)
| GBin (l : list N)
| GEnum (s : str)
| GList (l : list gval)
| GObj (l : list (str * gval)).

(* ----------------------------------------------- serde types and values -- *)
Inductive ity := I8 | I16 | I32 | I64 | I128 | U8 | U16 | U32 | U64 | U128.

Inductive vkind := KUnit | KNewtype | KTuple | KStruct.

(* Type descriptors.  [TTuple] stands for tuples `(A, B, ..)` and for tuple
   structs `struct S(A, B, ..)` / `struct S()` (the serializer and the
   deserializer treat them identically); a one-field tuple struct is a
   newtype struct.  A variant is (name, kind, payload type): payload [TUnit]
   for unit variants, the field type for newtype variants, a [TTuple] for
   tuple variants, a [TStruct] for struct variants.  [TMap] is
   BTreeMap<String, T>.  Enums use serde's default (externally tagged) form. *)
Inductive sty :=
| TBool
| TInt (w : ity)
| TF32
| TF64
| TChar
| TStr
| TBytes
| TUnit
| TUnitStruct
| TOption (t : sty)
| TSeq (t : sty)
| TMap (t : sty)
| TNewtype (t : sty)
| TTuple (ts : list sty)
| TStruct (fs : list (str * sty))
| TEnum (vs : list (str * (vkind * sty))).

(* Typed values.  Floats are carried as the binary64 bit pattern of their
   value (an f32 as the pattern of its exact binary64 image). *)
Inductive sval :=
| SBool (b : bool)
| SInt (w : ity) (z : Z)
| SF32 (bits : N)
| SF64 (bits : N)
| SChar (c : N)
| SStr (s : str)
| SBytes (l : list N)
| SUnit
| SNone
| SSome (v : sval)
| SSeq (l : list sval)
| SMap (l : list (str * sval))
| SNewtype (v : sval)
| STuple (l : list sval)
| SStruct (l : list (str * sval))
| SVariant (n : str) (k : vkind) (p : sval).

(* ------------------------------------------------------------ numbers ---- *)
Definition int_min (w : ity) : Z :=
  match w with
  | I8 => -128 | I16 => -32768 | I32 => -2147483648 | I64 => -9223372036854775808
  | I128 => -170141183460469231731687303715884105728
  | _ => 0
  end.

Definition int_max (w : ity) : Z :=
  match w with
  | I8 => 127 | I16 => 32767 | I32 => 2147483647 | I64 => 9223372036854775807
  | I128 => 170141183460469231731687303715884105727
  | U8 => 255 | U16 => 65535 | U32 => 4294967295 | U64 => 18446744073709551615
  | U128 => 340282366920938463463374607431768211455
  end.

Definition in_range (w : ity) (z : Z) : bool := (int_min w <=? z) && (z <=? int_max w).

Definition is128 (w : ity) : bool := match w with I128 | U128 => true | _ => false end.

(* what a serde_json::Number can hold as an integer *)
Definition number_int (z : Z) : bool := (-9223372036854775808 <=? z) && (z <=? 18446744073709551615).

Open Scope N_scope.

Definition f64_exp (b : N) : N := N.land (N.shiftr b 52) 2047.
Definition f64_finite (b : N) : bool := negb (f64_exp b =? 2047).
Definition is_f64_bits (b : N) : bool := b <? 18446744073709551616.

(* round-to-nearest-even of m / 2^drop *)
Definition rne_shift (m drop : N) : N :=
  if drop =? 0 then m else
  let q := N.shiftr m drop in
  let r := N.land m (N.ones drop) in
  let half := N.shiftl 1 (drop - 1) in
  if (half <? r) || ((r =? half) && N.odd q) then q + 1 else q.

(* binary64 pattern of q * 2^sh for 0 < q < 2^53, the result being a normal
   binary64 number ([biased] = exponent field if q were 1 at scale 2^sh). *)
Definition enc_norm (sign q : N) (exp_of_unit : Z) : N :=
  let bq := N.log2 q in
  let e := (exp_of_unit + Z.of_N bq)%Z in                      (* unbiased exponent *)
  let mant := (if bq <=? 52 then N.shiftl q (52 - bq) else N.shiftr q (bq - 52)) - 4503599627370496 in
  N.shiftl sign 63 + N.shiftl (Z.to_N (e + 1023)%Z) 52 + mant.

Definition f64_inf (sign : N) : N := N.shiftl sign 63 + 9218868437227405312.

(* `u as f64` / `i as f64` and `as f32` (shown as the binary64 image):
   one rounding to [prec] significant bits, ties to even. *)
Definition int_to_float (prec : N) (z : Z) : N :=
  match z with
  | Z0 => 0
  | _ =>
    let sign := if (z <? 0)%Z then 1 else 0 in
    let m := Z.abs_N z in
    let bl := N.log2 m + 1 in
    let drop := bl - prec in
    let q := rne_shift m drop in
    (* q < 2^prec or q = 2^prec; both have at most 53 significant bits *)
    enc_norm sign q (Z.of_N drop)
  end.

(* `x as f32` for a finite binary64 x, shown as the binary64 image of the
   result (binary32: 24 significant bits, minimum exponent -126 with gradual
   underflow to 2^-149, overflow to infinity). *)
Definition narrow_f32 (b : N) : N :=
  let sign := N.shiftr b 63 in
  let e := f64_exp b in
  let m := N.land b 4503599627370495 in
  if e =? 2047 then b
  else if e =? 0 then N.shiftl sign 63
  else
    let M := 4503599627370496 + m in
    let ex := (Z.of_N e - 1023)%Z in
    let drop := if (-126 <=? ex)%Z then 29 else 29 + Z.to_N (-126 - ex)%Z in
    let q := rne_shift M drop in
    if q =? 0 then N.shiftl sign 63
    else
      let r := enc_norm sign q (ex - 52 + Z.of_N drop)%Z in
      if 1151 <=? f64_exp r (* unbiased exponent > 127 *) then f64_inf sign else r.

(* UTF-8 decoding (String::from_utf8): None = invalid. *)
Definition cont (b : N) : bool := (128 <=? b) && (b <=? 191).
Fixpoint utf8_decode (fuel : nat) (l : list N) : option (list N) :=
  match fuel with
  | O => None
  | S fuel' =>
    match l with
    | [] => Some []
    | b0 :: l1 =>
      if b0 <? 128 then option_map (cons b0) (utf8_decode fuel' l1)
      else if (194 <=? b0) && (b0 <=? 223) then
        match l1 with
        | b1 :: l2 => if cont b1 then option_map (cons ((b0 - 192) * 64 + (b1 - 128))) (utf8_decode fuel' l2) else None
        | _ => None
        end
      else if (224 <=? b0) && (b0 <=? 239) then
        match l1 with
        | b1 :: b2 :: l3 =>
            let lo := if b0 =? 224 then 160 else 128 in
            let hi := if b0 =? 237 then 159 else 191 in
            if (lo <=? b1) && (b1 <=? hi) && cont b2
            then option_map (cons ((b0 - 224) * 4096 + (b1 - 128) * 64 + (b2 - 128))) (utf8_decode fuel' l3)
            else None
        | _ => None
        end
      else if (240 <=? b0) && (b0 <=? 244) then
        match l1 with
        | b1 :: b2 :: b3 :: l4 =>
            let lo := if b0 =? 240 then 144 else 128 in
            let hi := if b0 =? 244 then 143 else 191 in
            if (lo <=? b1) && (b1 <=? hi) && cont b2 && cont b3
            then option_map (cons ((b0 - 240) * 262144 + (b1 - 128) * 4096 + (b2 - 128) * 64 + (b3 - 128)))
                            (utf8_decode fuel' l4)
            else None
        | _ => None
        end
      else None
    end
  end.

Open Scope Z_scope.

(* ------------------------------------------------- outcome list helpers -- *)
Section ListOps.
  Context {A B C : Type}.
  Variable f : A -> outcome B.

  Fixpoint mapo (l : list A) : outcome (list B) :=
    match l with
    | [] => Ok []
    | x :: l' => bindo (f x) (fun y => bindo (mapo l') (fun r => Ok (y :: r)))
    end.

  (* values of association lists *)
  Fixpoint mapo_snd (l : list (str * A)) : outcome (list (str * B)) :=
    match l with
    | [] => Ok []
    | (k, x) :: l' => bindo (f x) (fun y => bindo (mapo_snd l') (fun r => Ok ((k, y) :: r)))
    end.
End ListOps.

Section Zip.
  Context {T A B : Type}.
  Variable f : T -> A -> outcome B.
  (* positional: both lists must have the same length *)
  Fixpoint map2o (ts : list T) (l : list A) : outcome (list B) :=
    match ts, l with
    | [], [] => Ok []
    | t :: ts', x :: l' => bindo (f t x) (fun y => bindo (map2o ts' l') (fun r => Ok (y :: r)))
    | _, _ => Err 2%N
    end.
End Zip.

Section All2.
  Context {T A : Type}.
  Variable f : T -> A -> bool.
  Fixpoint all2 (ts : list T) (l : list A) : bool :=
    match ts, l with
    | [], [] => true
    | t :: ts', x :: l' => f t x && all2 ts' l'
    | _, _ => false
    end.
End All2.

(* ------------------------------------------------------------- to_value -- *)
(* Error codes (messages are not compared): 1 = unsupported by the
   serializer, 2 = rejected by the deserializer. *)
Definition E_SER : N := 1%N.
Definition E_DE : N := 2%N.

Definition obj_of_list {A} (l : list (str * A)) : list (str * A) :=
  fold_left (fun o kv => obj_insert (fst kv) (snd kv) o) l [].

(* serializer.rs: impl ser::Serializer for Serializer, and the Serialize*
   accumulators.  The value's own type decides which method is called. *)
Fixpoint ser (v : sval) : outcome gval :=
  match v with
  | SBool b => Ok (GBool b)                                    (* serialize_bool *)
  | SInt w z => if is128 w then Err E_SER else Ok (GInt z)     (* serialize_i8..u64; i128/u128 default to an error *)
  | SF32 b | SF64 b => Ok (if f64_finite b then GFloat b else GNull)  (* serialize_f32 -> serialize_f64: Number::from_f64 or Null *)
  | SChar _ => Err E_SER                                       (* serialize_char *)
  | SStr s => Ok (GStr s)
  | SBytes l => Ok (GBin l)
  | SUnit => Ok GNull                                          (* serialize_unit, serialize_unit_struct *)
  | SNone => Ok GNull
  | SSome v' => ser v'
  | SSeq l => bindo (mapo ser l) (fun gl => Ok (GList gl))     (* SerializeSeq *)
  | SMap l => bindo (mapo_snd ser l) (fun o => Ok (GObj (obj_of_list o)))   (* SerializeMap, String keys *)
  | SNewtype v' => ser v'                                      (* serialize_newtype_struct *)
  | STuple l => bindo (mapo ser l) (fun gl => Ok (GList gl))   (* SerializeTuple / SerializeTupleStruct *)
  | SStruct l => bindo (mapo_snd ser l) (fun o => Ok (GObj (obj_of_list o)))  (* SerializeStruct *)
  | SVariant n KUnit _ => Ok (GStr n)                          (* serialize_unit_variant *)
  | SVariant n _ p => bindo (ser p) (fun g => Ok (GObj [(n, g)]))  (* newtype / tuple / struct variant *)
  end.

(* ----------------------------------------------------------- from_value -- *)
(* serde's missing_field: only a field of type Option<_> may be absent. *)
Definition missing (t : sty) : outcome sval :=
  match t with TOption _ => Ok SNone | _ => Err E_DE end.

Section De.
  (* quirk flag (true = today's code): SeqDeserializer::deserialize_any calls
     visit_unit for an empty list, so a field-less tuple variant is rejected *)
  Variable q_etv : bool.
  Variable de : sty -> gval -> outcome sval.

  (* derive's visit_map for named fields: unknown keys are ignored, a missing
     field goes through missing_field. *)
  Fixpoint de_fields (fs : list (str * sty)) (o : list (str * gval)) : outcome (list (str * sval)) :=
    match fs with
    | [] => Ok []
    | (n, t) :: fs' =>
        bindo (match sassoc n o with Some g => de t g | None => missing t end) (fun v =>
        bindo (de_fields fs' o) (fun r => Ok ((n, v) :: r)))
    end.

  (* derive's visit_seq for named fields (a struct given as a list) *)
  Fixpoint de_fields_seq (fs : list (str * sty)) (l : list gval) : outcome (list (str * sval)) :=
    match fs, l with
    | [], [] => Ok []
    | (n, t) :: fs', g :: l' =>
        bindo (de t g) (fun v => bindo (de_fields_seq fs' l') (fun r => Ok ((n, v) :: r)))
    | _, _ => Err E_DE
    end.

  (* EnumDeserializer + VariantDeserializer for the variant [name] with
     payload [p] (None: the enum was given as a string). *)
  Fixpoint de_variant (name : str) (p : option gval) (vs : list (str * (vkind * sty))) : outcome sval :=
    match vs with
    | [] => Err E_DE                                              (* unknown variant *)
    | (n, (k, t)) :: vs' =>
        if str_eqb name n then
          match k, p with
          | KUnit, None => Ok (SVariant n KUnit SUnit)
          | KUnit, Some g => match g with GNull => Ok (SVariant n KUnit SUnit) | _ => Err E_DE end  (* <()>::deserialize *)
          | KNewtype, Some g => bindo (de t g) (fun v => Ok (SVariant n KNewtype v))
          | KTuple, Some (GList []) =>
              if q_etv then Err E_DE                              (* SeqDeserializer: len == 0 -> visit_unit *)
              else bindo (de t (GList [])) (fun v => Ok (SVariant n KTuple v))
          | KTuple, Some (GList l) => bindo (de t (GList l)) (fun v => Ok (SVariant n KTuple v))
          | KStruct, Some (GObj o) => bindo (de t (GObj o)) (fun v => Ok (SVariant n KStruct v))
          | _, _ => Err E_DE
          end
        else de_variant name p vs'
    end.
End De.

Definition bt_of_list {A} (l : list (str * A)) : list (str * A) :=
  fold_left (fun m kv => bt_insert (fst kv) (snd kv) m) l [].

Definition de_u8 (g : gval) : outcome N :=
  match g with GInt z => if in_range U8 z then Ok (Z.to_N z) else Err E_DE | _ => Err E_DE end.

Fixpoint de (q : bool) (t : sty) (g : gval) {struct t} : outcome sval :=
  match t with
  | TBool => match g with GBool b => Ok (SBool b) | _ => Err E_DE end
  | TInt w => match g with GInt z => if in_range w z then Ok (SInt w z) else Err E_DE | _ => Err E_DE end
  | TF64 => match g with
            | GFloat b => Ok (SF64 b)
            | GInt z => Ok (SF64 (int_to_float 53 z))
            | _ => Err E_DE
            end
  | TF32 => match g with
            | GFloat b => Ok (SF32 (narrow_f32 b))
            | GInt z => Ok (SF32 (int_to_float 24 z))
            | _ => Err E_DE
            end
  | TChar => match g with
             | GStr [c] | GEnum [c] => Ok (SChar c)
             | _ => Err E_DE
             end
  | TStr => match g with
            | GStr s | GEnum s => Ok (SStr s)
            | GBin l => match utf8_decode (Datatypes.S (length l)) l with Some s => Ok (SStr s) | None => Err E_DE end
            | _ => Err E_DE
            end
  | TBytes => match g with
              | GBin l => Ok (SBytes l)
              | GList l => bindo (mapo de_u8 l) (fun r => Ok (SBytes r))
              | _ => Err E_DE
              end
  | TUnit | TUnitStruct => match g with GNull => Ok SUnit | _ => Err E_DE end
  | TOption t' => match g with                                   (* deserialize_option *)
                  | GNull => Ok SNone
                  | _ => bindo (de q t' g) (fun v => Ok (SSome v))
                  end
  | TSeq t' => match g with
               | GList l => bindo (mapo (de q t') l) (fun r => Ok (SSeq r))
               | _ => Err E_DE
               end
  | TMap t' => match g with
               | GObj o => bindo (mapo_snd (de q t') o) (fun r => Ok (SMap (bt_of_list r)))
               | _ => Err E_DE
               end
  | TNewtype t' => bindo (de q t' g) (fun v => Ok (SNewtype v))   (* deserialize_newtype_struct *)
  | TTuple ts => match g with
                 | GList l => bindo (map2o (de q) ts l) (fun r => Ok (STuple r))   (* visit_array *)
                 | _ => Err E_DE
                 end
  | TStruct fs => match g with
                  | GObj o => bindo (de_fields (de q) fs o) (fun r => Ok (SStruct r))      (* visit_object *)
                  | GList l => bindo (de_fields_seq (de q) fs l) (fun r => Ok (SStruct r)) (* visit_array *)
                  | _ => Err E_DE
                  end
  | TEnum vs => match g with                                      (* deserialize_enum *)
                | GStr s | GEnum s => de_variant q (de q) s None vs
                | GObj [(k, p)] => de_variant q (de q) k (Some p) vs
                | _ => Err E_DE
                end
  end.

(* ------------------------------------------------------------- typing ---- *)
Definition payload_shape (k : vkind) (t : sty) : bool :=
  match k, t with
  | KUnit, TUnit => true
  | KNewtype, _ => true
  | KTuple, TTuple ts => negb (Nat.eqb (length ts) 1)
  | KStruct, TStruct _ => true
  | _, _ => false
  end.

(* well-formed descriptors: distinct field names, distinct variant names,
   payload types of the right shape *)
Fixpoint wf_ty (t : sty) : bool :=
  match t with
  | TOption t' | TSeq t' | TMap t' | TNewtype t' => wf_ty t'
  | TTuple ts => forallb wf_ty ts
  | TStruct fs => snodup (map fst fs) && forallb (fun p => wf_ty (snd p)) fs
  | TEnum vs => snodup (map fst vs) &&
                forallb (fun p => payload_shape (fst (snd p)) (snd (snd p)) && wf_ty (snd (snd p))) vs
  | _ => true
  end.

Section HasType.
  Variable has_type : sty -> sval -> bool.
  Fixpoint fields_typed (fs : list (str * sty)) (l : list (str * sval)) : bool :=
    match fs, l with
    | [], [] => true
    | (n, t) :: fs', (n', v) :: l' => str_eqb n n' && has_type t v && fields_typed fs' l'
    | _, _ => false
    end.
  Fixpoint variant_typed (n : str) (k : vkind) (p : sval) (vs : list (str * (vkind * sty))) : bool :=
    match vs with
    | [] => false
    | (n', (k', t)) :: vs' =>
        if str_eqb n n' then
          match k, k' with
          | KUnit, KUnit => match p with SUnit => true | _ => false end
          | KNewtype, KNewtype | KTuple, KTuple | KStruct, KStruct => has_type t p
          | _, _ => false
          end
        else variant_typed n k p vs'
    end.
End HasType.

Fixpoint has_type (t : sty) (v : sval) {struct t} : bool :=
  match t, v with
  | TBool, SBool _ => true
  | TInt w, SInt w' z => match w, w' with
                         | I8, I8 | I16, I16 | I32, I32 | I64, I64 | I128, I128
                         | U8, U8 | U16, U16 | U32, U32 | U64, U64 | U128, U128 => in_range w z
                         | _, _ => false
                         end
  | TF32, SF32 b => is_f64_bits b && (negb (f64_finite b) || N.eqb (narrow_f32 b) b)
  | TF64, SF64 b => is_f64_bits b
  | TChar, SChar _ => true
  | TStr, SStr _ => true
  | TBytes, SBytes l => forallb (fun b => N.ltb b 256) l
  | TUnit, SUnit | TUnitStruct, SUnit => true
  | TOption _, SNone => true
  | TOption t', SSome v' => has_type t' v'
  | TSeq t', SSeq l => forallb (has_type t') l
  | TMap t', SMap l => keys_sorted (map fst l) && forallb (fun p => has_type t' (snd p)) l
  | TNewtype t', SNewtype v' => has_type t' v'
  | TTuple ts, STuple l => all2 has_type ts l
  | TStruct fs, SStruct l => fields_typed has_type fs l
  | TEnum vs, SVariant n k p => variant_typed has_type n k p vs
  | _, _ => false
  end.

(* ------------------------------------------- the known exclusion classes -- *)
Section SubExists.
  Variable p : sval -> bool.
  Fixpoint sub_exists (v : sval) : bool :=
    p v ||
    match v with
    | SSome v' | SNewtype v' | SVariant _ _ v' => sub_exists v'
    | SSeq l | STuple l => existsb sub_exists l
    | SMap l | SStruct l => existsb (fun kv => sub_exists (snd kv)) l
    | _ => false
    end.
End SubExists.

Definition ser_is_null (v : sval) : bool :=
  match ser v with Ok GNull => true | _ => false end.

(* class 1: Some(x) where x is serialised as null (Some(None), Some(()),
   Some(unit struct), Some(non-finite float), through newtype structs) *)
Definition bad_some_null (v : sval) : bool :=
  match v with SSome v' => ser_is_null v' | _ => false end.
(* class 2: a non-finite float *)
Definition bad_nonfinite (v : sval) : bool :=
  match v with SF32 b | SF64 b => negb (f64_finite b) | _ => false end.
(* class 3: a tuple variant without fields, `V()` *)
Definition bad_empty_tuple_variant (v : sval) : bool :=
  match v with SVariant _ KTuple (STuple []) => true | _ => false end.
(* class 4: 128-bit integers *)
Definition bad_int128 (v : sval) : bool :=
  match v with SInt w _ => is128 w | _ => false end.
(* outside the property's domain (not in its list of shapes): char *)
Definition has_char (v : sval) : bool :=
  sub_exists (fun v => match v with SChar _ => true | _ => false end) v.

Definition bad (q : bool) (v : sval) : bool :=
  bad_some_null v || bad_nonfinite v || (q && bad_empty_tuple_variant v) || bad_int128 v.

(* [q] = the quirk flag of class 3 (inferred from the real code by running the
   class's witness): once the code is repaired the class is empty. *)
Definition known_class (q : bool) (v : sval) : N :=
  if sub_exists bad_some_null v then 1%N
  else if sub_exists bad_nonfinite v then 2%N
  else if q && sub_exists bad_empty_tuple_variant v then 3%N
  else if sub_exists bad_int128 v then 4%N
  else 0%N.

(* the round trip of the model *)
Definition roundtrip (q : bool) (t : sty) (v : sval) : outcome sval := bindo (ser v) (de q t).

(* ---------------------------------------------------------- comparison --- *)
Fixpoint gval_eqb (a b : gval) {struct a} : bool :=
  match a, b with
  | GNull, GNull => true
  | GInt x, GInt y => Z.eqb x y
  | GFloat x, GFloat y => N.eqb x y
  | GStr x, GStr y | GEnum x, GEnum y => str_eqb x y
  | GBool x, GBool y => Bool.eqb x y
  | GBin x, GBin y => list_eqb N.eqb x y
  | GList x, GList y => all2 gval_eqb x y
  | GObj x, GObj y =>
      (fix go (x : list (str * gval)) (y : list (str * gval)) : bool :=
         match x, y with
         | [], [] => true
         | (k, a') :: x', (k', b') :: y' => str_eqb k k' && gval_eqb a' b' && go x' y'
         | _, _ => false
         end) x y
  | _, _ => false
  end.

Definition ity_eqb (a b : ity) : bool :=
  match a, b with
  | I8, I8 | I16, I16 | I32, I32 | I64, I64 | I128, I128
  | U8, U8 | U16, U16 | U32, U32 | U64, U64 | U128, U128 => true
  | _, _ => false
  end.

Definition vkind_eqb (a b : vkind) : bool :=
  match a, b with
  | KUnit, KUnit | KNewtype, KNewtype | KTuple, KTuple | KStruct, KStruct => true
  | _, _ => false
  end.

Fixpoint sval_eqb (a b : sval) {struct a} : bool :=
  let pairs := fix go (x : list (str * sval)) (y : list (str * sval)) : bool :=
         match x, y with
         | [], [] => true
         | (k, a') :: x', (k', b') :: y' => str_eqb k k' && sval_eqb a' b' && go x' y'
         | _, _ => false
         end in
  match a, b with
  | SBool x, SBool y => Bool.eqb x y
  | SInt w x, SInt w' y => ity_eqb w w' && Z.eqb x y
  | SF32 x, SF32 y | SF64 x, SF64 y | SChar x, SChar y => N.eqb x y
  | SStr x, SStr y => str_eqb x y
  | SBytes x, SBytes y => list_eqb N.eqb x y
  | SUnit, SUnit | SNone, SNone => true
  | SSome x, SSome y | SNewtype x, SNewtype y => sval_eqb x y
  | SSeq x, SSeq y | STuple x, STuple y => all2 sval_eqb x y
  | SMap x, SMap y | SStruct x, SStruct y => pairs x y
  | SVariant n k x, SVariant n' k' y => str_eqb n n' && vkind_eqb k k' && sval_eqb x y
  | _, _ => false
  end.

Definition outcome_eqb {A} (f : A -> A -> bool) (a b : outcome A) : bool :=
  match a, b with
  | Ok x, Ok y => f x y
  | Err _, Err _ => true
  | Panic, Panic => true
  | _, _ => false
  end.

(* --------------------------------------------------- per-case verdicts --- *)
(* RT: a typed value [v] of type [t]; [ig] = what the real to_value returned,
   [ir] = what the real from_value::<T> returned on that value (Err when
   to_value failed). *)
Definition check_rt (q : bool) (t : sty) (v : sval) (ig : outcome gval) (ir : outcome sval) : N :=
  let mg := ser v in
  let mr := match ig with Ok g => de q t g | _ => Err E_SER end in
  let typed := wf_ty t && has_type t v in
  let impl_eq_model := typed && outcome_eqb gval_eqb ig mg && outcome_eqb sval_eqb ir mr in
  let ok r := outcome_eqb sval_eqb r (Ok v) in
  if has_char v then (if impl_eq_model then 0%N else 3%N)      (* outside the domain: correspondence only *)
  else verdict impl_eq_model (ok (roundtrip q t v)) (ok ir) (known_class q v).

(* DE: an arbitrary GraphQL value [g] given to from_value::<T>. *)
Definition check_de (q : bool) (t : sty) (g : gval) (ir : outcome sval) : N :=
  if outcome_eqb sval_eqb ir (de q t g) then 0%N else 3%N.

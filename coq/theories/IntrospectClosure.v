(* IntrospectClosure.v — C18: the visible set computed by the depth-first
   traversal of find_visible_types is closed under "visible member names a
   visible registered type"; hence every member type shown is listed
   (no model definitions). *)
From AG Require Import Introspect IntrospectProofs.
Open Scope N_scope.

Section Closure.
  Variable R : registry.
  Variable ctx : N.

  Definition succ_inputs (l : list minput) : list name :=
    flat_map (fun iv => if veval ctx (mi_vis iv) then opt_list (concrete (mi_ty iv)) else []) l.
  Definition succ_field (f : mfield) : list name :=
    if veval ctx (mf_vis f) then opt_list (concrete (mf_ty f)) ++ succ_inputs (mf_args f) else [].
  Definition succ_kind (k : mkind) : list name :=
    match k with
    | MObject fs => flat_map succ_field fs
    | MInterface fs ps => flat_map succ_field fs ++ ps
    | MUnion ps => ps
    | MInput fs => succ_inputs fs
    | _ => []
    end.

  Definition eligible (n : name) : Prop := exists ty, assoc n (r_types R) = Some ty /\ tvisible ctx ty = true.
  Definition closed_node (v : list name) (x : name) : Prop :=
    forall ty, assoc x (r_types R) = Some ty -> forall s, In s (succ_kind (mt_kind ty)) -> eligible s -> In s v.
  Definition new_closed (v v' : list name) : Prop := forall y, In y v' -> ~ In y v -> closed_node v' y.

  Lemma closed_node_mono v v' x : incl v v' -> closed_node v x -> closed_node v' x.
  Proof. intros I C ty A s Hs E. apply I. eapply C; eauto. Qed.

  (* a step that handles the targets [tg x] of its element *)
  Definition good {B} (tg : B -> list name) (g : list name -> B -> outcome (list name)) : Prop :=
    forall v x v', g v x = Ok v' ->
      incl v v' /\ (forall s, In s (tg x) -> eligible s -> In s v') /\ new_closed v v'.

  Lemma good_id {B} (tg : B -> list name) v (x : B) :
    (forall s, In s (tg x) -> eligible s -> In s v) ->
    incl v v /\ (forall s, In s (tg x) -> eligible s -> In s v) /\ new_closed v v.
  Proof. intros H. split; [apply incl_refl|]. split; [exact H|]. intros y Hy Hn. contradiction. Qed.

  Lemma foldo_good {B} (tg : B -> list name) g l : good tg g ->
    forall v v', foldo g l v = Ok v' ->
      incl v v' /\ (forall x s, In x l -> In s (tg x) -> eligible s -> In s v') /\ new_closed v v'.
  Proof.
    intros G. induction l as [|x l IH]; intros v v' H; cbn in H.
    - inversion H. subst. split; [apply incl_refl|]. split; [intros ? ? []|]. intros y Hy Hn. contradiction.
    - apply bindo_ok in H as (a & H1 & H2).
      destruct (G _ _ _ H1) as (I1 & T1 & N1). destruct (IH _ _ H2) as (I2 & T2 & N2).
      split; [eapply incl_tran; eauto|]. split.
      + intros x' s [<-|Hx] Hs E; [apply I2; eauto|eauto].
      + intros y Hy Hn. destruct (in_dec N.eq_dec y a) as [Ha|Ha].
        * eapply closed_node_mono; [exact I2|]. apply N1; auto.
        * apply N2; auto.
  Qed.

  Definition tg_input (iv : minput) : list name :=
    if veval ctx (mi_vis iv) then opt_list (concrete (mi_ty iv)) else [].

  Lemma trav_input_good go : good (fun n => [n]) go -> good tg_input (trav_input ctx go).
  Proof.
    intros G v iv v' H. unfold trav_input in H. unfold tg_input.
    destruct (veval ctx (mi_vis iv)).
    - destruct (concrete (mi_ty iv)) as [n|].
      + destruct (G _ _ _ H) as (I & T & N). split; [exact I|]. split; [|exact N].
        intros s Hs E. cbn in Hs. apply T; [|exact E]. cbn. tauto.
      + inversion H. subst. split; [apply incl_refl|]. split; [intros s []|]. intros y Hy Hn. contradiction.
    - inversion H. subst. split; [apply incl_refl|]. split; [intros s []|]. intros y Hy Hn. contradiction.
  Qed.

  Lemma succ_inputs_In l s : In s (succ_inputs l) <-> exists iv, In iv l /\ In s (tg_input iv).
  Proof. unfold succ_inputs. rewrite in_flat_map. reflexivity. Qed.

  Lemma trav_field_good go : good (fun n => [n]) go -> good succ_field (trav_field ctx go).
  Proof.
    intros G v f v' H. unfold trav_field in H. unfold succ_field.
    destruct (veval ctx (mf_vis f)).
    - apply bindo_ok in H as (a & H1 & H2).
      destruct (foldo_good tg_input _ _ (trav_input_good _ G) _ _ H2) as (I2 & T2 & N2).
      assert (incl v a /\ (forall s, In s (opt_list (concrete (mf_ty f))) -> eligible s -> In s a) /\ new_closed v a)
        as (I1 & T1 & N1).
      { destruct (concrete (mf_ty f)) as [n|].
        - destruct (G _ _ _ H1) as (I & T & N). split; [exact I|]. split; [|exact N].
          intros s Hs E. apply T; [|exact E]. exact Hs.
        - inversion H1. subst. split; [apply incl_refl|]. split; [intros s []|]. intros y Hy Hn. contradiction. }
      split; [eapply incl_tran; eauto|]. split.
      + intros s Hs E. apply in_app_or in Hs as [Hs|Hs]; [apply I2; eauto|].
        apply succ_inputs_In in Hs as (iv & Hiv & Hs). eauto.
      + intros y Hy Hn. destruct (in_dec N.eq_dec y a) as [Ha|Ha].
        * eapply closed_node_mono; [exact I2|]. apply N1; auto.
        * apply N2; auto.
    - inversion H. subst. split; [apply incl_refl|]. split; [intros s []|]. intros y Hy Hn. contradiction.
  Qed.

  Lemma trav_kind_good go : good (fun n => [n]) go ->
    forall k v v', trav_kind ctx go v k = Ok v' ->
      incl v v' /\ (forall s, In s (succ_kind k) -> eligible s -> In s v') /\ new_closed v v'.
  Proof.
    intros G k v v' H. destruct k as [|fs|fs ps|ps|vs|fs]; cbn [trav_kind succ_kind] in *.
    - inversion H. subst. split; [apply incl_refl|]. split; [intros s []|]. intros y Hy Hn. contradiction.
    - destruct (foldo_good succ_field _ _ (trav_field_good _ G) _ _ H) as (I & T & N).
      split; [exact I|]. split; [|exact N]. intros s Hs E. apply in_flat_map in Hs as (f & Hf & Hs). eauto.
    - apply bindo_ok in H as (a & H1 & H2).
      destruct (foldo_good succ_field _ _ (trav_field_good _ G) _ _ H1) as (I1 & T1 & N1).
      destruct (foldo_good (fun n => [n]) _ _ G _ _ H2) as (I2 & T2 & N2).
      split; [eapply incl_tran; eauto|]. split.
      + intros s Hs E. apply in_app_or in Hs as [Hs|Hs].
        * apply in_flat_map in Hs as (f & Hf & Hs). apply I2. eauto.
        * eapply T2; eauto. cbn. tauto.
      + intros y Hy Hn. destruct (in_dec N.eq_dec y a) as [Ha|Ha].
        * eapply closed_node_mono; [exact I2|]. apply N1; auto.
        * apply N2; auto.
    - destruct (foldo_good (fun n => [n]) _ _ G _ _ H) as (I & T & N).
      split; [exact I|]. split; [|exact N]. intros s Hs E. eapply T; eauto. cbn. tauto.
    - inversion H. subst. split; [apply incl_refl|]. split; [intros s []|]. intros y Hy Hn. contradiction.
    - destruct (foldo_good tg_input _ _ (trav_input_good _ G) _ _ H) as (I & T & N).
      split; [exact I|]. split; [|exact N]. intros s Hs E. apply succ_inputs_In in Hs as (iv & Hiv & Hs). eauto.
  Qed.

  Lemma trav_good fuel : good (fun n => [n]) (trav R ctx fuel).
  Proof.
    induction fuel as [|f IH]; intros v tn v' H; cbn [trav] in H; [discriminate|].
    destruct (mem tn v) eqn:M.
    { inversion H. subst. split; [apply incl_refl|]. split; [intros s [<-|[]] _; now apply mem_In|]. intros y Hy Hn. contradiction. }
    destruct (assoc tn (r_types R)) as [ty|] eqn:A.
    2:{ inversion H. subst. split; [apply incl_refl|]. split; [intros s [<-|[]] (ty & A' & _); congruence|]. intros y Hy Hn. contradiction. }
    destruct (tvisible ctx ty) eqn:V.
    2:{ inversion H. subst. split; [apply incl_refl|]. split; [intros s [<-|[]] (ty' & A' & V'); congruence|]. intros y Hy Hn. contradiction. }
    destruct (trav_kind_good _ IH _ _ _ H) as (I & T & N).
    assert (In tn v') as Htn by (apply I; now left).
    split; [intros x Hx; apply I; now right|]. split.
    - intros s [<-|[]] _. exact Htn.
    - intros y Hy Hn. destruct (N.eq_dec y tn) as [->|Ne].
      + intros ty' A' s Hs E. rewrite A in A'. inversion A'. subst ty'. eauto.
      + apply N; [exact Hy|]. intros [<-|Hv]; [congruence|contradiction].
  Qed.

  (* weak form for the phases whose targets are not needed *)
  Definition wgood {B} (g : list name -> B -> outcome (list name)) : Prop := good (fun _ => []) g.

  Lemma reached_closed fuel v : reached R ctx fuel = Ok v ->
    (forall y, In y v -> closed_node v y) /\ (eligible (r_query R) -> In (r_query R) v).
  Proof.
    unfold reached. intros H.
    apply bindo_ok in H as (v1 & H1 & H).
    apply bindo_ok in H as (v2 & H2 & H).
    apply bindo_ok in H as (v3 & H3 & H4).
    assert (wgood (fun v d => if veval ctx (md_vis d) then foldo (trav_input ctx (trav R ctx fuel)) (md_args d) v else Ok v)) as G1.
    { intros a d a' Hd. destruct (veval ctx (md_vis d)).
      - destruct (foldo_good tg_input _ _ (trav_input_good _ (trav_good fuel)) _ _ Hd) as (I & _ & N).
        split; [exact I|]. split; [intros s []|exact N].
      - inversion Hd. subst. split; [apply incl_refl|]. split; [intros s []|]. intros y Hy Hn. contradiction. }
    destruct (foldo_good _ _ _ G1 _ _ H1) as (I1 & _ & N1).
    destruct (foldo_good _ _ _ (trav_good fuel) _ _ H2) as (I2 & T2 & N2).
    destruct (foldo_good _ _ _ (trav_good fuel) _ _ H3) as (I3 & _ & N3).
    assert (wgood (iface_pass R ctx fuel)) as G4.
    { intros a p a' Hp. unfold iface_pass in Hp.
      destruct (mt_kind (snd p)); try (inversion Hp; subst; (split; [apply incl_refl|]; split; [intros s []|]; intros y Hy Hn; contradiction)).
      match type of Hp with (if ?c then _ else _) = _ => destruct c end.
      - destruct (trav_good fuel _ _ _ Hp) as (I & _ & N). split; [exact I|]. split; [intros s []|exact N].
      - inversion Hp; subst; (split; [apply incl_refl|]; split; [intros s []|]; intros y Hy Hn; contradiction). }
    destruct (foldo_good _ _ _ G4 _ _ H4) as (I4 & _ & N4).
    split.
    - intros y Hy.
      destruct (in_dec N.eq_dec y v3) as [Y3|Y3]; [|apply N4; auto].
      eapply closed_node_mono; [exact I4|].
      destruct (in_dec N.eq_dec y v2) as [Y2|Y2]; [|apply N3; auto].
      eapply closed_node_mono; [exact I3|].
      destruct (in_dec N.eq_dec y v1) as [Y1|Y1]; [|apply N2; auto].
      eapply closed_node_mono; [exact I2|].
      apply N1; auto.
    - intros E. apply I4, I3. eapply (T2 (r_query R) (r_query R)); [unfold roots; now left|cbn; tauto|exact E].
  Qed.
End Closure.

Lemma vt_listed_in R ctx fuel vt v n ty :
  wf_registry R = true -> reached R ctx fuel = Ok v ->
  vt = map (fun p => mt_name (snd p)) (filter (listed_in v) (r_types R)) ->
  assoc n (r_types R) = Some ty -> (mt_system ty = true \/ In n v) -> In n vt.
Proof.
  intros W Hr -> A H. apply andb_true_iff in W as [W1 _].
  pose proof (assoc_In _ _ _ A) as Hin. pose proof (wf_keys_name _ _ _ W1 Hin) as Hn.
  apply in_map_iff. exists (n, ty). split; [exact Hn|]. apply filter_In. split; [exact Hin|].
  unfold listed_in. cbn [snd]. destruct H as [H|H]; [now rewrite H|].
  rewrite Hn. apply orb_true_iff. right. now apply mem_In.
Qed.

(* C18_closed for members: outside known class 1 every type named by a member shown, and the query
   root, is listed *)
Lemma closed_members R ctx fe ai fuel qs s tq :
  wf_registry R = true -> wf_system R = true ->
  introspect R ctx fe ai fuel qs = Ok (s, tq) -> kc1 R ctx = false ->
  (forall it r, In it (is_types s) -> In r (member_refs it) ->
      exists n, ref_leaf r = Some n /\ In n (map it_name (is_types s))) /\
  In (is_query s) (map it_name (is_types s)).
Proof.
  intros W WS H K.
  destruct (member_types_not_hidden _ _ _ _ _ _ _ _ W H K) as (NH & NQ).
  apply introspect_ok in H as (vt & Hv & -> & B & _ & (q & Aq)).
  pose proof Hv as Hv'. apply find_visible_spec in Hv' as (v & Hr & Evt).
  destruct (reached_closed _ _ _ _ Hr) as (CL & RQ).
  pose proof W as W'. apply andb_true_iff in W' as [W1 W2]. apply nodupb_NoDup in W2.
  (* a name that is not hidden and is a successor of a listed type is listed *)
  assert (forall k ty n tyn, In (k, ty) (r_types R) -> mem (mt_name ty) vt = true ->
            assoc n (r_types R) = Some tyn -> type_hidden R ctx n = false ->
            In n (succ_kind ctx (mt_kind ty)) ->
            (mt_system ty = true -> mt_system tyn = true) -> In n vt) as KEY.
  { intros k ty n tyn Hin M An Hh Hs Hsys.
    eapply vt_listed_in; eauto.
    unfold type_hidden in Hh. rewrite An in Hh.
    destruct (mt_system tyn) eqn:Sn; [now left|]. right. cbn [negb andb] in Hh.
    apply negb_false_iff in Hh.
    pose proof (wf_keys_name _ _ _ W1 Hin) as Hk.
    assert (In k v) as Hkv.
    { apply mem_In in M. rewrite Evt in M. apply in_map_iff in M as ([k' ty'] & En & Hin').
      apply filter_In in Hin' as [Hin' L]. cbn [snd] in *.
      pose proof (wf_keys_name _ _ _ W1 Hin') as Hk'. rewrite Hk' in En. rewrite Hk in En. subst k'.
      pose proof (In_assoc _ _ _ W2 Hin) as A1. pose proof (In_assoc _ _ _ W2 Hin') as A2.
      rewrite A1 in A2. inversion A2. subst ty'.
      unfold listed_in in L. cbn [snd] in L. apply orb_true_iff in L as [L|L].
      - specialize (Hsys L). congruence.
      - rewrite Hk in L. now apply mem_In. }
    eapply (CL k Hkv ty); [now apply In_assoc|exact Hs|]. exists tyn. split; [exact An|exact Hh]. }
  split.
  - intros it r Hit Hr'. destruct (NH _ _ Hit Hr') as (n & L & Hh). exists n. split; [exact L|].
    eapply listed_of_vt; [exact Hv|].
    unfold schema_bad in B. apply orb_false_iff in B as [B _].
    pose proof (existsb_false _ _ B _ Hit) as Bt.
    apply In_types in Hit as (k & ty & Hin & M & ->).
    unfold type_bad in Bt. cbn [mk_type it_fields it_interfaces it_possible it_inputs] in Bt.
    apply orb_false_iff in Bt as [Bt Bi]. apply orb_false_iff in Bt as [Bt _]. apply orb_false_iff in Bt as [Bf _].
    unfold wf_system in WS. rewrite forallb_forall in WS. specialize (WS _ Hin). cbn [snd] in WS.
    unfold member_refs in Hr'. cbn [mk_type it_fields it_inputs] in Hr'. apply in_app_or in Hr' as [Hr'|Hr'].
    + assert (exists fs, In r (flat_map (fun f => if_type f :: map ii_type (if_args f)) (mk_fields R ctx fe ai fs)) /\
                         existsb field_bad (mk_fields R ctx fe ai fs) = false /\
                         (forall s, In s (flat_map (succ_field ctx) fs) -> In s (succ_kind ctx (mt_kind ty))) /\
                         (mt_system ty = true ->
                          forallb (fun f => match concrete (mf_ty f) with Some n => sys_name R n | None => true end
                                            && all_inputs_sys R (mf_args f)) fs = true))
        as (fs & Hr'' & Bf' & Sub & Sys).
      { destruct (mt_kind ty) as [|fs|fs ps|?|?|?]; cbn in Hr'; try tauto.
        - exists fs. split; [exact Hr'|]. split; [exact Bf|]. split; [intros s0 Hs0; exact Hs0|].
          intros S. rewrite S in WS. exact WS.
        - exists fs. split; [exact Hr'|]. split; [exact Bf|].
          split; [intros s0 Hs0; cbn; apply in_or_app; now left|].
          intros S. rewrite S in WS. exact WS. }
      apply in_flat_map in Hr'' as (f & Hf & Hr'').
      pose proof (existsb_false _ _ Bf' _ Hf) as Bff. unfold field_bad in Bff. apply orb_false_iff in Bff as [Bty Bargs].
      apply mk_fields_In in Hf as (m & Hm & Sm & ->).
      unfold show_field in Sm. apply andb_true_iff in Sm as [Vm _].
      cbn [mk_field if_type if_args] in *. destruct Hr'' as [<-|Hr''].
      * destruct (mk_ref_good _ _ Bty) as (n' & tyn & C & An & L').
        rewrite L' in L. inversion L. rewrite (wf_assoc_name _ _ _ W1 An) in *. subst n'.
        eapply (KEY k ty n tyn); eauto.
        -- apply Sub. apply in_flat_map. exists m. split; [exact Hm|]. unfold succ_field. rewrite Vm.
           apply in_or_app. left. rewrite C. now left.
        -- intros S. specialize (Sys S). rewrite forallb_forall in Sys. specialize (Sys _ Hm).
           apply andb_true_iff in Sys as [Sys _]. rewrite C in Sys. unfold sys_name in Sys. now rewrite An in Sys.
      * apply in_map_iff in Hr'' as (a & <- & Ha).
        pose proof (existsb_false _ _ Bargs _ Ha) as Ba.
        apply mk_inputs_In in Ha as (mi & Hmi & Smi & ->). cbn [mk_input ii_type] in *.
        unfold input_bad in Ba. cbn [mk_input ii_type] in Ba.
        unfold show_input in Smi. apply andb_true_iff in Smi as [_ Vmi].
        destruct (mk_ref_good _ _ Ba) as (n' & tyn & C & An & L').
        rewrite L' in L. inversion L. rewrite (wf_assoc_name _ _ _ W1 An) in *. subst n'.
        eapply (KEY k ty n tyn); eauto.
        -- apply Sub. apply in_flat_map. exists m. split; [exact Hm|]. unfold succ_field. rewrite Vm.
           apply in_or_app. right. apply succ_inputs_In. exists mi. split; [exact Hmi|].
           unfold tg_input. rewrite Vmi, C. now left.
        -- intros S. specialize (Sys S). rewrite forallb_forall in Sys. specialize (Sys _ Hm).
           apply andb_true_iff in Sys as [_ Sys]. unfold all_inputs_sys in Sys. rewrite forallb_forall in Sys.
           specialize (Sys _ Hmi). rewrite C in Sys. unfold sys_name in Sys. now rewrite An in Sys.
    + destruct (mt_kind ty) as [|?|? ?|?|?|fs] eqn:Ek; cbn in Hr'; try tauto.
      apply in_map_iff in Hr' as (a & <- & Ha). cbn [olist_bad] in Bi.
      pose proof (existsb_false _ _ Bi _ Ha) as Ba.
      apply mk_inputs_In in Ha as (mi & Hmi & Smi & ->). cbn [mk_input ii_type] in *.
      unfold input_bad in Ba. cbn [mk_input ii_type] in Ba.
      unfold show_input in Smi. apply andb_true_iff in Smi as [_ Vmi].
      destruct (mk_ref_good _ _ Ba) as (n' & tyn & C & An & L').
      rewrite L' in L. inversion L. rewrite (wf_assoc_name _ _ _ W1 An) in *. subst n'.
      eapply (KEY k ty n tyn); eauto.
      * rewrite Ek. cbn [succ_kind]. apply succ_inputs_In. exists mi. split; [exact Hmi|].
        unfold tg_input. rewrite Vmi, C. now left.
      * intros S. rewrite S in WS. cbn [negb orb] in WS. unfold all_inputs_sys in WS. rewrite forallb_forall in WS.
        specialize (WS _ Hmi). rewrite C in WS. unfold sys_name in WS. now rewrite An in WS.
  - cbn [mk_schema is_query] in *. eapply listed_of_vt; [exact Hv|].
    eapply vt_listed_in; eauto.
    unfold type_hidden in NQ. rewrite Aq in NQ.
    destruct (mt_system q) eqn:Sq; [now left|]. right. cbn [negb andb] in NQ. apply negb_false_iff in NQ.
    apply RQ. exists q. split; [exact Aq|exact NQ].
Qed.

Lemma c18_nonvacuous_closed :
  wf_registry w_ok = true /\ wf_system w_ok = true /\ kc1 w_ok 0 = false /\ kc1 w_ok 1 = false /\
  exists r, introspect w_ok 1 true true (default_fuel w_ok) [] = Ok r /\ (8 <=? N.of_nat (length (is_types (fst r)))) = true.
Proof. repeat (split; [vm_compute; reflexivity|]). eexists. split; vm_compute; reflexivity. Qed.

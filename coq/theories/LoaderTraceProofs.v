(* LoaderTraceProofs.v — C28: every trace of the DataLoader machine passes the
   trace specification (Loader.v: tstep / trace_ok), for every schedule.
   Lemmas and proofs only. *)
From AG Require Import Base DLCache DLCacheProofs Loader LoaderProofs.
Open Scope N_scope.

Ltac nlia := unfold name in *; lia.

(* ------------------------------------------------------------ utilities -- *)
Lemma skipn_app_len {A} (a b : list A) : skipn (length a) (a ++ b) = b.
Proof. induction a as [|x a IH]; cbn [length app skipn]; [reflexivity|exact IH]. Qed.

Lemma skipn_len {A} (a : list A) : skipn (length a) a = [].
Proof. induction a as [|x a IH]; cbn [length skipn]; [reflexivity|exact IH]. Qed.

Lemma mem_app w a b : mem w (a ++ b) = mem w a || mem w b.
Proof.
  induction a as [|x a IH]; cbn [app mem]; [reflexivity|].
  destruct (name_eqb w x); [reflexivity|exact IH].
Qed.

Lemma mem_cons w x l : mem w (x :: l) = N.eqb w x || mem w l.
Proof. cbn [mem]. unfold name_eqb. destruct (N.eqb w x); reflexivity. Qed.

Lemma mem_false_In w l : mem w l = false <-> ~ In w l.
Proof.
  split.
  - intros H Hin. apply mem_In in Hin. congruence.
  - intros H. destruct (mem w l) eqn:E; [|reflexivity]. apply mem_In in E. contradiction.
Qed.

Lemma mem_ext a b : (forall x, In x a <-> In x b) -> forall w, mem w a = mem w b.
Proof.
  intros H w. destruct (mem w a) eqn:Ea, (mem w b) eqn:Eb; try reflexivity.
  - apply mem_In in Ea. apply H in Ea. apply mem_In in Ea. congruence.
  - apply mem_In in Eb. apply H in Eb. apply mem_In in Eb. congruence.
Qed.

Lemma subset_spec a b : (forall x, In x a -> In x b) -> subset a b = true.
Proof.
  induction a as [|x a IH]; intros H; cbn [subset]; [reflexivity|].
  rewrite IH by (intros y Hy; apply H; right; exact Hy).
  rewrite andb_true_r. apply mem_In. apply H. left. reflexivity.
Qed.

Lemma nodup_ids_true l : NoDup l -> nodup_ids l = true.
Proof.
  induction 1 as [|x l Hx Hl IH]; cbn [nodup_ids]; [reflexivity|].
  rewrite IH, andb_true_r. apply negb_true_iff. apply mem_false_In. exact Hx.
Qed.

Lemma ssorted_NoDup l : ssorted l -> NoDup l.
Proof.
  induction 1 as [|x l Hs IH Hx]; constructor; [|exact IH].
  intros Hin. specialize (Hx x Hin). nlia.
Qed.

Lemma length_same_elems (a b : list key) :
  NoDup a -> NoDup b -> (forall x, In x a <-> In x b) -> length a = length b.
Proof.
  intros Ha Hb H. apply Nat.le_antisymm; apply NoDup_incl_length; try assumption; intros x Hx; apply H; exact Hx.
Qed.

Lemma length_canon_dedup ks : length (canon ks) = length (dedup ks).
Proof.
  apply length_same_elems; [apply ssorted_NoDup, canon_sorted|apply NoDup_dedup|].
  intros x. rewrite In_canon, In_dedup. tauto.
Qed.

Lemma length_canon_nodup ks : NoDup ks -> length (canon ks) = length ks.
Proof.
  intros H. apply length_same_elems; [apply ssorted_NoDup, canon_sorted|exact H|].
  intros x. apply In_canon.
Qed.

Lemma canon_idem l : canon (canon l) = canon l.
Proof. apply canon_ext. intros x. apply In_canon. Qed.

Lemma dedup_nil l : dedup l = [] -> l = [].
Proof.
  destruct l as [|x l]; [reflexivity|]. intros H.
  assert (Hin : In x (dedup (x :: l))) by (apply In_dedup; left; reflexivity).
  rewrite H in Hin. destruct Hin.
Qed.

Lemma assoc_app {A} k (a b : list (name * A)) :
  assoc k (a ++ b) = match assoc k a with Some v => Some v | None => assoc k b end.
Proof.
  induction a as [|[x v] a IH]; cbn [app assoc]; [reflexivity|].
  destruct (name_eqb k x); [reflexivity|exact IH].
Qed.

Lemma assoc_picks k need vals : assoc k (picks need vals) = if mem k need then assoc k vals else None.
Proof.
  unfold picks. induction need as [|a need IH]; cbn [flat_map mem]; [reflexivity|].
  rewrite assoc_app, IH. unfold name_eqb.
  destruct (N.eqb_spec k a) as [->|Hn].
  - destruct (assoc a vals) as [v|] eqn:E; cbn [assoc]; unfold name_eqb.
    + rewrite N.eqb_refl. reflexivity.
    + destruct (mem a need); reflexivity.
  - destruct (assoc a vals) as [v|]; cbn [assoc]; unfold name_eqb.
    + destruct (N.eqb_spec k a) as [E|_]; [contradiction|reflexivity].
    + reflexivity.
Qed.

Lemma assoc_flat_kv k (L : list (name * N)) A :
  assoc k (flat_map (fun k => match assoc k L with Some v => [(k, v)] | None => [] end) A) =
  if mem k A then assoc k L else None.
Proof.
  induction A as [|a A IH]; cbn [flat_map mem]; [reflexivity|].
  rewrite assoc_app, IH. unfold name_eqb.
  destruct (N.eqb_spec k a) as [->|Hn].
  - destruct (assoc a L) as [v|] eqn:E; cbn [assoc]; unfold name_eqb.
    + rewrite N.eqb_refl. reflexivity.
    + destruct (mem a A); reflexivity.
  - destruct (assoc a L) as [v|]; cbn [assoc]; unfold name_eqb.
    + destruct (N.eqb_spec k a) as [E|_]; [contradiction|reflexivity].
    + reflexivity.
Qed.

Lemma assoc_canon_kv k L : assoc k (canon_kv L) = assoc k L.
Proof.
  unfold canon_kv. rewrite assoc_flat_kv.
  destruct (mem k (canon (map fst L))) eqn:E; [reflexivity|].
  apply mem_false_In in E. rewrite In_canon, assoc_In_fst in E.
  destruct (assoc k L); [exfalso; apply E; discriminate|reflexivity].
Qed.

Lemma map_fst_flat_kv (L : list (name * N)) A :
  (forall a, In a A -> assoc a L <> None) ->
  map fst (flat_map (fun k => match assoc k L with Some v => [(k, v)] | None => [] end) A) = A.
Proof.
  induction A as [|a A IH]; intros H; cbn [flat_map map]; [reflexivity|].
  rewrite map_app, IH by (intros x Hx; apply H; right; exact Hx).
  destruct (assoc a L) as [v|] eqn:E; [reflexivity|].
  exfalso. apply (H a); [left; reflexivity|exact E].
Qed.

Lemma map_fst_canon_kv L : map fst (canon_kv L) = canon (map fst L).
Proof.
  unfold canon_kv. apply map_fst_flat_kv.
  intros a Ha. apply assoc_In_fst. apply (proj1 (In_canon a (map fst L))). exact Ha.
Qed.

Lemma option_eqb_refl x : option_eqb N.eqb x x = true.
Proof. destruct x as [v|]; cbn; [apply N.eqb_refl|reflexivity]. Qed.

(* ---------------------------------------------------- one completed load -- *)
Definition matches (p : pend) (rq : treq) : Prop :=
  (forall k, In k (p_keys p) <-> In k (r_need rq)) /\
  (forall k, In k (r_need rq) <-> In k (r_ks rq) /\ assoc k (r_snap rq) = None) /\
  (forall k, assoc k (p_use p) = if mem k (r_ks rq) then assoc k (r_snap rq) else None).

Lemma result_wok p rq vals :
  matches p rq -> wok_ok rq vals (canon_kv (picks (p_keys p) vals ++ p_use p)) = true.
Proof.
  intros (Hk & Hn & Hu). unfold wok_ok.
  set (L := picks (p_keys p) vals ++ p_use p).
  assert (HL : forall k, assoc k L = match (if mem k (p_keys p) then assoc k vals else None) with
                                      | Some v => Some v
                                      | None => if mem k (r_ks rq) then assoc k (r_snap rq) else None
                                      end).
  { intros k. unfold L. rewrite assoc_app, assoc_picks, Hu. reflexivity. }
  apply andb_true_intro. split; [apply andb_true_intro; split|].
  - rewrite map_fst_canon_kv. apply subset_spec. intros x Hx.
    apply (proj1 (In_canon _ _)) in Hx. apply (proj1 (assoc_In_fst _ _)) in Hx. rewrite HL in Hx.
    destruct (mem x (p_keys p)) eqn:Em.
    + apply mem_In in Em. apply Hk in Em. apply Hn in Em. apply Em.
    + destruct (mem x (r_ks rq)) eqn:Er; [apply mem_In; exact Er|congruence].
  - rewrite <- (map_length fst (canon_kv L)), map_fst_canon_kv, canon_idem. apply Nat.eqb_refl.
  - apply forallb_forall. intros k Hin.
    replace (assoc k (canon_kv L)) with (value_of (r_snap rq) vals k); [apply option_eqb_refl|].
    rewrite assoc_canon_kv, HL. unfold value_of.
    assert (Hm : mem k (r_ks rq) = true) by (apply mem_In; exact Hin). rewrite Hm.
    destruct (assoc k (r_snap rq)) as [v|] eqn:Es.
    + assert (Hnk : mem k (p_keys p) = false).
      { apply mem_false_In. intros Hin'. apply Hk in Hin'. apply Hn in Hin'. destruct Hin' as [_ E]. congruence. }
      rewrite Hnk. reflexivity.
    + assert (Hik : mem k (p_keys p) = true).
      { apply mem_In. apply Hk. apply Hn. split; assumption. }
      rewrite Hik. destruct (assoc k vals); reflexivity.
Qed.

(* ------------------------------------------- who is waiting: bookkeeping -- *)
Definition cnt (st : state) (w : N) : nat := count_occ N.eq_dec (waiting_ids st) w.

Definition one (w w0 : N) : nat := if N.eq_dec w w0 then 1%nat else 0%nat.

Lemma cnt_In st w : In w (waiting_ids st) <-> (cnt st w > 0)%nat.
Proof. apply count_occ_In. Qed.

Lemma remove_task_notin t l : ~ In t (map fst l) -> remove_task t l = l.
Proof.
  induction l as [|[t' x] l IH]; cbn [remove_task map fst In]; [reflexivity|].
  intros H. destruct (N.eqb_spec t t') as [->|Hn]; [exfalso; apply H; left; reflexivity|].
  rewrite IH; [reflexivity|]. intros Hin. apply H. right. exact Hin.
Qed.

Lemma cnt_remove_task t x l w :
  NoDup (map fst l) -> find_task t l = Some x ->
  count_occ N.eq_dec (flat_map task_waiters l) w =
  (count_occ N.eq_dec (task_waiters (t, x)) w + count_occ N.eq_dec (flat_map task_waiters (remove_task t l)) w)%nat.
Proof.
  induction l as [|[t' y] l IH]; cbn [find_task remove_task flat_map map fst]; [discriminate|].
  intros Hnd Hf. inversion Hnd as [|? ? Hni Hnd']; subst.
  destruct (N.eqb_spec t t') as [->|Hn].
  - injection Hf as ->. rewrite count_occ_app, (remove_task_notin t' l Hni). reflexivity.
  - cbn [flat_map]. rewrite !count_occ_app, (IH Hnd' Hf). lia.
Qed.

Lemma find_task_None_notin t l : find_task t l = None -> ~ In t (map fst l).
Proof.
  induction l as [|[t' y] l IH]; cbn [find_task map fst In]; [tauto|].
  destruct (N.eqb_spec t t') as [->|Hn]; [discriminate|].
  intros H [E|Hin]; [congruence|exact (IH H Hin)].
Qed.

Lemma count_one w w0 : count_occ N.eq_dec [w] w0 = one w w0.
Proof. cbn [count_occ]. unfold one. destruct (N.eq_dec w w0); reflexivity. Qed.

Lemma count_filter_le {A} (f : A -> N) (g : A -> bool) l w :
  (count_occ N.eq_dec (map f (filter g l)) w <= count_occ N.eq_dec (map f l) w)%nat.
Proof.
  induction l as [|x l IH]; cbn [filter map count_occ]; [lia|].
  destruct (g x); cbn [map count_occ]; destruct (N.eq_dec (f x) w); lia.
Qed.

Record MB (st : state) : Prop := {
  mb_uniq : forall w, (cnt st w <= 1)%nat;
  mb_used : forall w, In w (waiting_ids st) -> mem w (st_used st) = true;
  mb_ndone : forall w, In w (waiting_ids st) -> ~ In w (map fst (st_done st));
  mb_cover : forall w, mem w (st_used st) = true ->
                       In w (map fst (st_done st)) \/ mem w (st_cancelled st) = true \/ In w (waiting_ids st);
  mb_done_used : forall w, In w (map fst (st_done st)) -> mem w (st_used st) = true;
  mb_canc_used : forall w, mem w (st_cancelled st) = true -> mem w (st_used st) = true
}.

Lemma MB_init cf : MB (init cf).
Proof.
  constructor; cbn [init st_used st_done st_cancelled map mem]; unfold cnt, waiting_ids;
    cbn [init st_pending st_tasks map flat_map app count_occ In]; intros; try lia; try tauto; try discriminate.
Qed.

(* how the multiset of waiting ids moves *)
Lemma cnt_request cf st w ks :
  mem w (st_used st) = false ->
  snd (lookup cf (st_cache st) ks) <> [] ->
  forall w0, cnt (mrequest cf st w ks) w0 = (cnt st w0 + one w w0)%nat.
Proof.
  intros Hw Hne w0. unfold mrequest. rewrite Hw.
  destruct (lookup cf (st_cache st) ks) as [[c1 use] need]. cbn [snd] in Hne.
  destruct need as [|n0 nl]; [congruence|].
  unfold cnt, waiting_ids.
  destruct (c_max cf <=? length (union (st_keys st) (n0 :: nl)))%nat; [|destruct (st_keys st)];
    cbn [st_pending st_tasks map app];
    rewrite ?flat_map_app, ?map_app, ?count_occ_app; cbn [flat_map task_waiters snd map app];
    rewrite ?map_app, ?count_occ_app, ?app_nil_r; cbn [map p_w]; rewrite ?count_one; cbn [count_occ]; lia.
Qed.

Lemma cnt_fire st t w0 :
  NoDup (map fst (st_tasks st)) -> find_task t (st_tasks st) = Some TTimer ->
  cnt (mfire st t) w0 = cnt st w0.
Proof.
  intros Hnd Hf. pose proof (cnt_remove_task t TTimer (st_tasks st) w0 Hnd Hf) as Hc.
  cbn [task_waiters snd count_occ] in Hc.
  unfold mfire. rewrite Hf. unfold cnt, waiting_ids.
  destruct (st_keys st); cbn [st_pending st_tasks map app];
    rewrite ?flat_map_app, ?count_occ_app; cbn [flat_map task_waiters snd app];
    rewrite ?app_nil_r, ?count_occ_app; cbn [count_occ]; lia.
Qed.

Lemma cnt_done cf st t r ks senders w0 :
  NoDup (map fst (st_tasks st)) -> find_task t (st_tasks st) = Some (TLoad ks senders) ->
  cnt st w0 = (count_occ N.eq_dec (map p_w senders) w0 + cnt (mdone cf st t r) w0)%nat.
Proof.
  intros Hnd Hf. pose proof (cnt_remove_task t _ (st_tasks st) w0 Hnd Hf) as Hc.
  cbn [task_waiters snd] in Hc.
  unfold mdone. rewrite Hf. unfold cnt, waiting_ids. cbn [st_pending st_tasks].
  rewrite !count_occ_app. lia.
Qed.

Lemma In_map_count (l : list N) w : In w l <-> (count_occ N.eq_dec l w > 0)%nat.
Proof. apply count_occ_In. Qed.

Lemma step_MB cf mr st s : Inv cf mr st -> MB st -> MB (mstep cf st s).
Proof.
  intros HI HM. pose proof (proj1 (inv_ids _ _ _ HI)) as Hnd.
  destruct HM as [M1 M2 M3 M4 M5 M6].
  destruct s as [w ks|t|t r|w|kvs]; cbn [mstep].
  - (* request *)
    destruct (mem w (st_used st)) eqn:Hw; [unfold mrequest; rewrite Hw; constructor; assumption|].
    assert (Hcw : cnt st w = 0%nat).
    { destruct (cnt st w) eqn:E; [reflexivity|]. exfalso.
      assert (Hin : In w (waiting_ids st)) by (apply cnt_In; lia). apply M2 in Hin. congruence. }
    assert (Hnd_w : ~ In w (map fst (st_done st))) by (intros H; apply M5 in H; congruence).
    destruct (snd (lookup cf (st_cache st) ks)) as [|n0 nl] eqn:En.
    + (* served from the cache *)
      unfold mrequest. rewrite Hw. destruct (lookup cf (st_cache st) ks) as [[c1 use] need]. cbn [snd] in En. subst need.
      constructor; unfold cnt, waiting_ids in *; cbn [st_pending st_tasks st_used st_done st_cancelled] in *.
      * exact M1.
      * intros w0 H. rewrite mem_cons. rewrite (M2 w0 H). apply orb_true_r.
      * intros w0 H. rewrite map_app, in_app_iff. cbn [map fst In]. intros [Hd|[E|[]]]; [exact (M3 w0 H Hd)|].
        subst w0. apply M2 in H. congruence.
      * intros w0. rewrite mem_cons, map_app, in_app_iff. cbn [map fst In].
        destruct (N.eqb_spec w0 w) as [->|Hn]; [intros _; left; right; left; reflexivity|].
        cbn [orb]. intros H. destruct (M4 w0 H) as [H'|[H'|H']]; [left; left; exact H'|right; left; exact H'|right; right; exact H'].
      * intros w0. rewrite map_app, in_app_iff, mem_cons. cbn [map fst In].
        intros [H|[<-|[]]]; [rewrite (M5 w0 H); apply orb_true_r|rewrite N.eqb_refl; reflexivity].
      * intros w0 H. rewrite mem_cons, (M6 w0 H). apply orb_true_r.
    + (* joins the pending batch *)
      assert (Hne : snd (lookup cf (st_cache st) ks) <> []) by (rewrite En; discriminate).
      pose proof (cnt_request cf st w ks Hw Hne) as Hc.
      assert (Hfields : st_used (mrequest cf st w ks) = w :: st_used st /\
                        st_done (mrequest cf st w ks) = st_done st /\
                        st_cancelled (mrequest cf st w ks) = st_cancelled st).
      { unfold mrequest. rewrite Hw. destruct (lookup cf (st_cache st) ks) as [[c1 use] need]. cbn [snd] in En. subst need.
        destruct (c_max cf <=? length (union (st_keys st) (n0 :: nl)))%nat; [|destruct (st_keys st)]; repeat split. }
      destruct Hfields as (Hu & Hd & Hcn).
      assert (Hin' : forall w0, In w0 (waiting_ids (mrequest cf st w ks)) <-> In w0 (waiting_ids st) \/ w0 = w).
      { intros w0. rewrite !cnt_In, Hc. unfold one. destruct (N.eq_dec w w0) as [->|Hn].
        - split; [intros _; right; reflexivity|intros _; lia].
        - split; [intros H; left; lia|intros [H|H]; [lia|congruence]]. }
      constructor; rewrite ?Hu, ?Hd, ?Hcn.
      * intros w0. rewrite Hc. unfold one. destruct (N.eq_dec w w0) as [<-|Hn]; [rewrite Hcw; lia|specialize (M1 w0); lia].
      * intros w0 H. apply Hin' in H. rewrite mem_cons. destruct H as [H| ->]; [rewrite (M2 w0 H); apply orb_true_r|rewrite N.eqb_refl; reflexivity].
      * intros w0 H. apply Hin' in H. destruct H as [H| ->]; [exact (M3 w0 H)|exact Hnd_w].
      * intros w0. rewrite mem_cons. destruct (N.eqb_spec w0 w) as [->|Hn].
        -- intros _. right. right. apply Hin'. right. reflexivity.
        -- cbn [orb]. intros H. destruct (M4 w0 H) as [H'|[H'|H']]; [left; exact H'|right; left; exact H'|].
           right. right. apply Hin'. left. exact H'.
      * intros w0 H. rewrite mem_cons, (M5 w0 H). apply orb_true_r.
      * intros w0 H. rewrite mem_cons, (M6 w0 H). apply orb_true_r.
  - (* timer *)
    destruct (find_task t (st_tasks st)) as [[|ks senders]|] eqn:Hf;
      try (unfold mfire; rewrite Hf; constructor; assumption).
    assert (Hc : forall w0, cnt (mfire st t) w0 = cnt st w0) by (intros w0; apply (cnt_fire st t w0 Hnd Hf)).
    assert (Hin' : forall w0, In w0 (waiting_ids (mfire st t)) <-> In w0 (waiting_ids st))
      by (intros w0; rewrite !cnt_In, Hc; tauto).
    assert (Hfields : st_used (mfire st t) = st_used st /\ st_done (mfire st t) = st_done st /\
                      st_cancelled (mfire st t) = st_cancelled st)
      by (unfold mfire; rewrite Hf; destruct (st_keys st); repeat split).
    destruct Hfields as (Hu & Hd & Hcn).
    constructor; rewrite ?Hu, ?Hd, ?Hcn.
    + intros w0. rewrite Hc. apply M1.
    + intros w0 H. apply M2, Hin', H.
    + intros w0 H. apply M3, Hin', H.
    + intros w0 H. destruct (M4 w0 H) as [H'|[H'|H']]; [left; exact H'|right; left; exact H'|right; right; apply Hin'; exact H'].
    + exact M5.
    + exact M6.
  - (* loader answers *)
    destruct (find_task t (st_tasks st)) as [[|ks senders]|] eqn:Hf;
      try (unfold mdone; rewrite Hf; constructor; assumption).
    pose proof (fun w0 => cnt_done cf st t r ks senders w0 Hnd Hf) as Hc.
    assert (Hsub : forall w0, In w0 (waiting_ids (mdone cf st t r)) -> In w0 (waiting_ids st)).
    { intros w0. rewrite !cnt_In. specialize (Hc w0). lia. }
    assert (Hsend : forall w0, In w0 (map p_w senders) -> In w0 (waiting_ids st)).
    { intros w0 H. apply In_map_count in H. apply cnt_In. specialize (Hc w0). lia. }
    set (live := filter (fun p => negb (mem (p_w p) (st_cancelled st))) senders).
    assert (Hfields : st_used (mdone cf st t r) = st_used st /\
                      st_done (mdone cf st t r) = st_done st ++ map (fun p => (p_w p, result p r)) live /\
                      st_cancelled (mdone cf st t r) = st_cancelled st)
      by (unfold mdone; rewrite Hf; repeat split).
    destruct Hfields as (Hu & Hd & Hcn).
    assert (Hemit : forall w0, In w0 (map fst (map (fun p => (p_w p, result p r)) live)) <->
                               exists p, In p senders /\ p_w p = w0 /\ mem w0 (st_cancelled st) = false).
    { intros w0. rewrite map_map. cbn [fst]. rewrite in_map_iff. split.
      - intros (p & E & Hp). apply filter_In in Hp. destruct Hp as [Hp Hl]. exists p.
        split; [exact Hp|]. split; [exact E|]. subst w0. apply negb_true_iff in Hl. exact Hl.
      - intros (p & Hp & E & Hl). exists p. split; [exact E|]. apply filter_In. split; [exact Hp|].
        subst w0. rewrite Hl. reflexivity. }
    constructor; rewrite ?Hu, ?Hd, ?Hcn.
    + intros w0. specialize (Hc w0). specialize (M1 w0). lia.
    + intros w0 H. apply M2, Hsub, H.
    + intros w0 H. rewrite map_app, in_app_iff. intros [Hdn|Hem]; [exact (M3 w0 (Hsub w0 H) Hdn)|].
      apply Hemit in Hem. destruct Hem as (p & Hp & E & _).
      assert (Hs : (count_occ N.eq_dec (map p_w senders) w0 > 0)%nat) by (apply In_map_count; subst w0; apply in_map; exact Hp).
      apply cnt_In in H. specialize (Hc w0). specialize (M1 w0). lia.
    + intros w0 H. rewrite map_app, in_app_iff.
      destruct (M4 w0 H) as [H'|[H'|H']]; [left; left; exact H'|right; left; exact H'|].
      destruct (mem w0 (st_cancelled st)) eqn:Ec; [right; left; reflexivity|].
      apply cnt_In in H'. specialize (Hc w0).
      destruct (count_occ N.eq_dec (map p_w senders) w0) eqn:Es.
      * right. right. apply cnt_In. lia.
      * left. right. apply Hemit.
        assert (Hin : In w0 (map p_w senders)) by (apply In_map_count; lia).
        apply in_map_iff in Hin. destruct Hin as (p & E & Hp). exists p. repeat split; assumption.
    + intros w0. rewrite map_app, in_app_iff. intros [H|H]; [exact (M5 w0 H)|].
      apply Hemit in H. destruct H as (p & Hp & E & _). apply M2, Hsend. subst w0. apply in_map. exact Hp.
    + exact M6.
  - (* cancel *)
    unfold mcancel. destruct (mem w (waiting_ids st) && negb (mem w (st_cancelled st))) eqn:Ec; [|constructor; assumption].
    apply andb_true_iff in Ec. destruct Ec as [Ew _]. apply mem_In in Ew.
    constructor; unfold cnt, waiting_ids in *; cbn [st_pending st_tasks st_used st_done st_cancelled] in *; try assumption.
    + intros w0 H. destruct (M4 w0 H) as [H'|[H'|H']]; [left; exact H'|right; left; rewrite mem_cons, H'; apply orb_true_r|right; right; exact H'].
    + intros w0. rewrite mem_cons. destruct (N.eqb_spec w0 w) as [->|Hn]; [intros _; apply M2, Ew|cbn [orb]; apply M6].
  - (* feed *)
    unfold mfeed. constructor; unfold cnt, waiting_ids in *; cbn [st_pending st_tasks st_used st_done st_cancelled] in *; assumption.
Qed.

(* ------------------------------------------------- machine vs specification -- *)
Definition task_pends (x : N * task) : list pend :=
  match snd x with TTimer => [] | TLoad _ s => s end.
Definition wpends (st : state) : list pend := st_pending st ++ flat_map task_pends (st_tasks st).

Lemma wpends_ids st p : In p (wpends st) -> In (p_w p) (waiting_ids st).
Proof.
  unfold wpends, waiting_ids. rewrite !in_app_iff. intros [H|H].
  - left. apply in_map. exact H.
  - right. apply in_flat_map in H. destruct H as (x & Hx & Hp). apply in_flat_map. exists x. split; [exact Hx|].
    unfold task_pends in Hp. unfold task_waiters. destruct (snd x); [destruct Hp|apply in_map; exact Hp].
Qed.

Definition open_of (st : state) (t : N) : option (list key) :=
  match find_task t (st_tasks st) with Some (TLoad ks _) => Some (canon ks) | _ => None end.

Record Sim (cf : cfg) (st : state) (ts : tstate) : Prop := {
  sim_inv : Inv cf (t_maxreq ts) st;
  sim_mb : MB st;
  sim_cache : R (c_kind cf) (st_cache st) (t_cache ts);
  sim_open : forall t, assoc t (t_open ts) = open_of st t;
  sim_used : forall w, mem w (map fst (t_reqs ts)) = mem w (st_used st);
  sim_done : forall w, mem w (t_done ts) = mem w (map fst (st_done st));
  sim_canc : forall w, mem w (t_canc ts) = mem w (st_cancelled st);
  sim_reqs : forall p, In p (wpends st) -> exists rq, assoc (p_w p) (t_reqs ts) = Some rq /\ matches p rq
}.

Lemma Sim_init cf : wf_cfg cf = true -> Sim cf (init cf) t_init.
Proof.
  intros Hwf. apply andb_true_iff in Hwf. destruct Hwf as [Hk Hm]. apply Nat.leb_le in Hm.
  constructor; cbn [t_init t_maxreq t_cache t_open t_reqs t_done t_canc].
  - apply Inv_init. exact Hm.
  - apply MB_init.
  - cbn [init st_cache]. unfold init_cache. destruct (R_create _ Hk) as (c & -> & HR). exact HR.
  - intros t. reflexivity.
  - intros w. reflexivity.
  - intros w. reflexivity.
  - intros w. reflexivity.
  - intros p [].
Qed.

Lemma observe_app st st' c d :
  st_calls st' = st_calls st ++ c -> st_done st' = st_done st ++ d ->
  observe st st' = SO (map (fun c => (fst c, canon (snd c))) c) d.
Proof. intros Hc Hd. unfold observe. rewrite Hc, Hd, !skipn_app_len. reflexivity. Qed.

Lemma observe_same st st' :
  st_calls st' = st_calls st -> st_done st' = st_done st -> observe st st' = SO [] [].
Proof. intros Hc Hd. unfold observe. rewrite Hc, Hd, !skipn_len. reflexivity. Qed.

Lemma tstep_ok cf ts s calls done :
  forallb (fun c => (length (snd c) <? c_max cf + t_maxreq (treg cf ts s))%nat) calls = true ->
  forallb (done_ok (treg cf ts s) s) done = true ->
  nodup_ids (map fst done) = true ->
  fresh_ok ts (treg cf ts s) s done = true ->
  tstep cf ts s (SO calls done) =
    Some (let ts2 := tclose cf (treg cf ts s) s in
          {| t_cache := t_cache ts2; t_reqs := t_reqs ts2; t_open := calls ++ t_open ts2;
             t_done := map fst done ++ t_done ts2; t_canc := t_canc ts2; t_maxreq := t_maxreq ts2 |}).
Proof. intros H1 H2 H3 H4. unfold tstep. rewrite H1, H2, H3, H4. reflexivity. Qed.

Definition wf_parts cf : wf_cfg cf = true -> wf_kind (c_kind cf) = true /\ (1 <= c_max cf)%nat.
Proof. intros H. apply andb_true_iff in H. destruct H as [Hk Hm]. apply Nat.leb_le in Hm. split; assumption. Qed.

(* ---- feed *)
Lemma sim_feed cf st ts kvs :
  wf_cfg cf = true -> Sim cf st ts ->
  exists ts', tstep cf ts (SFeed kvs) (observe st (mstep cf st (SFeed kvs))) = Some ts' /\
              Sim cf (mstep cf st (SFeed kvs)) ts'.
Proof.
  intros Hwf HS. destruct (wf_parts cf Hwf) as [Hk Hm].
  pose proof (step_Inv cf _ st (SFeed kvs) Hm (sim_inv _ _ _ HS)) as HI'.
  pose proof (step_MB cf _ st (SFeed kvs) (sim_inv _ _ _ HS) (sim_mb _ _ _ HS)) as HM'.
  cbn [mstep] in *. rewrite (observe_same st (mfeed st kvs)) by reflexivity.
  eexists. split; [apply tstep_ok; reflexivity|].
  destruct HS as [S1 S2 S3 S4 S5 S6 S7 S8].
  constructor; cbn [treg tclose t_cache t_reqs t_open t_done t_canc t_maxreq app map].
  - exact HI'.
  - exact HM'.
  - cbn [mfeed st_cache]. apply R_insert_all. exact S3.
  - exact S4.
  - exact S5.
  - exact S6.
  - exact S7.
  - exact S8.
Qed.

(* ---- cancel *)
Lemma sim_cancel cf st ts w :
  wf_cfg cf = true -> Sim cf st ts ->
  exists ts', tstep cf ts (SCancel w) (observe st (mstep cf st (SCancel w))) = Some ts' /\
              Sim cf (mstep cf st (SCancel w)) ts'.
Proof.
  intros Hwf HS. destruct (wf_parts cf Hwf) as [Hk Hm].
  pose proof (step_Inv cf _ st (SCancel w) Hm (sim_inv _ _ _ HS)) as HI'.
  pose proof (step_MB cf _ st (SCancel w) (sim_inv _ _ _ HS) (sim_mb _ _ _ HS)) as HM'.
  cbn [mstep] in *.
  assert (Hobs : observe st (mcancel st w) = SO [] []).
  { apply observe_same; unfold mcancel; destruct (mem w (waiting_ids st) && negb (mem w (st_cancelled st))); reflexivity. }
  rewrite Hobs. eexists. split; [apply tstep_ok; reflexivity|].
  destruct HS as [S1 S2 S3 S4 S5 S6 S7 S8]. destruct S2 as [M1 M2 M3 M4 M5 M6].
  cbn [treg tclose]. rewrite S5, S6.
  assert (Hcanc : forall w0, mem w0 (t_canc (if mem w (st_used st) && negb (mem w (map fst (st_done st)))
                     then {| t_cache := t_cache ts; t_reqs := t_reqs ts; t_open := t_open ts; t_done := t_done ts;
                             t_canc := w :: t_canc ts; t_maxreq := t_maxreq ts |} else ts)) =
                   mem w0 (st_cancelled (mcancel st w))).
  { intros w0. unfold mcancel.
    destruct (mem w (waiting_ids st)) eqn:Ew.
    - pose proof Ew as Ein. apply mem_In in Ein.
      rewrite (M2 w Ein). assert (Hnd : mem w (map fst (st_done st)) = false) by (apply mem_false_In; apply M3; exact Ein).
      rewrite Hnd. cbn [andb negb].
      destruct (mem w (st_cancelled st)) eqn:Ec; cbn [negb t_canc st_cancelled].
      + rewrite mem_cons, S7. destruct (N.eqb_spec w0 w) as [->|Hn]; [rewrite Ec; reflexivity|reflexivity].
      + rewrite !mem_cons, S7. reflexivity.
    - cbn [andb]. destruct (mem w (st_used st) && negb (mem w (map fst (st_done st)))) eqn:Ec; [|apply S7].
      cbn [t_canc]. rewrite mem_cons, S7. destruct (N.eqb_spec w0 w) as [->|Hn]; [|reflexivity]. cbn [orb].
      apply andb_true_iff in Ec. destruct Ec as [Eu End]. apply negb_true_iff in End.
      destruct (M4 w Eu) as [H|[H|H]].
      + apply mem_In in H. congruence.
      + symmetry. exact H.
      + apply mem_In in H. congruence. }
  assert (Hother : forall b : bool,
            let ts2 := if b then {| t_cache := t_cache ts; t_reqs := t_reqs ts; t_open := t_open ts; t_done := t_done ts;
                                   t_canc := w :: t_canc ts; t_maxreq := t_maxreq ts |} else ts in
            t_cache ts2 = t_cache ts /\ t_reqs ts2 = t_reqs ts /\ t_open ts2 = t_open ts /\
            t_done ts2 = t_done ts /\ t_maxreq ts2 = t_maxreq ts) by (intros []; repeat split).
  destruct (Hother (mem w (st_used st) && negb (mem w (map fst (st_done st))))) as (E1 & E2 & E3 & E4 & E5).
  assert (Hst : st_cache (mcancel st w) = st_cache st /\ st_tasks (mcancel st w) = st_tasks st /\
                st_pending (mcancel st w) = st_pending st /\ st_used (mcancel st w) = st_used st /\
                st_done (mcancel st w) = st_done st)
    by (unfold mcancel; destruct (mem w (waiting_ids st) && negb (mem w (st_cancelled st))); repeat split).
  destruct Hst as (F1 & F2 & F3 & F4 & F5).
  constructor; cbn [t_cache t_reqs t_open t_done t_canc t_maxreq app map]; rewrite ?E1, ?E2, ?E3, ?E4, ?E5.
  - exact HI'.
  - exact HM'.
  - rewrite F1. exact S3.
  - intros t. unfold open_of. rewrite F2. apply S4.
  - intros w0. rewrite F4. apply S5.
  - intros w0. rewrite F5. apply S6.
  - exact Hcanc.
  - intros p Hp. apply S8. unfold wpends in *. rewrite F2, F3 in Hp. exact Hp.
Qed.

Lemma find_remove_task t' t l :
  find_task t' (remove_task t l) = if N.eqb t' t then None else find_task t' l.
Proof.
  induction l as [|[n x] l IH]; cbn [remove_task find_task]; [destruct (N.eqb t' t); reflexivity|].
  destruct (N.eqb_spec t n) as [->|Hn].
  - rewrite IH. destruct (N.eqb_spec t' n); reflexivity.
  - cbn [find_task]. rewrite IH. destruct (N.eqb_spec t' n) as [->|Hn'].
    + destruct (N.eqb_spec n t) as [E|_]; [congruence|reflexivity].
    + reflexivity.
Qed.

Lemma find_task_snoc t l n x :
  find_task t (l ++ [(n, x)]) =
  match find_task t l with Some y => Some y | None => if N.eqb t n then Some x else None end.
Proof.
  induction l as [|[n' y] l IH]; cbn [app find_task]; [reflexivity|].
  destruct (N.eqb t n'); [reflexivity|exact IH].
Qed.

Lemma In_flat_remove p t l : In p (flat_map task_pends (remove_task t l)) -> In p (flat_map task_pends l).
Proof.
  intros H. apply in_flat_map in H. destruct H as (x & Hx & Hp). apply In_remove_task in Hx.
  apply in_flat_map. exists x. tauto.
Qed.

Lemma assoc_remove_open t' t l :
  assoc t' (remove_open t l) = if N.eqb t' t then None else assoc t' l.
Proof.
  unfold remove_open. induction l as [|[n b] l IH]; cbn [filter assoc fst]; [destruct (N.eqb t' t); reflexivity|].
  unfold name_eqb in *. destruct (N.eqb_spec n t) as [->|Hn]; cbn [negb].
  - rewrite IH. destruct (N.eqb_spec t' t); reflexivity.
  - cbn [assoc]. unfold name_eqb. rewrite IH. destruct (N.eqb_spec t' n) as [->|Hn'].
    + destruct (N.eqb_spec n t) as [E|_]; [congruence|reflexivity].
    + reflexivity.
Qed.

(* ---- the timer fires *)
Lemma sim_fire cf st ts t :
  wf_cfg cf = true -> Sim cf st ts ->
  exists ts', tstep cf ts (SFire t) (observe st (mstep cf st (SFire t))) = Some ts' /\
              Sim cf (mstep cf st (SFire t)) ts'.
Proof.
  intros Hwf HS. destruct (wf_parts cf Hwf) as [Hk Hm].
  pose proof (step_Inv cf _ st (SFire t) Hm (sim_inv _ _ _ HS)) as HI'.
  pose proof (step_MB cf _ st (SFire t) (sim_inv _ _ _ HS) (sim_mb _ _ _ HS)) as HM'.
  cbn [mstep req_size Nat.max] in *.
  destruct HS as [S1 S2 S3 S4 S5 S6 S7 S8].
  destruct (find_task t (st_tasks st)) as [[|ks0 senders0]|] eqn:Hf.
  2,3: (assert (Hst : mfire st t = st) by (unfold mfire; rewrite Hf; reflexivity); rewrite Hst in *;
        rewrite (observe_same st st) by reflexivity; eexists; split; [apply tstep_ok; reflexivity|];
        constructor; cbn [treg tclose t_cache t_reqs t_open t_done t_canc t_maxreq app map]; assumption).
  assert (Hopen_t : assoc t (t_open ts) = None) by (rewrite S4; unfold open_of; rewrite Hf; reflexivity).
  destruct (st_keys st) as [|k0 kl] eqn:Ek.
  - (* nothing waits: the task ends *)
    assert (Hst : mfire st t = {| st_keys := []; st_pending := st_pending st; st_cache := st_cache st;
             st_tasks := remove_task t (st_tasks st); st_next := st_next st; st_used := st_used st;
             st_cancelled := st_cancelled st; st_done := st_done st; st_calls := st_calls st;
             st_answers := st_answers st; st_reqs := st_reqs st |}) by (unfold mfire; rewrite Hf, Ek; reflexivity).
    rewrite Hst in *. rewrite observe_same by reflexivity.
    eexists. split; [apply tstep_ok; reflexivity|].
    constructor; cbn [treg tclose t_cache t_reqs t_open t_done t_canc t_maxreq app map st_cache st_used st_done st_cancelled].
    + exact HI'.
    + exact HM'.
    + exact S3.
    + intros t'. unfold open_of. cbn [st_tasks]. rewrite find_remove_task.
      destruct (N.eqb_spec t' t) as [->|Hn]; [exact Hopen_t|apply S4].
    + exact S5.
    + exact S6.
    + exact S7.
    + intros p Hp. apply S8. unfold wpends in *. cbn [st_pending st_tasks] in Hp.
      apply in_app_iff in Hp. apply in_app_iff. destruct Hp as [Hp|Hp]; [left; exact Hp|right; apply (In_flat_remove p t), Hp].
  - (* the batch is taken and handed to the loader *)
    assert (Hst : mfire st t = {| st_keys := []; st_pending := []; st_cache := st_cache st;
             st_tasks := remove_task t (st_tasks st) ++ [(t, TLoad (st_keys st) (st_pending st))];
             st_next := st_next st; st_used := st_used st;
             st_cancelled := st_cancelled st; st_done := st_done st;
             st_calls := st_calls st ++ [(t, st_keys st)];
             st_answers := st_answers st; st_reqs := st_reqs st |}) by (unfold mfire; rewrite Hf, Ek; reflexivity).
    rewrite Hst in *.
    rewrite (observe_app _ _ [(t, st_keys st)] []) by (cbn [st_calls st_done]; rewrite ?app_nil_r; reflexivity).
    cbn [map fst snd].
    eexists. split.
    + apply tstep_ok; try reflexivity. cbn [forallb snd treg andb]. rewrite andb_true_r.
      apply Nat.ltb_lt.
      destruct (inv_calls _ _ _ HI' t (st_keys st)) as (Hnd & _ & Hlen);
        [cbn [st_calls]; apply in_app_iff; right; left; reflexivity|].
      rewrite (length_canon_nodup _ Hnd). exact Hlen.
    + constructor; cbn [treg tclose t_cache t_reqs t_open t_done t_canc t_maxreq app map st_cache st_used st_done st_cancelled].
      * exact HI'.
      * exact HM'.
      * exact S3.
      * intros t'. unfold open_of. cbn [st_tasks assoc]. rewrite find_task_snoc, find_remove_task. unfold name_eqb.
        destruct (N.eqb_spec t' t) as [->|Hn]; [reflexivity|].
        rewrite S4. unfold open_of. destruct (find_task t' (st_tasks st)) as [[|? ?]|]; reflexivity.
      * exact S5.
      * exact S6.
      * exact S7.
      * intros p Hp. apply S8. unfold wpends in *. cbn [st_pending st_tasks app] in Hp.
        rewrite flat_map_app in Hp. cbn [flat_map task_pends snd] in Hp. rewrite app_nil_r in Hp.
        apply in_app_iff in Hp. apply in_app_iff. destruct Hp as [Hp|Hp]; [right; apply (In_flat_remove p t), Hp|left; exact Hp].
Qed.

(* ---- the loader answers *)
Lemma sim_done_step cf st ts t r :
  wf_cfg cf = true -> Sim cf st ts ->
  exists ts', tstep cf ts (SDone t r) (observe st (mstep cf st (SDone t r))) = Some ts' /\
              Sim cf (mstep cf st (SDone t r)) ts'.
Proof.
  intros Hwf HS. destruct (wf_parts cf Hwf) as [Hk Hm].
  pose proof (step_Inv cf _ st (SDone t r) Hm (sim_inv _ _ _ HS)) as HI'.
  pose proof (step_MB cf _ st (SDone t r) (sim_inv _ _ _ HS) (sim_mb _ _ _ HS)) as HM'.
  cbn [mstep req_size Nat.max] in *.
  destruct HS as [S1 S2 S3 S4 S5 S6 S7 S8].
  destruct (find_task t (st_tasks st)) as [[|ks senders]|] eqn:Hf.
  1,3: (assert (Hst : mdone cf st t r = st) by (unfold mdone; rewrite Hf; reflexivity); rewrite Hst in *;
        assert (Hopen_t : assoc t (t_open ts) = None) by (rewrite S4; unfold open_of; rewrite Hf; reflexivity);
        rewrite (observe_same st st) by reflexivity; eexists; split; [apply tstep_ok; reflexivity|];
        constructor; cbn [treg tclose t_cache t_reqs t_open t_done t_canc t_maxreq app map]; rewrite ?Hopen_t; assumption).
  assert (Hopen_t : assoc t (t_open ts) = Some (canon ks)) by (rewrite S4; unfold open_of; rewrite Hf; reflexivity).
  pose proof (find_task_In _ _ _ Hf) as Hin_t.
  pose proof (inv_tasks _ _ _ S1 _ Hin_t) as Hok. unfold task_ok in Hok. cbn [snd fst] in Hok. destruct Hok as [_ Hincl].
  set (live := filter (fun p => negb (mem (p_w p) (st_cancelled st))) senders).
  set (cache' := match r with
                 | LOk vals => if c_dis cf then st_cache st else ic_insert_all vals (st_cache st)
                 | LErr _ => st_cache st
                 end).
  assert (Hst : mdone cf st t r = {| st_keys := st_keys st; st_pending := st_pending st; st_cache := cache';
         st_tasks := remove_task t (st_tasks st); st_next := st_next st; st_used := st_used st;
         st_cancelled := st_cancelled st;
         st_done := st_done st ++ map (fun p => (p_w p, result p r)) live;
         st_calls := st_calls st; st_answers := st_answers st ++ [(t, r)]; st_reqs := st_reqs st |})
    by (unfold mdone; rewrite Hf; reflexivity).
  rewrite Hst in *.
  rewrite (observe_app _ _ [] (map (fun p => (p_w p, result p r)) live)) by (cbn [st_calls st_done]; rewrite ?app_nil_r; reflexivity).
  cbn [map].
  assert (Hsend : forall p, In p senders -> In p (wpends st)).
  { intros p Hp. unfold wpends. apply in_app_iff. right. apply in_flat_map. exists (t, TLoad ks senders). split; [exact Hin_t|exact Hp]. }
  eexists. split.
  - apply tstep_ok; cbn [treg]; [reflexivity| | |reflexivity].
    + apply forallb_forall. intros d Hd. apply in_map_iff in Hd. destruct Hd as (p & <- & Hp).
      apply filter_In in Hp. destruct Hp as [Hp Hlive]. apply negb_true_iff in Hlive.
      pose proof (Hsend p Hp) as Hwp. destruct (S8 p Hwp) as (rq & Hrq & Hmatch).
      unfold done_ok. rewrite S6, S7, Hlive, Hrq.
      assert (Hnd : mem (p_w p) (map fst (st_done st)) = false)
        by (apply mem_false_In; apply (mb_ndone _ S2); apply wpends_ids; exact Hwp).
      rewrite Hnd. cbn [negb andb].
      assert (Hsub : subset (r_need rq) (canon ks) = true).
      { apply subset_spec. intros k Hkn. apply In_canon. apply (Hincl p Hp). apply (proj1 Hmatch). exact Hkn. }
      destruct r as [vals|e]; cbn [result]; rewrite Hopen_t, Hsub.
      * cbn [andb]. apply result_wok. exact Hmatch.
      * rewrite N.eqb_refl. reflexivity.
    + apply nodup_ids_true. rewrite map_map. cbn [fst]. change (fun x : pend => p_w x) with p_w.
      apply NoDup_count_occ with (decA := N.eq_dec). intros w0.
      pose proof (count_filter_le p_w (fun p => negb (mem (p_w p) (st_cancelled st))) senders w0) as H1.
      pose proof (cnt_done cf st t r ks senders w0 (proj1 (inv_ids _ _ _ S1)) Hf) as H2.
      pose proof (mb_uniq _ S2 w0) as H3. fold live in H1. lia.
  - cbn [treg tclose]. rewrite Hopen_t.
    constructor; cbn [t_cache t_reqs t_open t_done t_canc t_maxreq app st_cache st_used st_done st_cancelled].
    + exact HI'.
    + exact HM'.
    + subst cache'. destruct r as [vals|e]; [destruct (c_dis cf); [exact S3|apply R_insert_all; exact S3]|exact S3].
    + intros t'. unfold open_of. cbn [st_tasks]. rewrite assoc_remove_open, find_remove_task.
      destruct (N.eqb_spec t' t) as [->|Hn]; [reflexivity|apply S4].
    + exact S5.
    + intros w0. rewrite map_app, !mem_app, S6. apply orb_comm.
    + exact S7.
    + intros p Hp. apply S8. unfold wpends in *. cbn [st_pending st_tasks] in Hp.
      apply in_app_iff in Hp. apply in_app_iff. destruct Hp as [Hp|Hp]; [left; exact Hp|right; apply (In_flat_remove p t), Hp].
Qed.

(* ---- a request *)
Lemma lookup_sim cf c l ks :
  R (c_kind cf) c l ->
  let snap := if c_dis cf then [] else l in
  R (c_kind cf) (fst (fst (lookup cf c ks))) (fold_left (fun l k => s_touch k l) (filter (holds snap) ks) l) /\
  (forall k, In k (snd (lookup cf c ks)) <-> In k ks /\ assoc k snap = None) /\
  (forall k, assoc k (snd (fst (lookup cf c ks))) = if mem k ks then assoc k snap else None).
Proof.
  intros HR. unfold lookup. destruct (c_dis cf); cbv zeta; cbn [fst snd].
  - rewrite (filter_false (holds []) ks) by reflexivity. cbn [fold_left]. split; [exact HR|]. split.
    + intros k. rewrite In_dedup. cbn [assoc]. tauto.
    + intros k. cbn [assoc]. destruct (mem k ks); reflexivity.
  - destruct (scan_spec (c_kind cf) ks c l [] [] HR) as (H1 & H2 & H3).
    destruct (scan ks c [] []) as [[c1 use] need]. cbn [fst snd app] in *. split; [exact H1|]. split.
    + intros k. rewrite In_dedup, H2, filter_In, negb_true_iff, holds_assoc. tauto.
    + intros k. rewrite H3. cbn [assoc]. destruct (holds l k) eqn:Eh; cbn [andb]; [reflexivity|].
      apply holds_assoc in Eh. rewrite Eh. destruct (mem k ks); reflexivity.
Qed.

Lemma new_matches w ks snap need use :
  (forall k, In k need <-> In k ks /\ assoc k snap = None) ->
  (forall k, assoc k use = if mem k ks then assoc k snap else None) ->
  matches {| p_w := w; p_keys := need; p_use := use |}
          {| r_ks := ks; r_snap := snap; r_need := canon (filter (fun k => negb (holds snap k)) ks) |}.
Proof.
  intros Hn Hu.
  assert (Hc : forall k, In k (canon (filter (fun k => negb (holds snap k)) ks)) <-> In k ks /\ assoc k snap = None)
    by (intros k; rewrite In_canon, filter_In, negb_true_iff, holds_assoc; tauto).
  split; [|split]; cbn [p_keys p_use r_ks r_snap r_need].
  - intros k. rewrite Hn, Hc. tauto.
  - exact Hc.
  - exact Hu.
Qed.

Lemma treg_old cf ts w ks : mem w (map fst (t_reqs ts)) = true -> treg cf ts (SRequest w ks) = ts.
Proof. intros H. cbn [treg]. rewrite H. reflexivity. Qed.

Lemma treg_new cf ts w ks :
  mem w (map fst (t_reqs ts)) = false ->
  treg cf ts (SRequest w ks) =
    (let snap := if c_dis cf then [] else t_cache ts in
     {| t_cache := fold_left (fun l k => s_touch k l) (filter (holds snap) ks) (t_cache ts);
        t_reqs := (w, {| r_ks := ks; r_snap := snap;
                         r_need := canon (filter (fun k => negb (holds snap k)) ks) |}) :: t_reqs ts;
        t_open := t_open ts; t_done := t_done ts; t_canc := t_canc ts;
        t_maxreq := Nat.max (length (canon ks)) (t_maxreq ts) |}).
Proof. intros H. cbn [treg]. rewrite H. reflexivity. Qed.

Lemma mrequest_join cf st w ks c1 use need :
  mem w (st_used st) = false -> lookup cf (st_cache st) ks = (c1, use, need) -> need <> [] ->
  find_task (st_next st) (st_tasks st) = None ->
  let keys' := union (st_keys st) need in
  let p := {| p_w := w; p_keys := need; p_use := use |} in
  let st' := mrequest cf st w ks in
  st_cache st' = c1 /\ st_used st' = w :: st_used st /\ st_cancelled st' = st_cancelled st /\
  st_done st' = st_done st /\
  (forall q, In q (wpends st') <-> In q (wpends st) \/ q = p) /\
  ((st_calls st' = st_calls st /\ forall t, open_of st' t = open_of st t) \/
   (st_calls st' = st_calls st ++ [(st_next st, keys')] /\
    forall t, open_of st' t = if N.eqb t (st_next st) then Some (canon keys') else open_of st t)).
Proof.
  intros Hw El Hne Hfresh. cbv zeta. unfold mrequest. rewrite Hw, El.
  destruct need as [|n0 nl]; [congruence|].
  set (need := n0 :: nl) in *.
  destruct (c_max cf <=? length (union (st_keys st) need))%nat; [|destruct (st_keys st) as [|k0 kl] eqn:Ek];
    cbn [st_cache st_used st_cancelled st_done st_calls]; (split; [reflexivity|]); (split; [reflexivity|]);
    (split; [reflexivity|]); (split; [reflexivity|]); split.
  - intros q. unfold wpends. cbn [st_pending st_tasks app]. rewrite flat_map_app. cbn [flat_map task_pends snd].
    rewrite app_nil_r, !in_app_iff. cbn [In]. intuition congruence.
  - right. split; [reflexivity|]. intros t. unfold open_of. cbn [st_tasks]. rewrite find_task_snoc.
    destruct (N.eqb_spec t (st_next st)) as [->|Hn]; [rewrite Hfresh; reflexivity|].
    destruct (find_task t (st_tasks st)) as [[|? ?]|]; reflexivity.
  - intros q. unfold wpends. cbn [st_pending st_tasks app]. rewrite flat_map_app. cbn [flat_map task_pends snd].
    rewrite app_nil_r, !in_app_iff. cbn [In]. intuition congruence.
  - left. split; [reflexivity|]. intros t. unfold open_of. cbn [st_tasks]. rewrite find_task_snoc.
    destruct (N.eqb_spec t (st_next st)) as [->|Hn]; [rewrite Hfresh; reflexivity|].
    destruct (find_task t (st_tasks st)) as [[|? ?]|]; reflexivity.
  - intros q. unfold wpends. cbn [st_pending st_tasks]. rewrite !in_app_iff. cbn [In]. intuition congruence.
  - left. split; [reflexivity|]. intros t. reflexivity.
Qed.

Lemma fresh_task_id cf mr st : Inv cf mr st -> find_task (st_next st) (st_tasks st) = None.
Proof.
  intros HI. destruct (find_task (st_next st) (st_tasks st)) as [x|] eqn:E; [|reflexivity].
  apply find_task_In in E. apply (in_map fst) in E. apply (proj2 (inv_ids _ _ _ HI)) in E. cbn [fst] in E. nlia.
Qed.

Lemma sim_request cf st ts w ks :
  wf_cfg cf = true -> Sim cf st ts ->
  exists ts', tstep cf ts (SRequest w ks) (observe st (mstep cf st (SRequest w ks))) = Some ts' /\
              Sim cf (mstep cf st (SRequest w ks)) ts'.
Proof.
  intros Hwf HS. destruct (wf_parts cf Hwf) as [Hk Hm].
  pose proof (step_Inv cf _ st (SRequest w ks) Hm (sim_inv _ _ _ HS)) as HI'.
  pose proof (step_MB cf _ st (SRequest w ks) (sim_inv _ _ _ HS) (sim_mb _ _ _ HS)) as HM'.
  cbn [mstep req_size] in *. rewrite <- length_canon_dedup in HI'.
  pose proof (fresh_task_id _ _ _ (sim_inv _ _ _ HS)) as Hfresh.
  destruct HS as [S1 S2 S3 S4 S5 S6 S7 S8].
  destruct (mem w (st_used st)) eqn:Hw.
  - (* the id was used before: nothing happens *)
    assert (Hst : mrequest cf st w ks = st) by (unfold mrequest; rewrite Hw; reflexivity).
    assert (Hwt : mem w (map fst (t_reqs ts)) = true) by (rewrite S5; exact Hw).
    rewrite Hst in *. rewrite (observe_same st st) by reflexivity.
    eexists. split.
    + apply tstep_ok; rewrite ?(treg_old cf ts w ks Hwt); try reflexivity.
      unfold fresh_ok. rewrite Hwt. reflexivity.
    + rewrite (treg_old cf ts w ks Hwt).
      constructor; cbn [tclose t_cache t_reqs t_open t_done t_canc t_maxreq app map]; assumption.
  - assert (Hwt : mem w (map fst (t_reqs ts)) = false) by (rewrite S5; exact Hw).
    pose proof (lookup_sim cf (st_cache st) (t_cache ts) ks S3) as Hl. cbv zeta in Hl.
    destruct (lookup cf (st_cache st) ks) as [[c1 use] need] eqn:El. cbn [fst snd] in Hl.
    destruct Hl as (HR1 & Hneed & Huse).
    set (snap := if c_dis cf then [] else t_cache ts) in *.
    set (rq := {| r_ks := ks; r_snap := snap; r_need := canon (filter (fun k => negb (holds snap k)) ks) |}).
    pose proof (new_matches w ks snap need use Hneed Huse) as Hmatch. fold rq in Hmatch.
    assert (Hrq_need : forall k, In k (r_need rq) <-> In k need)
      by (intros k; symmetry; apply (proj1 Hmatch k)).
    assert (Hw_ndone : mem w (map fst (st_done st)) = false)
      by (apply mem_false_In; intros H; apply (mb_done_used _ S2) in H; congruence).
    assert (Hw_ncanc : mem w (st_cancelled st) = false)
      by (destruct (mem w (st_cancelled st)) eqn:E; [apply (mb_canc_used _ S2) in E; congruence|reflexivity]).
    assert (Hold_assoc : forall p, In p (wpends st) ->
              exists rq0, assoc (p_w p) ((w, rq) :: t_reqs ts) = Some rq0 /\ matches p rq0).
    { intros p Hp. destruct (S8 p Hp) as (rq0 & Ha & Hm0). exists rq0. split; [|exact Hm0].
      cbn [assoc]. unfold name_eqb. destruct (N.eqb_spec (p_w p) w) as [E|_]; [|exact Ha].
      exfalso. apply wpends_ids in Hp. apply (mb_used _ S2) in Hp. congruence. }
    assert (Hused' : forall w0, mem w0 (map fst ((w, rq) :: t_reqs ts)) = mem w0 (w :: st_used st))
      by (intros w0; cbn [map fst mem]; rewrite S5; reflexivity).
    destruct need as [|n0 nl] eqn:En.
    + (* every key served from the cache: the load completes at once *)
      assert (Hst : mrequest cf st w ks =
        {| st_keys := st_keys st; st_pending := st_pending st; st_cache := c1; st_tasks := st_tasks st;
           st_next := st_next st; st_used := w :: st_used st; st_cancelled := st_cancelled st;
           st_done := st_done st ++ [(w, WOk (canon_kv use))]; st_calls := st_calls st;
           st_answers := st_answers st; st_reqs := st_reqs st ++ [(w, ([], use))] |})
        by (unfold mrequest; rewrite Hw, El; reflexivity).
      rewrite Hst in *.
      rewrite (observe_app _ _ [] [(w, WOk (canon_kv use))]) by (cbn [st_calls st_done]; rewrite ?app_nil_r; reflexivity).
      cbn [map].
      assert (Hrq_nil : r_need rq = []).
      { destruct (r_need rq) as [|a l'] eqn:E; [reflexivity|]. exfalso.
        apply (Hrq_need a). rewrite ?E. left. reflexivity. }
      eexists. split.
      * apply tstep_ok; rewrite ?(treg_new cf ts w ks Hwt); cbv zeta; fold snap; fold rq.
        -- reflexivity.
        -- cbn [forallb]. rewrite andb_true_r. unfold done_ok. cbn [t_done t_canc t_reqs assoc].
           unfold name_eqb. rewrite S6, S7, Hw_ndone, Hw_ncanc, !N.eqb_refl, Hrq_nil. cbn [negb andb].
           pose proof (result_wok {| p_w := w; p_keys := []; p_use := use |} rq [] Hmatch) as Hr.
           cbn [p_keys p_use picks flat_map app] in Hr. exact Hr.
        -- reflexivity.
        -- unfold fresh_ok. rewrite Hwt. cbn [t_reqs assoc]. unfold name_eqb. rewrite N.eqb_refl, Hrq_nil.
           cbn [map fst mem]. unfold name_eqb. rewrite N.eqb_refl. reflexivity.
      * rewrite (treg_new cf ts w ks Hwt). cbv zeta. fold snap. fold rq.
        constructor; cbn [tclose t_cache t_reqs t_open t_done t_canc t_maxreq app map fst st_cache st_used st_done st_cancelled].
        -- exact HI'.
        -- exact HM'.
        -- exact HR1.
        -- exact S4.
        -- exact Hused'.
        -- intros w0. rewrite map_app, mem_app, mem_cons, S6. cbn [map fst mem]. unfold name_eqb.
           destruct (N.eqb w0 w), (mem w0 (map fst (st_done st))); reflexivity.
        -- exact S7.
        -- exact Hold_assoc.
    + (* the request joins the pending batch *)
      rewrite <- En in *.
      assert (Hne : need <> []) by (rewrite En; discriminate).
      destruct (mrequest_join cf st w ks c1 use need Hw El Hne Hfresh) as (F1 & F2 & F3 & F4 & F5 & F6).
      assert (Hrq_ne : r_need rq <> []).
      { intros E. assert (Hin : In n0 (r_need rq)) by (apply Hrq_need; rewrite En; left; reflexivity).
        rewrite E in Hin. exact Hin. }
      assert (Hfresh_ok : forall d, fresh_ok ts
                 {| t_cache := fold_left (fun l k => s_touch k l) (filter (holds snap) ks) (t_cache ts);
                    t_reqs := (w, rq) :: t_reqs ts; t_open := t_open ts; t_done := t_done ts; t_canc := t_canc ts;
                    t_maxreq := Nat.max (length (canon ks)) (t_maxreq ts) |} (SRequest w ks) d = true).
      { intros d. unfold fresh_ok. rewrite Hwt. cbn [t_reqs assoc]. unfold name_eqb. rewrite N.eqb_refl.
        destruct (r_need rq); [congruence|reflexivity]. }
      assert (Hreqs' : forall p, In p (wpends (mrequest cf st w ks)) ->
                exists rq0, assoc (p_w p) ((w, rq) :: t_reqs ts) = Some rq0 /\ matches p rq0).
      { intros p Hp. apply F5 in Hp. destruct Hp as [Hp| ->]; [apply Hold_assoc, Hp|].
        exists rq. split; [|exact Hmatch]. cbn [assoc p_w]. unfold name_eqb. rewrite N.eqb_refl. reflexivity. }
      destruct F6 as [[Fc Fo]|[Fc Fo]].
      * (* start fetch / delay *)
        rewrite (observe_same st (mrequest cf st w ks) Fc F4).
        eexists. split.
        -- apply tstep_ok; rewrite ?(treg_new cf ts w ks Hwt); cbv zeta; fold snap; fold rq; try reflexivity. apply Hfresh_ok.
        -- rewrite (treg_new cf ts w ks Hwt). cbv zeta. fold snap. fold rq.
           constructor; cbn [tclose t_cache t_reqs t_open t_done t_canc t_maxreq app map]; rewrite ?F1, ?F2, ?F3, ?F4.
           ++ exact HI'.
           ++ exact HM'.
           ++ exact HR1.
           ++ intros t. rewrite Fo. apply S4.
           ++ exact Hused'.
           ++ exact S6.
           ++ exact S7.
           ++ exact Hreqs'.
      * (* immediate load *)
        rewrite (observe_app _ _ [(st_next st, union (st_keys st) need)] []) by (rewrite ?app_nil_r; assumption).
        cbn [map fst snd].
        eexists. split.
        -- apply tstep_ok; rewrite ?(treg_new cf ts w ks Hwt); cbv zeta; fold snap; fold rq; try reflexivity; [|apply Hfresh_ok].
           cbn [forallb snd t_maxreq]. rewrite andb_true_r. apply Nat.ltb_lt.
           destruct (inv_calls _ _ _ HI' (st_next st) (union (st_keys st) need)) as (Hnd & _ & Hlen);
             [rewrite Fc; apply in_app_iff; right; left; reflexivity|].
           rewrite (length_canon_nodup _ Hnd). exact Hlen.
        -- rewrite (treg_new cf ts w ks Hwt). cbv zeta. fold snap. fold rq.
           constructor; cbn [tclose t_cache t_reqs t_open t_done t_canc t_maxreq app map]; rewrite ?F1, ?F2, ?F3, ?F4.
           ++ exact HI'.
           ++ exact HM'.
           ++ exact HR1.
           ++ intros t. rewrite Fo. cbn [assoc]. unfold name_eqb.
              destruct (N.eqb t (st_next st)); [reflexivity|apply S4].
           ++ exact Hused'.
           ++ exact S6.
           ++ exact S7.
           ++ exact Hreqs'.
Qed.

(* ---------------------------------------------------------- all schedules -- *)
Lemma sim_step cf st ts s :
  wf_cfg cf = true -> Sim cf st ts ->
  exists ts', tstep cf ts s (observe st (mstep cf st s)) = Some ts' /\ Sim cf (mstep cf st s) ts'.
Proof.
  intros Hwf HS. destruct s as [w ks|t|t r|w|kvs].
  - apply sim_request; assumption.
  - apply sim_fire; assumption.
  - apply sim_done_step; assumption.
  - apply sim_cancel; assumption.
  - apply sim_feed; assumption.
Qed.

Lemma sim_final cf st ts : Sim cf st ts -> st_tasks st = [] -> tfinal ts true = true.
Proof.
  intros [S1 S2 S3 S4 S5 S6 S7 S8] Ht. unfold tfinal. cbn [negb orb].
  assert (Hk : st_keys st = []).
  { destruct (st_keys st) as [|k0 kl] eqn:Ek; [reflexivity|]. exfalso.
    destruct (inv_timer _ _ _ S1) as [t Hin]; [rewrite Ek; discriminate|]. rewrite Ht in Hin. exact Hin. }
  assert (Hw : waiting_ids st = []).
  { unfold waiting_ids. rewrite (inv_keys _ _ _ S1 Hk), Ht. reflexivity. }
  apply forallb_forall. intros [w rq] Hin. cbn [fst].
  assert (Hu : mem w (st_used st) = true).
  { rewrite <- S5. apply mem_In. apply (in_map fst) in Hin. exact Hin. }
  rewrite S6, S7.
  destruct (mb_cover _ S2 w Hu) as [H|[H|H]].
  - apply mem_In in H. rewrite H. reflexivity.
  - rewrite H. apply orb_true_r.
  - rewrite Hw in H. destruct H.
Qed.

Lemma trace_ok_from cf complete steps : wf_cfg cf = true -> forall st ts,
  Sim cf st ts ->
  (complete = true -> st_tasks (run_from cf st steps) = []) ->
  trace_ok cf ts (combine steps (mtrace cf st steps)) complete = true.
Proof.
  intros Hwf. induction steps as [|s steps IH]; intros st ts HS Hc; cbn [mtrace combine trace_ok].
  - destruct complete; [|reflexivity]. apply (sim_final cf st ts HS). apply Hc. reflexivity.
  - destruct (sim_step cf st ts s Hwf HS) as (ts' & Ht & HS'). rewrite Ht.
    apply IH; [exact HS'|]. exact Hc.
Qed.

(* every trace of the machine satisfies the trace specification *)
Theorem c28_machine_meets_spec cf steps complete :
  wf_cfg cf = true ->
  (complete = true -> st_tasks (run cf steps) = []) ->
  trace_ok cf t_init (combine steps (mtrace cf (init cf) steps)) complete = true.
Proof.
  intros Hwf Hc. apply trace_ok_from; [exact Hwf|apply Sim_init; exact Hwf|exact Hc].
Qed.

(* so a schedule on which the real loader agrees with the machine is judged
   correct by the checker: check_case answers 0 *)
Theorem c28_check_case_agree cf l complete :
  wf_cfg cf = true ->
  (complete = true -> st_tasks (run cf (map fst l)) = []) ->
  map snd l = mtrace cf (init cf) (map fst l) ->
  trace_ok cf t_init l complete = true.
Proof.
  intros Hwf Hc Hl.
  replace l with (combine (map fst l) (map snd l)) at 1.
  - rewrite Hl. apply c28_machine_meets_spec; assumption.
  - clear. induction l as [|[a b] l IH]; cbn [map combine fst snd]; [reflexivity|]. rewrite IH. reflexivity.
Qed.

(* what the checker demands of a load that completes when the loader answers *)
Lemma option_eqb_eq x y : option_eqb N.eqb x y = true -> x = y.
Proof.
  destruct x as [a|], y as [b|]; cbn; try discriminate; [|reflexivity].
  intros H. apply N.eqb_eq in H. congruence.
Qed.

Lemma subset_In a b : subset a b = true -> forall x, In x a -> In x b.
Proof.
  induction a as [|y a IH]; cbn [subset]; intros H x Hx; [destruct Hx|].
  apply andb_true_iff in H. destruct H as [H1 H2]. destruct Hx as [<-|Hx]; [apply mem_In; exact H1|apply IH; assumption].
Qed.

Theorem done_ok_meaning ts t vals w l :
  done_ok ts (SDone t (LOk vals)) (w, WOk l) = true ->
  mem w (t_done ts) = false /\ mem w (t_canc ts) = false /\
  exists rq b, assoc w (t_reqs ts) = Some rq /\ assoc t (t_open ts) = Some b /\
    (forall k, In k (r_need rq) -> In k b) /\
    (forall k, In k (map fst l) -> In k (r_ks rq)) /\
    (forall k, In k (r_ks rq) -> assoc k l = value_of (r_snap rq) vals k).
Proof.
  unfold done_ok. intros H.
  apply andb_true_iff in H. destruct H as [H H3]. apply andb_true_iff in H. destruct H as [H1 H2].
  apply negb_true_iff in H1. apply negb_true_iff in H2. split; [exact H1|]. split; [exact H2|].
  destruct (assoc w (t_reqs ts)) as [rq|]; [|discriminate].
  destruct (assoc t (t_open ts)) as [b|]; [|discriminate].
  apply andb_true_iff in H3. destruct H3 as [Hs Hw]. unfold wok_ok in Hw.
  apply andb_true_iff in Hw. destruct Hw as [Hw Hv]. apply andb_true_iff in Hw. destruct Hw as [Hsub _].
  exists rq, b. split; [reflexivity|]. split; [reflexivity|]. split; [apply subset_In, Hs|].
  split; [apply subset_In, Hsub|].
  intros k Hk. apply option_eqb_eq. apply (proj1 (forallb_forall _ _) Hv k Hk).
Qed.

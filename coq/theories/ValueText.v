(* ValueText.v — C15: values print as GraphQL literals and convert to JSON.
   impl model : Display for ConstValue (value/src/lib.rs): write_quoted with
                the escape table and the \u format regenerated from the source
                (QuotedGen), write_list / write_object separators, integers in
                decimal, enum names verbatim;  Serialize / Deserialize for
                ConstValue (value/src/value_serde.rs) as a tree conversion.
   spec       : a reader for constant values written from the GraphQL grammar
                (Value[Const]: IntValue FloatValue StringValue BooleanValue
                NullValue EnumValue ListValue ObjectValue; ignored tokens), and
                ConstValue's own equality (an enum equals the string of its
                name, object fields compare by key).
   The reader takes two switches so that it can also stand for the real pest
   parser on printed text: [kw] = a value that begins with true/false/null is
   cut after the keyword (graphql.pest: boolean | null before enum_value, no
   word boundary), and [rf] = what the number reader returns for a float
   token (serde_json::Number::from_str — external, supplied per case).
   No proofs here (ValueTextProofs.v). *)
From AG Require Export Base.
From AGgen Require Export QuotedGen.
From Coq Require Decimal DecimalZ.
Open Scope N_scope.

Inductive cval :=
| CNull
| CInt (z : Z)
| CFloat (t : str)         (* the digits serde_json/ryu prints for the f64 *)
| CStr (s : str)
| CBool (b : bool)
| CEnum (n : str)
| CList (l : list cval)
| CObj (l : list (str * cval)).

Inductive json :=
| JNull
| JBool (b : bool)
| JInt (z : Z)
| JFloat (t : str)
| JStr (s : str)
| JArr (l : list json)
| JObj (l : list (str * json)).

Definition str_eqb (a b : str) : bool := list_eqb N.eqb a b.

Fixpoint sassoc {A} (k : str) (l : list (str * A)) : option A :=
  match l with
  | [] => None
  | (k', v) :: l' => if str_eqb k k' then Some v else sassoc k l'
  end.

Fixpoint nassoc {A} (k : N) (l : list (N * A)) : option A :=
  match l with
  | [] => None
  | (k', v) :: l' => if k =? k' then Some v else nassoc k l'
  end.

(* ------------------------------------------------------------- printing -- *)
Definition digit_char (upper : bool) (d : N) : cp :=
  if d <? 10 then 48 + d else (if upper then 55 else 87) + d.

Fixpoint digits_rev (fuel : nat) (radix n : N) : list N :=
  match fuel with
  | O => []
  | S f => if n <? radix then [n] else (n mod radix) :: digits_rev f radix (n / radix)
  end.

Definition pad0 (w : nat) (l : str) : str := repeat 48 (w - length l) ++ l.

(* write!(f, "\\u{:04}", c as u32) with the translated prefix/radix/width *)
Definition print_u (c : cp) : str :=
  quoted_u_prefix_gen ++
  pad0 quoted_u_width_gen
       (map (digit_char quoted_u_upper_gen) (rev (digits_rev 32 quoted_u_radix_gen c))).

(* char::is_control — general category Cc *)
Definition is_control (c : cp) : bool := (c <=? 31) || ((127 <=? c) && (c <=? 159)).

Definition quote_char (c : cp) : str :=
  match nassoc c quoted_table_gen with
  | Some r => r
  | None => if is_control c then print_u c else [c]
  end.

Definition write_quoted (s : str) : str := 34 :: flat_map quote_char s ++ [34].

Fixpoint print_uint (u : Decimal.uint) : str :=
  match u with
  | Decimal.Nil => []
  | Decimal.D0 u => 48 :: print_uint u | Decimal.D1 u => 49 :: print_uint u | Decimal.D2 u => 50 :: print_uint u
  | Decimal.D3 u => 51 :: print_uint u | Decimal.D4 u => 52 :: print_uint u | Decimal.D5 u => 53 :: print_uint u
  | Decimal.D6 u => 54 :: print_uint u | Decimal.D7 u => 55 :: print_uint u | Decimal.D8 u => 56 :: print_uint u
  | Decimal.D9 u => 57 :: print_uint u
  end.

Definition print_Z (z : Z) : str :=
  match Z.to_int z with
  | Decimal.Pos u => print_uint u
  | Decimal.Neg u => 45 :: print_uint u
  end.

Definition T_true : str := [116; 114; 117; 101].
Definition T_false : str := [102; 97; 108; 115; 101].
Definition T_null : str := [110; 117; 108; 108].

(* Display for ConstValue *)
Fixpoint display (v : cval) : str :=
  match v with
  | CNull => T_null
  | CInt z => print_Z z
  | CFloat t => t
  | CStr s => write_quoted s
  | CBool true => T_true
  | CBool false => T_false
  | CEnum n => n
  | CList l =>
      91 :: (fix go (l : list cval) : str :=
               match l with
               | [] => []
               | x :: r => display x ++ match r with [] => [] | _ => list_sep_gen ++ go r end
               end) l ++ [93]
  | CObj l =>
      123 :: (fix go (l : list (str * cval)) : str :=
                match l with
                | [] => []
                | (k, x) :: r => k ++ field_sep_gen ++ display x ++
                                 match r with [] => [] | _ => list_sep_gen ++ go r end
                end) l ++ [125]
  end.

(* -------------------------------------------------------------- reading -- *)
Definition is_digit (c : cp) : bool := (48 <=? c) && (c <=? 57).
Definition is_name_start (c : cp) : bool :=
  ((65 <=? c) && (c <=? 90)) || ((97 <=? c) && (c <=? 122)) || (c =? 95).
Definition is_name_char (c : cp) : bool := is_name_start c || is_digit c.
(* space, tab, comma, BOM, LF, CR *)
Definition is_ws (c : cp) : bool :=
  (c =? 32) || (c =? 9) || (c =? 44) || (c =? 65279) || (c =? 10) || (c =? 13).

Fixpoint skip_ign (s : str) : str :=
  match s with
  | [] => []
  | c :: t => if is_ws c then skip_ign t else if c =? 35 then skip_comment t else s
  end
with skip_comment (s : str) : str :=
  match s with
  | [] => []
  | c :: t => if (c =? 10) || (c =? 13) then skip_ign t else skip_comment t
  end.

Fixpoint span (p : cp -> bool) (s : str) : str * str :=
  match s with
  | c :: t => if p c then let '(a, b) := span p t in (c :: a, b) else ([], s)
  | [] => ([], [])
  end.

Fixpoint starts_with (p s : str) : option str :=
  match p, s with
  | [], _ => Some s
  | a :: p', b :: s' => if a =? b then starts_with p' s' else None
  | _, [] => None
  end.

Definition hex_val (c : cp) : option N :=
  if is_digit c then Some (c - 48)
  else if (97 <=? c) && (c <=? 102) then Some (c - 87)
  else if (65 <=? c) && (c <=? 70) then Some (c - 55)
  else None.

(* the characters of a StringValue up to the closing quote *)
Fixpoint read_chars (s : str) (acc : str) : option (str * str) :=
  match s with
  | [] => None
  | c :: t =>
      if c =? 34 then Some (rev acc, t)
      else if c =? 92 then
        match t with
        | e :: t1 =>
            if e =? 117 then
              match t1 with
              | h1 :: h2 :: h3 :: h4 :: t2 =>
                  match hex_val h1, hex_val h2, hex_val h3, hex_val h4 with
                  | Some a, Some b, Some c', Some d =>
                      let v := ((a * 16 + b) * 16 + c') * 16 + d in
                      if (55296 <=? v) && (v <=? 57343) then None    (* surrogate *)
                      else read_chars t2 (v :: acc)
                  | _, _, _, _ => None
                  end
              | _ => None
              end
            else
              match (if e =? 34 then Some 34 else if e =? 92 then Some 92 else if e =? 47 then Some 47
                     else if e =? 98 then Some 8 else if e =? 102 then Some 12 else if e =? 110 then Some 10
                     else if e =? 114 then Some 13 else if e =? 116 then Some 9 else None) with
              | Some v => read_chars t1 (v :: acc)
              | None => None
              end
        | [] => None
        end
      else if (c =? 10) || (c =? 13) then None
      else if (c =? 9) || (32 <=? c) then read_chars t (c :: acc)
      else None
  end.

(* after the opening quote; block strings are outside the modelled subset *)
Definition pstring (t : str) : option (cval * str) :=
  match starts_with [34; 34] t with
  | Some _ => None
  | None => match read_chars t [] with Some (s, rest) => Some (CStr s, rest) | None => None end
  end.

Fixpoint uint_of_digits (s : str) : Decimal.uint :=
  match s with
  | [] => Decimal.Nil
  | c :: t =>
      let u := uint_of_digits t in
      match c - 48 with
      | 0 => Decimal.D0 u | 1 => Decimal.D1 u | 2 => Decimal.D2 u | 3 => Decimal.D3 u | 4 => Decimal.D4 u
      | 5 => Decimal.D5 u | 6 => Decimal.D6 u | 7 => Decimal.D7 u | 8 => Decimal.D8 u | _ => Decimal.D9 u
      end
  end.

Definition read_sign (s : str) : bool * str :=
  match s with c :: t => if c =? 45 then (true, t) else (false, s) | [] => (false, s) end.

(* FractionalPart: None = a dot without digits *)
Definition read_frac (s : str) : option (str * str) :=
  match s with
  | c :: t =>
      if c =? 46 then
        let '(fs, r) := span is_digit t in
        match fs with [] => None | _ => Some (46 :: fs, r) end
      else Some ([], s)
  | [] => Some ([], s)
  end.

(* ExponentPart: None = an exponent marker without digits *)
Definition read_exp (s : str) : option (str * str) :=
  match s with
  | c :: t =>
      if (c =? 101) || (c =? 69) then
        let '(sg, t1) := match t with
                         | g :: t' => if (g =? 43) || (g =? 45) then ([g], t') else ([], t)
                         | [] => ([], t)
                         end in
        let '(es, r) := span is_digit t1 in
        match es with [] => None | _ => Some (c :: sg ++ es, r) end
      else Some ([], s)
  | [] => Some ([], s)
  end.

Definition follow_bad (s : str) : bool :=
  match s with c :: _ => is_name_start c || is_digit c || (c =? 46) | [] => false end.

Section Reader.
  Variable kw : bool.            (* true: pest's boolean | null before enum_value *)
  Variable rf : str -> str.      (* float token -> digits of the float that was read *)

  (* IntValue / FloatValue; [s] starts with '-' or a digit *)
  Definition pnumber (s : str) : option (cval * str) :=
    let '(neg, s1) := read_sign s in
    let '(ds, s2) := span is_digit s1 in
    match ds with
    | [] => None
    | d0 :: dr =>
      if (d0 =? 48) && negb (match dr with [] => true | _ => false end) then None   (* leading zero *)
      else
        match read_frac s2 with
        | None => None
        | Some (frac, s3) =>
          match read_exp s3 with
          | None => None
          | Some (ex, s4) =>
            (* a number may not be followed by a digit, a dot or a name start *)
            if follow_bad s4 then None
            else
              match frac, ex with
              | [], [] =>
                  let u := uint_of_digits ds in
                  Some (CInt (Z.of_int (if neg then Decimal.Neg u else Decimal.Pos u)), s4)
              | _, _ => Some (CFloat (rf ((if neg then [45] else []) ++ ds ++ frac ++ ex)), s4)
              end
          end
        end
    end.

  Definition classify (nm : str) : cval :=
    if str_eqb nm T_true then CBool true
    else if str_eqb nm T_false then CBool false
    else if str_eqb nm T_null then CNull
    else CEnum nm.

  (* [s] starts with a name-start character *)
  Definition pword (s : str) : option (cval * str) :=
    let whole := let '(nm, rest) := span is_name_char s in Some (classify nm, rest) in
    if kw then
      match starts_with T_true s with
      | Some r => Some (CBool true, r)
      | None =>
        match starts_with T_false s with
        | Some r => Some (CBool false, r)
        | None => match starts_with T_null s with Some r => Some (CNull, r) | None => whole end
        end
      end
    else whole.

  Fixpoint pval (n : nat) (s : str) : option (cval * str) :=
    match n with
    | O => None
    | S n' =>
      match skip_ign s with
      | [] => None
      | c :: t =>
          if c =? 91 then plist n' t []
          else if c =? 123 then pobj n' t []
          else if c =? 34 then pstring t
          else if is_name_start c then pword (c :: t)
          else if (c =? 45) || is_digit c then pnumber (c :: t)
          else None
      end
    end
  with plist (n : nat) (s : str) (acc : list cval) : option (cval * str) :=
    match n with
    | O => None
    | S n' =>
      match skip_ign s with
      | [] => None
      | c :: t =>
          if c =? 93 then Some (CList (rev acc), t)
          else match pval n' (c :: t) with
               | Some (v, rest) => plist n' rest (v :: acc)
               | None => None
               end
      end
    end
  with pobj (n : nat) (s : str) (acc : list (str * cval)) : option (cval * str) :=
    match n with
    | O => None
    | S n' =>
      match skip_ign s with
      | [] => None
      | c :: t =>
          if c =? 125 then Some (CObj (rev acc), t)
          else if is_name_start c then
            let '(nm, r1) := span is_name_char (c :: t) in
            match skip_ign r1 with
            | c2 :: r2 =>
                if c2 =? 58 then
                  match pval n' r2 with
                  | Some (v, rest) => pobj n' rest ((nm, v) :: acc)
                  | None => None
                  end
                else None
            | [] => None
            end
          else None
      end
    end.

  (* a whole text: one value, then only ignored characters *)
  Definition read_value (s : str) : option cval :=
    match pval (S (length s)) s with
    | Some (v, rest) => match skip_ign rest with [] => Some v | _ => None end
    | None => None
    end.
End Reader.

Definition read_spec : str -> option cval := read_value false (fun t => t).

(* -------------------------------------------------------------- equality -- *)
(* ConstValue::eq; [strict] distinguishes an enum from the string of its name *)
Fixpoint veq (strict : bool) (a b : cval) {struct a} : bool :=
  match a, b with
  | CNull, CNull => true
  | CInt x, CInt y => Z.eqb x y
  | CFloat x, CFloat y => str_eqb x y
  | CBool x, CBool y => Bool.eqb x y
  | CStr x, CStr y => str_eqb x y
  | CEnum x, CEnum y => str_eqb x y
  | CEnum x, CStr y => negb strict && str_eqb x y
  | CStr x, CEnum y => negb strict && str_eqb x y
  | CList x, CList y =>
      (fix go (x : list cval) (y : list cval) : bool :=
         match x, y with
         | [], [] => true
         | a :: x', b :: y' => veq strict a b && go x' y'
         | _, _ => false
         end) x y
  | CObj x, CObj y =>
      Nat.eqb (length x) (length y) &&
      (fix go (x : list (str * cval)) : bool :=
         match x with
         | [] => true
         | (k, a) :: x' =>
             match sassoc k y with Some b => veq strict a b | None => false end && go x'
         end) x
  | _, _ => false
  end.

Definition oveq (strict : bool) (a b : option cval) : bool :=
  match a, b with
  | Some x, Some y => veq strict x y
  | None, None => true
  | _, _ => false
  end.

Fixpoint jeq (a b : json) {struct a} : bool :=
  match a, b with
  | JNull, JNull => true
  | JBool x, JBool y => Bool.eqb x y
  | JInt x, JInt y => Z.eqb x y
  | JFloat x, JFloat y => str_eqb x y
  | JStr x, JStr y => str_eqb x y
  | JArr x, JArr y =>
      (fix go (x : list json) (y : list json) : bool :=
         match x, y with
         | [], [] => true
         | a :: x', b :: y' => jeq a b && go x' y'
         | _, _ => false
         end) x y
  | JObj x, JObj y =>
      Nat.eqb (length x) (length y) &&
      (fix go (x : list (str * json)) : bool :=
         match x with
         | [] => true
         | (k, a) :: x' => match sassoc k y with Some b => jeq a b | None => false end && go x'
         end) x
  | _, _ => false
  end.

(* ------------------------------------------------------------------ JSON -- *)
(* Serialize for ConstValue into the serde_json data model *)
Fixpoint to_json (v : cval) : json :=
  match v with
  | CNull => JNull
  | CInt z => JInt z
  | CFloat t => JFloat t
  | CStr s => JStr s
  | CBool b => JBool b
  | CEnum n => JStr n
  | CList l => JArr (map to_json l)
  | CObj l => JObj (map (fun kv => (fst kv, to_json (snd kv))) l)
  end.

(* IndexMap::insert: an existing key keeps its place and takes the new value *)
Fixpoint map_insert {A} (k : str) (v : A) (m : list (str * A)) : list (str * A) :=
  match m with
  | [] => [(k, v)]
  | (k', v') :: m' => if str_eqb k k' then (k', v) :: m' else (k', v') :: map_insert k v m'
  end.

(* Deserialize for ConstValue (ValueVisitor); [rf] is applied to the floats
   (identity for a serde_json::Value tree, the number reader for JSON text) *)
Fixpoint from_json (rf : str -> str) (j : json) : cval :=
  match j with
  | JNull => CNull
  | JBool b => CBool b
  | JInt z => CInt z
  | JFloat t => CFloat (rf t)
  | JStr s => CStr s
  | JArr l => CList (map (from_json rf) l)
  | JObj l => CObj (fold_left (fun m kv => map_insert (fst kv) (from_json rf (snd kv)) m) l [])
  end.

(* what a value becomes on the way through JSON: enums turn into strings *)
Fixpoint enum_to_str (v : cval) : cval :=
  match v with
  | CEnum n => CStr n
  | CList l => CList (map enum_to_str l)
  | CObj l => CObj (map (fun kv => (fst kv, enum_to_str (snd kv))) l)
  | _ => v
  end.

(* --------------------------------------------------------- well-formed ---- *)
Definition is_name (n : str) : bool :=
  match n with c :: t => is_name_start c && forallb is_name_char t | [] => false end.

Definition is_keyword (n : str) : bool := str_eqb n T_true || str_eqb n T_false || str_eqb n T_null.

Fixpoint nodup_keys {A} (l : list (str * A)) : bool :=
  match l with
  | [] => true
  | (k, _) :: r => match sassoc k r with Some _ => false | None => nodup_keys r end
  end.

(* the float texts serde_json prints: -?digits(.digits)?(e-?digits)? with a
   fraction or an exponent, no leading zero *)
Definition wf_float (t : str) : bool :=
  match pnumber (fun x => x) t with
  | Some (CFloat t', []) => str_eqb t t'
  | _ => false
  end.

Fixpoint wf (v : cval) : bool :=
  match v with
  | CNull | CInt _ | CStr _ | CBool _ => true
  | CFloat t => wf_float t
  | CEnum n => is_name n && negb (is_keyword n)
  | CList l => forallb wf l
  | CObj l => forallb (fun kv => is_name (fst kv) && wf (snd kv)) l && nodup_keys l
  end.

(* --------------------------------------------------------- known classes -- *)
(* 1: a string holds a control character that the \u arm prints with digits
      that do not read back as the character (decimal digits: 10 and above) *)
Definition bad_ctrl (c : cp) : bool :=
  is_control c && (10 <=? c) && match nassoc c quoted_table_gen with Some _ => false | None => true end.

(* 2: an enum name that begins with true / false / null *)
Definition kw_prefix (n : str) : bool :=
  match starts_with T_true n, starts_with T_false n, starts_with T_null n with
  | None, None, None => false
  | _, _, _ => true
  end.

Fixpoint exists_val (p : cval -> bool) (v : cval) : bool :=
  p v ||
  match v with
  | CList l => existsb (exists_val p) l
  | CObj l => existsb (fun kv => exists_val p (snd kv)) l
  | _ => false
  end.

Definition has_bad_ctrl (v : cval) : bool :=
  exists_val (fun x => match x with CStr s => existsb bad_ctrl s | _ => false end) v.
Definition has_kw_enum (v : cval) : bool :=
  exists_val (fun x => match x with CEnum n => kw_prefix n | _ => false end) v.
Definition has_inexact_float (rf : str -> str) (v : cval) : bool :=
  exists_val (fun x => match x with CFloat t => negb (str_eqb (rf t) t) | _ => false end) v.

(* ----------------------------------------------------------------- check -- *)
Definition oracle (fl : list (str * str)) (t : str) : str :=
  match sassoc t fl with Some r => r | None => t end.

(* the real parser on printed text *)
Definition read_impl (fl : list (str * str)) : str -> option cval := read_value true (oracle fl).

Definition pp_ok (v : cval) (d : str) (r : option cval) : bool :=
  oveq false (Some v) (read_spec d) && oveq false (Some v) r.

Definition check_pp (c : cval * str * option cval * list (str * str)) : N :=
  let '(v, d, r, fl) := c in
  let dm := display v in
  let rm := read_impl fl dm in
  let known := if has_bad_ctrl v then 1 else if has_kw_enum v then 2
               else if has_inexact_float (oracle fl) v then 3 else 0 in
  verdict (str_eqb d dm && oveq true r rm) (pp_ok v dm rm) (pp_ok v d r) known.

Fixpoint map_floats (rf : str -> str) (v : cval) : cval :=
  match v with
  | CFloat t => CFloat (rf t)
  | CList l => CList (map (map_floats rf) l)
  | CObj l => CObj (map (fun kv => (fst kv, map_floats rf (snd kv))) l)
  | _ => v
  end.

Definition json_ok (v : cval) (r1 r2 : option cval) : bool :=
  oveq false (Some v) r1 && oveq false (Some v) r2.

(* (value, serde_json::Value, deserialize(value tree), from_str(to_string)) *)
Definition check_json (c : cval * json * option cval * option cval * list (str * str)) : N :=
  let '(v, j, r1, r2, fl) := c in
  let jm := to_json v in
  let m1 := Some (from_json (fun t => t) jm) in
  let m2 := Some (from_json (oracle fl) jm) in
  let known := if has_inexact_float (oracle fl) v then 3 else 0 in
  verdict (jeq j jm && oveq true r1 m1 && oveq true r2 m2) (json_ok v m1 m2) (json_ok v r1 r2) known.

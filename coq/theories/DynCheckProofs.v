(* DynCheckProofs.v — C33: lemmas and proofs about DynCheck.v (no model
   definitions here). *)
From AG Require Import DynCheck.
Open Scope N_scope.

(* ------------------------------------------------------------- plumbing -- *)
Lemma okb_first_err {A} (f : A -> outcome unit) l :
  okb (first_err f l) = forallb (fun x => okb (f x)) l.
Proof.
  induction l as [|x l IH]; simpl; [reflexivity|].
  destruct (f x) as [u|c| |]; simpl; auto.
Qed.

Lemma okb_andthen (a b : outcome unit) : okb (a >> b) = okb a && okb b.
Proof. destruct a; reflexivity. Qed.

Lemma okb_guard b c : okb (guard b c) = negb b.
Proof. destruct b; reflexivity. Qed.

Lemma okb_true (o : outcome unit) : okb o = true <-> o = Ok tt.
Proof. destruct o as [[]|c| |]; simpl; split; intro H; try discriminate; reflexivity. Qed.

Lemma first_err_cases {A} (f : A -> outcome unit) l r :
  first_err f l = r -> r = Ok tt \/ exists x, In x l /\ f x = r.
Proof.
  revert r; induction l as [|x l IH]; simpl; intros r H.
  - left; symmetry; exact H.
  - destruct (f x) as [[]|c| |] eqn:E; simpl in H.
    + destruct (IH _ H) as [->|[y [Hy Hr]]]; [left; reflexivity|right; exists y; auto].
    + right; exists x; subst; auto.
    + right; exists x; subst; auto.
    + right; exists x; subst; auto.
Qed.

Lemma first_err_ok {A} (f : A -> outcome unit) l :
  first_err f l = Ok tt <-> forall x, In x l -> f x = Ok tt.
Proof.
  rewrite <- okb_true, okb_first_err, forallb_forall.
  split; intros H x Hx; apply okb_true; auto.
Qed.

Lemma forallb_and {A} (f g : A -> bool) l :
  forallb f l && forallb g l = forallb (fun x => f x && g x) l.
Proof.
  induction l as [|x l IH]; simpl; [reflexivity|]. rewrite <- IH.
  destruct (f x), (g x), (forallb f l), (forallb g l); reflexivity.
Qed.

Lemma forallb_ext_in {A} (f g : A -> bool) l :
  (forall x, In x l -> f x = g x) -> forallb f l = forallb g l.
Proof.
  induction l as [|x l IH]; simpl; intros H; [reflexivity|].
  rewrite (H x (or_introl eq_refl)), IH; auto.
Qed.

Lemma forallb_flat_map {A B} (p : B -> bool) (g : A -> list B) l :
  forallb p (flat_map g l) = forallb (fun x => forallb p (g x)) l.
Proof.
  induction l as [|x l IH]; simpl; [reflexivity|]. rewrite forallb_app, IH; reflexivity.
Qed.

Lemma forallb_map {A B} (p : B -> bool) (g : A -> B) l :
  forallb p (map g l) = forallb (fun x => p (g x)) l.
Proof. induction l as [|x l IH]; simpl; [reflexivity|]. rewrite IH; reflexivity. Qed.

Lemma forallb_const_and {A} (f : A -> bool) (b : bool) l :
  l <> [] -> forallb (fun x => f x && b) l = forallb f l && b.
Proof.
  induction l as [|x l IH]; intros Hne; [congruence|]. simpl.
  destruct l as [|y l'].
  - simpl. destruct (f x), b; reflexivity.
  - rewrite IH by discriminate. destruct (f x), b, (forallb f (y :: l')); reflexivity.
Qed.

Lemma first_nz_zero {A} (f : A -> N) l :
  first_nz f l = 0 <-> forall x, In x l -> f x = 0.
Proof.
  induction l as [|x l IH]; simpl.
  - split; [intros _ y []|reflexivity].
  - destruct (N.eqb (f x) 0) eqn:E.
    + apply N.eqb_eq in E. rewrite IH. split.
      * intros H y [<-|Hy]; auto.
      * intros H y Hy; auto.
    + apply N.eqb_neq in E. split; [intros H; contradiction|].
      intros H. exfalso; apply E, H; left; reflexivity.
Qed.

(* ---------------------------------------------------------- type refs ---- *)
Lemma tref_eqb_eq a b : tref_eqb a b = true <-> a = b.
Proof.
  revert b; induction a as [n|a IH|a IH]; intros [m|b|b]; simpl;
    try (split; [discriminate|intros H; inversion H]).
  - rewrite name_eqb_eq. split; [intros ->; reflexivity|intros H; inversion H; reflexivity].
  - rewrite IH. split; [intros ->; reflexivity|intros H; inversion H; reflexivity].
  - rewrite IH. split; [intros ->; reflexivity|intros H; inversion H; reflexivity].
Qed.

Lemma tref_eqb_refl a : tref_eqb a a = true.
Proof. apply tref_eqb_eq; reflexivity. Qed.

Lemma is_subtype_refl t : is_subtype t t = true.
Proof. induction t; simpl; auto using name_eqb_refl. Qed.

Lemma is_subtype_erase s : forall c, is_subtype c s = true -> erase c = erase s.
Proof.
  induction s as [b|s IH|s IH]; intros c H; simpl in H.
  - destruct c; try discriminate. apply name_eqb_eq in H; subst; reflexivity.
  - destruct c as [n|c|c]; simpl.
    + apply (IH (TNamed n)); exact H.
    + apply IH; exact H.
    + apply (IH (TList c)); exact H.
  - destruct c as [n|c|c]; try discriminate. simpl. f_equal. apply IH; exact H.
Qed.

Lemma spec_field_type_ok_refl ts t : spec_field_type_ok ts t t = true.
Proof.
  induction t as [n|t IH|t IH]; simpl; auto.
  rewrite name_eqb_refl; reflexivity.
Qed.

(* is_subtype coincides with equality / with the spec's covariance outside
   the nullability and named-covariance classes *)
Lemma subtype_vs_eq a b :
  negb (tref_eqb b a) && tref_eqb (erase b) (erase a) = false ->
  is_subtype a b = tref_eqb b a.
Proof.
  intros H. destruct (tref_eqb b a) eqn:E.
  - apply tref_eqb_eq in E; subst. apply is_subtype_refl.
  - simpl in H. destruct (is_subtype a b) eqn:S; [|reflexivity].
    apply is_subtype_erase in S. rewrite S, tref_eqb_refl in H. discriminate.
Qed.

Lemma subtype_vs_compat ts m i :
  negb (tref_eqb m i) && tref_eqb (erase m) (erase i) = false ->
  negb (tref_eqb (erase m) (erase i)) && spec_field_type_ok ts m i = false ->
  is_subtype m i = spec_field_type_ok ts m i.
Proof.
  intros H1 H2. destruct (tref_eqb m i) eqn:E.
  - apply tref_eqb_eq in E; subst. rewrite is_subtype_refl, spec_field_type_ok_refl; reflexivity.
  - simpl in H1. rewrite H1 in H2. simpl in H2. rewrite H2.
    destruct (is_subtype m i) eqn:S; [|reflexivity].
    apply is_subtype_erase in S. rewrite S, tref_eqb_refl in H1. discriminate.
Qed.

(* ------------------------------------------------- implementation pairs -- *)
Section Impl.
  Variable ts : tsys.

  Lemma kc_pair_zero mf f :
    kc_pair ts mf f = 0 ->
    negb (tref_eqb (f_ty mf) (f_ty f)) && tref_eqb (erase (f_ty mf)) (erase (f_ty f)) = false /\
    negb (tref_eqb (erase (f_ty mf)) (erase (f_ty f))) && spec_field_type_ok ts (f_ty mf) (f_ty f) = false /\
    existsb (fun a => match find_arg (a_name a) (f_args mf) with
                      | Some ma => negb (tref_eqb (a_ty ma) (a_ty a)) &&
                                   tref_eqb (erase (a_ty ma)) (erase (a_ty a))
                      | None => false end) (f_args f) = false /\
    existsb (fun ma => match find_arg (a_name ma) (f_args f) with
                       | Some _ => false | None => required ma end) (f_args mf) = false /\
    existsb (fun a => match find_arg (a_name a) (f_args mf) with
                      | Some _ => false | None => is_nullable (a_ty a) end) (f_args f) = false.
  Proof.
    unfold kc_pair. intros H.
    destruct (negb (tref_eqb (f_ty mf) (f_ty f)) && tref_eqb (erase (f_ty mf)) (erase (f_ty f))); [discriminate|].
    destruct (negb (tref_eqb (erase (f_ty mf)) (erase (f_ty f))) && spec_field_type_ok ts (f_ty mf) (f_ty f)); [discriminate|].
    destruct (existsb _ (f_args f)); [discriminate|].
    destruct (existsb _ (f_args mf)); [discriminate|].
    destruct (existsb _ (f_args f)); [discriminate|].
    repeat split.
  Qed.

  Lemma existsb_false {A} (p : A -> bool) l :
    existsb p l = false -> forall x, In x l -> p x = false.
  Proof.
    intros H x Hx. destruct (p x) eqn:E; [|reflexivity].
    assert (existsb p l = true) by (apply existsb_exists; exists x; auto). congruence.
  Qed.

  Lemma impl_field_agree mfs f :
    match find_fld (f_name f) mfs with Some mf => kc_pair ts mf f | None => 0 end = 0 ->
    okb (check_impl_field mfs f) = spec_valid_impl_field ts mfs f.
  Proof.
    unfold check_impl_field, spec_valid_impl_field.
    destruct (find_fld (f_name f) mfs) as [mf|]; [|reflexivity].
    intros H. apply kc_pair_zero in H. destruct H as (H1 & H2 & H3 & H4 & H5).
    rewrite okb_andthen, okb_first_err, okb_guard, negb_involutive.
    rewrite (subtype_vs_compat ts _ _ H1 H2).
    assert (E4 : forallb (fun ma => match find_arg (a_name ma) (f_args f) with
                                    | Some _ => true | None => negb (required ma) end) (f_args mf) = true).
    { apply forallb_forall. intros ma Hma. pose proof (existsb_false _ _ H4 ma Hma) as E.
      cbv beta in E. destruct (find_arg (a_name ma) (f_args f)); [reflexivity|]. rewrite E; reflexivity. }
    rewrite E4, andb_true_r. f_equal.
    apply forallb_ext_in. intros a Ha.
    pose proof (existsb_false _ _ H3 a Ha) as E3. pose proof (existsb_false _ _ H5 a Ha) as E5.
    cbv beta in E3, E5. unfold check_impl_arg.
    destruct (find_arg (a_name a) (f_args mf)) as [ma|].
    - rewrite okb_guard, negb_involutive. apply subtype_vs_eq. exact E3.
    - rewrite okb_guard, E5. reflexivity.
  Qed.
End Impl.

(* ------------------------------------------------ input-object cycles ---- *)
Lemma assoc_In {A} (l : list (name * A)) n d : assoc n l = Some d -> In (n, d) l.
Proof.
  induction l as [|[k v] l IH]; simpl; [discriminate|].
  destruct (name_eqb n k) eqn:E.
  - apply name_eqb_eq in E; subst. intros H; inversion H; subst; auto.
  - auto.
Qed.

Section Cycles.
  Variable ts : tsys.

  Lemma has_kind_input m :
    has_kind ts KInputObject m = true <-> exists fs, lookup_input ts m = Some fs.
  Proof.
    unfold has_kind, kind_of, spec_lookup, lookup_input.
    destruct (lookup ts m) as [[]|]; simpl; split; intros H;
      try discriminate; try (destruct H; discriminate); eauto.
  Qed.

  Lemma succ_elem f y :
    In y (match a_ty f with
          | TNonNull (TNamed m) => if has_kind ts KInputObject m then [m] else []
          | _ => [] end) <->
    nn_name (a_ty f) = Some y /\ has_kind ts KInputObject y = true.
  Proof.
    unfold nn_name. destruct (a_ty f) as [k|[m|t|t]|t]; simpl;
      try (split; [tauto|intros [H _]; discriminate]).
    destruct (has_kind ts KInputObject m) eqn:E; simpl.
    - split; [intros [<-|[]]; auto|intros [H _]; inversion H; auto].
    - split; [tauto|]. intros [H1 H2]. inversion H1; subst. congruence.
  Qed.

  Lemma in_succ_of fs y :
    In y (succ_of ts fs) <->
    exists f, In f fs /\ nn_name (a_ty f) = Some y /\ has_kind ts KInputObject y = true.
  Proof.
    unfold succ_of. rewrite in_flat_map. split; intros [f [Hf H]]; exists f; split; auto;
      apply succ_elem; exact H.
  Qed.

  (* a chain of `T!` input fields from the field list [fs] to [t] through the
     input objects [l] *)
  Inductive fwalk : list arg -> list name -> name -> Prop :=
  | fw_hit fs t : In t (succ_of ts fs) -> fwalk fs [] t
  | fw_step fs y fs2 l t :
      In y (succ_of ts fs) -> lookup_input ts y = Some fs2 -> fwalk fs2 l t -> fwalk fs (y :: l) t.

  Lemma fwalk_suffix l1 : forall fs y l2 t,
    fwalk fs (l1 ++ y :: l2) t -> exists fsY, lookup_input ts y = Some fsY /\ fwalk fsY l2 t.
  Proof.
    induction l1 as [|a l1 IH]; simpl; intros fs y l2 t H; inversion H; subst; eauto.
  Qed.

  Definition adequate (fuel : nat) (chain : list name) : Prop :=
    NoDup chain /\ incl chain (input_names ts) /\ (length (input_names ts) < fuel + length chain)%nat.

  Lemma in_input_names y fs : lookup_input ts y = Some fs -> In y (input_names ts).
  Proof.
    unfold lookup_input, lookup, input_names.
    destruct (assoc y (all_types ts)) as [d|] eqn:E; [|discriminate].
    apply assoc_In in E. destruct d; try discriminate. intros _.
    apply in_map_iff. eexists; split; [|apply filter_In; split; [exact E|reflexivity]]. reflexivity.
  Qed.

  Lemma adequate_step fuel chain y :
    adequate (S fuel) chain -> ~ In y chain -> In y (input_names ts) -> adequate fuel (y :: chain).
  Proof.
    intros (H1 & H2 & H3) Hy Hin. repeat split.
    - constructor; assumption.
    - intros z [<-|Hz]; auto.
    - simpl. lia.
  Qed.

  Lemma adequate_pos fuel chain : adequate fuel chain -> fuel <> O.
  Proof.
    intros (H1 & H2 & H3). pose proof (NoDup_incl_length H1 H2). lia.
  Qed.

  Definition stepf (fuel' : nat) (cur : name) (chain : list name) (f : arg) : outcome unit :=
    match nn_name (a_ty f) with
    | Some this =>
        if name_eqb this cur then Err 18
        else match lookup_input ts this with
             | Some fs2 => if mem this chain then Ok tt
                           else ref_check ts fuel' cur (this :: chain) fs2
             | None => Ok tt
             end
    | None => Ok tt
    end.

  Lemma ref_check_S fuel' cur chain fs :
    ref_check ts (S fuel') cur chain fs = first_err (stepf fuel' cur chain) fs.
  Proof. reflexivity. Qed.

  Lemma ref_complete : forall k l, length l = k -> forall fs chain fuel cur,
    fwalk fs l cur -> (forall y, In y l -> ~ In y chain) -> adequate fuel chain ->
    ref_check ts fuel cur chain fs <> Ok tt.
  Proof.
    induction k as [k IH] using lt_wf_ind.
    intros l Hl fs chain fuel cur W Hav Had.
    destruct fuel as [|fuel']; [exfalso; exact (adequate_pos _ _ Had eq_refl)|].
    rewrite ref_check_S. intros HOk0. pose proof (proj1 (first_err_ok _ _) HOk0) as HOk.
    inversion W as [fs' t Hin|fs' y fs2 l0 t Hin Hy W2]; subst.
    - apply in_succ_of in Hin. destruct Hin as (f & Hf & Hnn & _).
      specialize (HOk f Hf). unfold stepf in HOk. rewrite Hnn, name_eqb_refl in HOk. discriminate.
    - apply in_succ_of in Hin. destruct Hin as (f & Hf & Hnn & Hk).
      specialize (HOk f Hf). unfold stepf in HOk. rewrite Hnn in HOk.
      destruct (name_eqb y cur) eqn:E; [discriminate|]. rewrite Hy in HOk.
      destruct (mem y chain) eqn:M.
      { apply mem_In in M. exact (Hav y (or_introl eq_refl) M). }
      destruct (in_dec N.eq_dec y l0) as [Hin|Hnin].
      + apply in_split in Hin. destruct Hin as (l1 & l2 & ->).
        destruct (fwalk_suffix _ _ _ _ _ W2) as (fsY & LY & WY).
        rewrite Hy in LY. inversion LY; subst fsY.
        assert (W' : fwalk fs (y :: l2) cur).
        { eapply fw_step; eauto. apply in_succ_of. exists f; auto. }
        refine (IH (length (y :: l2)) _ (y :: l2) eq_refl fs chain (S fuel') cur W' _ Had _).
        * unfold name in *. simpl. rewrite app_length. simpl. lia.
        * intros z Hz. apply Hav. destruct Hz as [<-|Hz]; [left; reflexivity|].
          right. apply in_or_app. right. right. exact Hz.
        * rewrite ref_check_S. exact HOk0.
      + refine (IH (length l0) _ l0 eq_refl fs2 (y :: chain) fuel' cur W2 _ _ HOk).
        * simpl. lia.
        * intros z Hz [<-|Hc]; [exact (Hnin Hz)|]. exact (Hav z (or_intror Hz) Hc).
        * apply adequate_step; auto.
          -- intros Hc. apply mem_In in Hc. congruence.
          -- eapply in_input_names; eauto.
  Qed.

  Lemma ref_sound : forall fuel cur chain fs c,
    (exists fs0, lookup_input ts cur = Some fs0) -> NoDup chain ->
    ref_check ts fuel cur chain fs = Err c ->
    exists l, fwalk fs l cur /\ NoDup (l ++ chain) /\ incl l (input_names ts).
  Proof.
    induction fuel as [|fuel' IH]; intros cur chain fs c Hcur ND H; [discriminate|].
    rewrite ref_check_S in H. apply first_err_cases in H.
    destruct H as [H|(f & Hf & H)]; [discriminate|].
    unfold stepf in H. destruct (nn_name (a_ty f)) as [this|] eqn:Hnn; [|discriminate].
    destruct (name_eqb this cur) eqn:E.
    - apply name_eqb_eq in E; subst this. exists []. repeat split.
      + apply fw_hit. apply in_succ_of. exists f. repeat split; auto. apply has_kind_input; exact Hcur.
      + exact ND.
      + intros z [].
    - destruct (lookup_input ts this) as [fs2|] eqn:L; [|discriminate].
      destruct (mem this chain) eqn:M; [discriminate|].
      assert (Hni : ~ In this chain) by (intros Hc; apply mem_In in Hc; congruence).
      destruct (IH cur (this :: chain) fs2 c Hcur (NoDup_cons _ Hni ND) H) as (l & W & NDl & Hincl).
      exists (this :: l). repeat split.
      + eapply fw_step; eauto. apply in_succ_of. exists f. repeat split; auto.
        apply has_kind_input; eauto.
      + simpl. constructor.
        * exact (NoDup_remove_2 _ _ _ NDl).
        * exact (NoDup_remove_1 _ _ _ NDl).
      + intros z [<-|Hz]; [eapply in_input_names; eauto|auto].
  Qed.

  Lemma ref_total : forall fuel cur chain fs,
    adequate fuel chain ->
    ref_check ts fuel cur chain fs = Ok tt \/ exists c, ref_check ts fuel cur chain fs = Err c.
  Proof.
    induction fuel as [|fuel' IH]; intros cur chain fs Had.
    - exfalso; exact (adequate_pos _ _ Had eq_refl).
    - destruct (ref_check ts (S fuel') cur chain fs) as [[]|c| |] eqn:R; eauto; exfalso;
        rewrite ref_check_S in R; apply first_err_cases in R;
        destruct R as [R|(f & Hf & R)]; try discriminate;
        unfold stepf in R;
        (destruct (nn_name (a_ty f)) as [this|]; [|discriminate]);
        (destruct (name_eqb this cur); [discriminate|]);
        (destruct (lookup_input ts this) as [fs2|] eqn:L; [|discriminate]);
        (destruct (mem this chain) eqn:M; [discriminate|]);
        (assert (Had' : adequate fuel' (this :: chain));
         [apply adequate_step; auto;
          [intros Hc; apply mem_In in Hc; congruence|eapply in_input_names; eauto]|]);
        destruct (IH cur (this :: chain) fs2 Had') as [E|[c E]]; congruence.
  Qed.

  Lemma adequate_top : adequate (ref_fuel ts) [].
  Proof.
    unfold adequate, ref_fuel. repeat split; [constructor|intros z []|simpl; lia].
  Qed.

  Lemma req_succ_input x fs : lookup_input ts x = Some fs -> req_succ ts x = succ_of ts fs.
  Proof.
    unfold lookup_input, req_succ, spec_lookup.
    destruct (lookup ts x) as [[]|]; try discriminate. intros H; inversion H; reflexivity.
  Qed.

  Lemma req_reaches_unfold k t x :
    req_reaches ts k t x =
    existsb (fun y => name_eqb y t || match k with O => false | S k' => req_reaches ts k' t y end)
            (req_succ ts x).
  Proof. destruct k; reflexivity. Qed.

  Lemma reaches_iff : forall k t x fs,
    lookup_input ts x = Some fs ->
    (req_reaches ts k t x = true <-> exists l, (length l <= k)%nat /\ fwalk fs l t).
  Proof.
    induction k as [|k IH]; intros t x fs L; rewrite req_reaches_unfold, (req_succ_input _ _ L),
      existsb_exists.
    - split.
      + intros (y & Hy & H). rewrite orb_false_r in H. apply name_eqb_eq in H; subst.
        exists []. split; [simpl; lia|]. apply fw_hit; exact Hy.
      + intros (l & Hl & W). destruct l; [|simpl in Hl; lia]. inversion W; subst.
        exists t. split; auto. rewrite name_eqb_refl. reflexivity.
    - split.
      + intros (y & Hy & H). apply orb_true_iff in H. destruct H as [H|H].
        * apply name_eqb_eq in H; subst. exists []. split; [simpl; lia|]. apply fw_hit; exact Hy.
        * pose proof Hy as Hy'. apply in_succ_of in Hy'. destruct Hy' as (f & _ & _ & Hk).
          apply has_kind_input in Hk. destruct Hk as [fs2 L2].
          apply (IH t y fs2 L2) in H. destruct H as (l & Hl & W).
          exists (y :: l). split; [simpl; lia|]. eapply fw_step; eauto.
      + intros (l & Hl & W). inversion W as [fs' t' Hin|fs' y fs2 l0 t' Hin Hy W2]; subst.
        * exists t. split; auto. rewrite name_eqb_refl. reflexivity.
        * exists y. split; auto. apply orb_true_iff. right.
          apply (IH t y fs2 Hy). exists l0. split; [simpl in Hl; lia|exact W2].
  Qed.

  Lemma ref_check_acyclic n fs o :
    lookup ts n = Some (DInput fs o) ->
    okb (ref_check ts (ref_fuel ts) n [] fs) = spec_acyclic ts n.
  Proof.
    intros L0. assert (L : lookup_input ts n = Some fs) by (unfold lookup_input; rewrite L0; reflexivity).
    unfold spec_acyclic. change (spec_input_names ts) with (input_names ts).
    destruct (req_reaches ts (length (input_names ts)) n n) eqn:RR; cbn [negb].
    - apply (reaches_iff _ _ _ _ L) in RR. destruct RR as (l & _ & W).
      destruct (okb (ref_check ts (ref_fuel ts) n [] fs)) eqn:O; [|reflexivity].
      apply okb_true in O. exfalso.
      exact (ref_complete _ l eq_refl fs [] _ n W (fun _ _ H => H) adequate_top O).
    - apply okb_true. destruct (ref_total (ref_fuel ts) n [] fs adequate_top) as [E|[c E]]; [exact E|].
      exfalso. destruct (ref_sound _ _ _ _ _ (ex_intro _ fs L) (NoDup_nil _) E) as (l & W & NDl & Hincl).
      rewrite app_nil_r in NDl. pose proof (NoDup_incl_length NDl Hincl) as Hlen.
      assert (R : req_reaches ts (length (input_names ts)) n n = true).
      { apply (reaches_iff _ _ _ _ L). exists l. split; auto. }
      congruence.
  Qed.
End Cycles.

(* ------------------------------------------------------------ per type ---- *)
Require Import Btauto.

Section Types.
  Variable ts : tsys.

  (* the graph lemma (proved in section Cycles below, stated here as a
     section hypothesis and discharged at the end of the file) *)
  Hypothesis ref_check_acyclic : forall n fs o,
    lookup ts n = Some (DInput fs o) ->
    okb (ref_check ts (ref_fuel ts) n [] fs) = spec_acyclic ts n.

  Lemma output_name_code n :
    is_output_name ts n =
    exists_b ts n && negb (match lookup ts n with Some d => negb (is_output_def d) | None => false end).
  Proof.
    unfold is_output_name, exists_b, spec_lookup. destruct (lookup ts n) as [[]|]; reflexivity.
  Qed.

  Lemma input_name_code n :
    is_input_name ts n =
    exists_b ts n && negb (match lookup ts n with Some d => negb (is_input_def d) | None => false end).
  Proof.
    unfold is_input_name, kind_of, exists_b, spec_lookup. destruct (lookup ts n) as [[]|]; reflexivity.
  Qed.

  Lemma object_name_code n :
    has_kind ts KObject n =
    exists_b ts n && negb (match lookup ts n with Some (DObject _ _) | None => false | Some _ => true end).
  Proof.
    unfold has_kind, kind_of, exists_b, spec_lookup. destruct (lookup ts n) as [[]|]; reflexivity.
  Qed.

  Lemma okb_names_exist l : okb (names_exist ts l) = forallb (exists_b ts) l.
  Proof.
    unfold names_exist. rewrite okb_first_err. apply forallb_ext_in. intros n _.
    rewrite okb_guard, negb_involutive. reflexivity.
  Qed.

  Lemma args_agree args :
    forallb (exists_b ts) (map (fun a => type_name (a_ty a)) args) && okb (check_args ts args) =
    spec_args ts args && extra_args ts args.
  Proof.
    unfold check_args, spec_args, extra_args.
    rewrite forallb_map, okb_first_err, !forallb_and. apply forallb_ext_in. intros a _.
    rewrite okb_andthen, !okb_guard, input_name_code. btauto.
  Qed.

  Lemma fields_agree fs :
    okb (names_exist ts (fld_type_names fs)) && forallb (fun f => okb (check_field_head ts f)) fs =
    spec_fields ts fs && extra_fields ts fs.
  Proof.
    rewrite okb_names_exist. unfold fld_type_names, spec_fields, extra_fields.
    rewrite forallb_flat_map, !forallb_and. apply forallb_ext_in. intros f _.
    unfold check_field_head. cbn [forallb]. rewrite !okb_andthen, !okb_guard, output_name_code.
    pose proof (args_agree (f_args f)) as H.
    set (X1 := forallb (exists_b ts) (map (fun a => type_name (a_ty a)) (f_args f))) in *.
    set (X2 := okb (check_args ts (f_args f))) in *.
    set (S1 := spec_args ts (f_args f)) in *. set (S2 := extra_args ts (f_args f)) in *.
    set (e := exists_b ts (type_name (f_ty f))).
    set (o := negb (match lookup ts (type_name (f_ty f)) with Some d => negb (is_output_def d) | None => false end)).
    set (nd := negb (dunder ts (f_name f))).
    transitivity ((e && o && nd) && (X1 && X2)); [btauto|]. rewrite H. btauto.
  Qed.

  Lemma decl_agree fs impls i d :
    lookup ts i = Some d -> kc_decl ts fs impls i = 0 ->
    okb (match d with
         | DInterface ifs _ => check_is_valid_implementation fs ifs
         | _ => Err 10 end) = spec_valid_impl ts fs impls i.
  Proof.
    intros L K. unfold spec_valid_impl, spec_lookup. unfold kc_decl in K. rewrite L in *.
    destruct d as [| | |? ?|ifs iimpls|?|? ?|?]; try reflexivity.
    destruct (forallb (fun j => mem j impls) iimpls); [|discriminate]. simpl in K.
    unfold check_is_valid_implementation. rewrite okb_first_err. simpl.
    apply forallb_ext_in. intros f Hf. apply impl_field_agree.
    exact (proj1 (first_nz_zero _ _) K f Hf).
  Qed.

  Lemma implements_agree fs impls :
    (forall i, In i impls -> kc_decl ts fs impls i = 0) ->
    okb (names_exist ts impls) && okb (check_implements ts fs impls) = spec_implements ts fs impls.
  Proof.
    intros K. rewrite okb_names_exist. unfold check_implements, spec_implements.
    rewrite okb_first_err, forallb_and. apply forallb_ext_in. intros i Hi.
    unfold exists_b. destruct (lookup ts i) as [d|] eqn:L.
    - rewrite <- (decl_agree fs impls i d L (K i Hi)). destruct d; reflexivity.
    - unfold spec_valid_impl, spec_lookup. rewrite L. reflexivity.
  Qed.

  Definition impl_type (nd : name * tdef) : bool :=
    okb (names_exist ts (referenced_names (snd nd))) && okb (check_object ts (snd nd)) &&
    okb (check_input_object ts nd) && okb (check_interface ts nd) && okb (check_union ts (snd nd)).

  Lemma okb_ok : okb (Ok tt : outcome unit) = true. Proof. reflexivity. Qed.

  Lemma type_agree nd :
    lookup ts (fst nd) = Some (snd nd) -> kc_type ts nd = 0 ->
    impl_type nd = spec_type ts nd && extra_def ts (snd nd).
  Proof.
    destruct nd as [n d]. unfold impl_type, kc_type, spec_type, extra_def. cbn [fst snd].
    intros L K. destruct d as [| | |fs impls|fs impls|ms|fs oneof|fs]; try reflexivity.
    - (* object *)
      unfold check_input_object, check_interface. cbn [fst snd referenced_names check_object check_union].
      rewrite okb_ok, !andb_true_r, !okb_andthen, okb_guard, okb_first_err.
      unfold names_exist. rewrite okb_first_err, forallb_app. fold (names_exist ts).
      pose proof (fields_agree fs) as HF. rewrite okb_names_exist in HF.
      pose proof (implements_agree fs impls (proj1 (first_nz_zero _ _) K)) as HI.
      rewrite okb_names_exist in HI.
      assert (E : forall l, forallb (fun x => okb (guard (negb (exists_b ts x)) 1)) l = forallb (exists_b ts) l).
      { intros l. apply forallb_ext_in. intros x _. rewrite okb_guard, negb_involutive. reflexivity. }
      rewrite !E.
      set (A1 := forallb (exists_b ts) (fld_type_names fs)) in *.
      set (A2 := forallb (fun f => okb (check_field_head ts f)) fs) in *.
      set (B1 := forallb (exists_b ts) impls) in *.
      set (B2 := okb (check_implements ts fs impls)) in *.
      set (ne := negb (match fs with [] => true | _ => false end)).
      assert (Hne : match fs with [] => false | _ => true end = ne) by (destruct fs; reflexivity).
      rewrite Hne.
      transitivity ((A1 && A2) && (B1 && B2) && ne); [btauto|]. rewrite HF, HI. btauto.
    - (* interface *)
      unfold check_input_object, check_interface. cbn [fst snd referenced_names check_object check_union].
      rewrite okb_ok, !andb_true_r, okb_first_err.
      destruct fs as [|f0 fs'].
      + destruct impls as [|i0 impls']; [reflexivity|discriminate].
      + set (fs := f0 :: fs') in *.
        assert (K' : existsb (fun i => match lookup ts i with None => true | Some _ => false end) impls = false
                     /\ first_nz (kc_decl ts fs impls) impls = 0).
        { subst fs. destruct (existsb _ impls); [discriminate|]. split; [reflexivity|exact K]. }
        destruct K' as [K1 K2].
        assert (B1 : forallb (exists_b ts) impls = true).
        { apply forallb_forall. intros i Hi. pose proof (existsb_false _ _ K1 i Hi) as E.
          cbv beta in E. unfold exists_b. destruct (lookup ts i); [reflexivity|discriminate]. }
        pose proof (fields_agree fs) as HF.
        pose proof (implements_agree fs impls (proj1 (first_nz_zero _ _) K2)) as HI.
        rewrite okb_names_exist, B1 in HI. simpl in HI.
        assert (E : forallb (fun x => okb (check_field_head ts x >> guard (mem n impls) 19 >> check_implements ts fs impls)) fs
                    = forallb (fun f => okb (check_field_head ts f)) fs && (negb (mem n impls) && okb (check_implements ts fs impls))).
        { rewrite <- forallb_const_and by (subst fs; discriminate).
          apply forallb_ext_in. intros f _. rewrite !okb_andthen, okb_guard. btauto. }
        rewrite E, HI.
        set (A1 := okb (names_exist ts (fld_type_names fs))) in *.
        set (A2 := forallb (fun f => okb (check_field_head ts f)) fs) in *.
        transitivity ((A1 && A2) && (negb (mem n impls) && spec_implements ts fs impls)); [btauto|].
        rewrite HF. btauto.
    - (* union *)
      unfold check_input_object, check_interface. cbn [fst snd referenced_names check_object check_union].
      rewrite okb_ok, !andb_true_r, okb_names_exist, okb_first_err, forallb_and.
      apply forallb_ext_in. intros m _. rewrite okb_guard, object_name_code. reflexivity.
    - (* input object *)
      unfold check_input_object, check_interface. cbn [fst snd referenced_names check_object check_union].
      rewrite okb_ok, !andb_true_r, okb_names_exist, okb_andthen, okb_first_err, forallb_map.
      rewrite (ref_check_acyclic n fs oneof L).
      unfold spec_args, extra_args.
      set (R := spec_acyclic ts n).
      destruct oneof.
      + transitivity (forallb (fun a => is_input_name ts (type_name (a_ty a)) && negb (dunder ts (a_name a)) &&
                                        (is_nullable (a_ty a) && negb (a_default a))) fs && R).
        * rewrite andb_assoc. f_equal. rewrite forallb_and. apply forallb_ext_in. intros a _.
          rewrite !okb_andthen, !okb_guard, input_name_code. btauto.
        * rewrite <- !forallb_and. btauto.
      + transitivity (forallb (fun a => is_input_name ts (type_name (a_ty a)) && negb (dunder ts (a_name a))) fs && R).
        * rewrite andb_assoc. f_equal. rewrite forallb_and. apply forallb_ext_in. intros a _.
          rewrite !okb_andthen, !okb_guard, input_name_code, okb_ok. btauto.
        * rewrite <- !forallb_and. btauto.
    - (* subscription *)
      unfold check_input_object, check_interface. cbn [fst snd referenced_names check_object check_union].
      rewrite okb_ok, !andb_true_r.
      destruct (spec_fields ts fs) eqn:S; [|discriminate]. simpl.
      rewrite okb_names_exist. unfold fld_type_names. rewrite forallb_flat_map.
      unfold spec_fields in S. rewrite forallb_forall in S. apply forallb_forall. intros f Hf.
      specialize (S f Hf). rewrite output_name_code in S. cbn [forallb].
      apply andb_true_iff in S. destruct S as [S1 S2]. apply andb_true_iff in S1. destruct S1 as [S1 _].
      rewrite S1. simpl. rewrite forallb_map. unfold spec_args in S2. rewrite forallb_forall in S2.
      apply forallb_forall. intros a Ha. specialize (S2 a Ha). rewrite input_name_code in S2.
      apply andb_true_iff in S2. tauto.
  Qed.
End Types.

(* ------------------------------------------------------------- assembly ---- *)
Lemma assoc_nodup {A} (l l2 : list (name * A)) n d :
  NoDup (map fst l) -> In (n, d) l -> assoc n (l ++ l2) = Some d.
Proof.
  induction l as [|[k v] l IH]; simpl; intros ND H; [contradiction|].
  inversion ND as [|? ? Hk ND']; subst. destruct H as [E|H].
  - inversion E; subst. rewrite name_eqb_refl. reflexivity.
  - destruct (name_eqb n k) eqn:E.
    + apply name_eqb_eq in E; subst. exfalso. apply Hk. apply in_map_iff. exists (k, d); auto.
    + apply IH; auto.
Qed.

Section Assembly.
  Variable ts : tsys.
  Hypothesis G : forall n fs o,
    lookup ts n = Some (DInput fs o) ->
    okb (ref_check ts (ref_fuel ts) n [] fs) = spec_acyclic ts n.
  Hypothesis ND : NoDup (map fst (ts_types ts)).

  Lemma sub_name_code s :
    lookup ts s <> None ->
    has_kind ts KSubscription s =
    negb (match lookup ts s with Some (DSubscription _) | None => false | Some _ => true end).
  Proof.
    unfold has_kind, kind_of, spec_lookup. destruct (lookup ts s) as [[]|]; try reflexivity. congruence.
  Qed.

  Lemma roots_agree :
    known_class ts = 0 ->
    okb (names_exist ts (ts_query ts :: match ts_mutation ts with Some m => [m] | None => [] end)) &&
    okb (check_root_types ts) = spec_roots ts.
  Proof.
    unfold known_class, check_root_types, spec_roots. intros K.
    rewrite okb_names_exist, !okb_andthen, !okb_guard.
    destruct (ts_mutation ts) as [m|], (ts_subscription ts) as [s|]; cbn [forallb];
      rewrite ?object_name_code; try btauto.
    - rewrite sub_name_code by (destruct (lookup ts s); [discriminate|discriminate K]). btauto.
    - rewrite sub_name_code by (destruct (lookup ts s); [discriminate|discriminate K]). btauto.
  Qed.

  Theorem finish_agree : known_class_all ts = 0 -> okb (finish ts) = spec_valid ts.
  Proof.
    intros K. unfold known_class_all in K.
    destruct (N.eqb (known_class ts) 0) eqn:K0; [apply N.eqb_eq in K0|rewrite K in K0; discriminate].
    unfold finish, check, check_types_exists, check_objects, check_input_objects, check_interfaces,
      check_unions, register_all.
    rewrite !okb_andthen, !okb_first_err.
    set (all := all_types ts).
    set (R := forallb (fun x => okb (guard (mem (fst x) builtin_scalars) 21)) (ts_types ts)).
    set (Nm := okb (names_exist ts (ts_query ts :: match ts_mutation ts with Some m => [m] | None => [] end))).
    set (RT := okb (check_root_types ts)).
    set (E := forallb (fun x => okb (names_exist ts (referenced_names (snd x)))) all).
    set (O := forallb (fun x => okb (check_object ts (snd x))) all).
    set (I := forallb (fun x => okb (check_input_object ts x)) all).
    set (IF := forallb (fun x => okb (check_interface ts x)) all).
    set (U := forallb (fun x => okb (check_union ts (snd x))) all).
    assert (M : forallb (impl_type ts) all = E && O && I && IF && U).
    { subst E O I IF U. rewrite !forallb_and. apply forallb_ext_in. intros nd _. reflexivity. }
    transitivity ((Nm && RT) && (R && (E && O && I && IF && U))); [btauto|].
    rewrite <- M. subst Nm RT. rewrite (roots_agree K0).
    subst all. unfold all_types. rewrite forallb_app.
    assert (B : forallb (impl_type ts) (map (fun n => (n, DScalar)) builtin_scalars) = true) by reflexivity.
    rewrite B, andb_true_r.
    assert (T : R && forallb (impl_type ts) (ts_types ts) =
                forallb (spec_type ts) (ts_types ts) && forallb (extra_type ts) (ts_types ts)).
    { subst R. rewrite !forallb_and. apply forallb_ext_in. intros [n d] Hnd.
      rewrite okb_guard. unfold extra_type. cbn [fst snd].
      rewrite (type_agree ts G (n, d)).
      - cbn [snd]. btauto.
      - cbn [fst snd]. unfold lookup, all_types. apply assoc_nodup; assumption.
      - exact (proj1 (first_nz_zero _ _) K (n, d) Hnd). }
    rewrite T. unfold spec_valid, spec_named, spec_extra. btauto.
  Qed.
End Assembly.

(* ------------------------------------------------------- main statements -- *)
Theorem c33_equiv : forall ts,
  NoDup (map fst (ts_types ts)) -> known_class_all ts = 0 ->
  okb (finish ts) = spec_valid ts.
Proof. intros ts ND K. exact (finish_agree ts (ref_check_acyclic ts) ND K). Qed.

Theorem c33_sound : forall ts,
  NoDup (map fst (ts_types ts)) -> known_class_all ts = 0 ->
  finish ts = Ok tt -> spec_named ts = true.
Proof.
  intros ts ND K H. pose proof (c33_equiv ts ND K) as E. rewrite H in E. simpl in E.
  unfold spec_valid in E. symmetry in E. apply andb_true_iff in E. tauto.
Qed.

Theorem c33_complete : forall ts,
  NoDup (map fst (ts_types ts)) -> known_class_all ts = 0 ->
  spec_named ts = true -> spec_extra ts = true -> finish ts = Ok tt.
Proof.
  intros ts ND K H1 H2. apply okb_true. rewrite (c33_equiv ts ND K). unfold spec_valid.
  rewrite H1, H2. reflexivity.
Qed.

Theorem c33_reject_reason : forall ts c,
  NoDup (map fst (ts_types ts)) -> known_class_all ts = 0 ->
  finish ts = Err c -> spec_named ts = false \/ spec_extra ts = false.
Proof.
  intros ts c ND K H. pose proof (c33_equiv ts ND K) as E. rewrite H in E. simpl in E.
  unfold spec_valid in E. symmetry in E. apply andb_false_iff in E. exact E.
Qed.

(* the model never panics nor runs out of fuel on the checked domain *)
Theorem c33_model_total : forall ts,
  NoDup (map fst (ts_types ts)) -> known_class_all ts = 0 ->
  finish ts = Ok tt \/ spec_valid ts = false.
Proof.
  intros ts ND K. pose proof (c33_equiv ts ND K) as E.
  destruct (spec_valid ts); [left; apply okb_true; exact E|right; reflexivity].
Qed.

(* the correspondence verdict can never be "theorem gap" *)
Theorem c33_verdict_no_gap : forall ts i,
  NoDup (map fst (ts_types ts)) -> check_case (ts, i) <> V_THEOREM_GAP.
Proof.
  intros ts i ND. unfold check_case, verdict.
  destruct (N.eqb (known_class_all ts) 0) eqn:K.
  - apply N.eqb_eq in K. rewrite (c33_equiv ts ND K), Bool.eqb_reflx.
    destruct (impl_eq_model i (finish ts)); [discriminate|].
    destruct (impl_sat_spec ts i); discriminate.
  - destruct (impl_eq_model i (finish ts)).
    + destruct (Bool.eqb _ _); [discriminate|].
      unfold V_THEOREM_GAP. intros H. apply N.eqb_neq in K. lia.
    + destruct (impl_sat_spec ts i); [discriminate|].
      destruct (Bool.eqb _ _); [discriminate|].
      unfold V_THEOREM_GAP. intros H. apply N.eqb_neq in K. lia.
Qed.

(* every schema that builds has all its references resolved (what the
   introspection / export / execution code indexes the type map with) *)
Theorem c33_built_refs_resolve : forall ts,
  finish ts = Ok tt ->
  lookup ts (ts_query ts) <> None /\
  (forall m, ts_mutation ts = Some m -> lookup ts m <> None) /\
  (forall n d r, In (n, d) (ts_types ts) -> In r (referenced_names d) -> lookup ts r <> None).
Proof.
  intros ts H. apply okb_true in H. unfold finish, check in H. rewrite !okb_andthen in H.
  apply andb_true_iff in H. destruct H as [_ H].
  do 5 (apply andb_true_iff in H; destruct H as [H _]).
  unfold check_types_exists in H. rewrite okb_andthen, okb_names_exist, okb_first_err in H.
  apply andb_true_iff in H. destruct H as [H5 H4]. cbn [forallb] in H5.
  apply andb_true_iff in H5. destruct H5 as [Hq Hm].
  assert (EX : forall n, exists_b ts n = true -> lookup ts n <> None).
  { intros n. unfold exists_b. destruct (lookup ts n); [discriminate|discriminate]. }
  repeat split.
  - apply EX; exact Hq.
  - intros m Hmm. rewrite Hmm in Hm. cbn [forallb] in Hm. apply andb_true_iff in Hm. apply EX; tauto.
  - intros n d r Hin Hr. rewrite forallb_forall in H4.
    assert (Hin' : In (n, d) (all_types ts)) by (unfold all_types; apply in_or_app; left; exact Hin).
    specialize (H4 _ Hin'). cbn [snd] in H4. rewrite okb_names_exist, forallb_forall in H4.
    apply EX. apply H4. exact Hr.
Qed.

(* without declared interfaces and subscriptions there is no known class *)
Theorem c33_no_interfaces_exact : forall ts,
  ts_subscription ts = None ->
  (forall n d, In (n, d) (ts_types ts) ->
     match d with
     | DObject _ impls | DInterface _ impls => impls = []
     | DSubscription _ => False
     | _ => True end) ->
  known_class_all ts = 0.
Proof.
  intros ts HS H. unfold known_class_all, known_class. rewrite HS. simpl.
  apply first_nz_zero. intros [n d] Hin. specialize (H n d Hin). unfold kc_type. cbn [snd].
  destruct d as [| | |fs impls|fs impls|ms|fs oneof|fs]; try reflexivity.
  - subst impls. reflexivity.
  - subst impls. destruct fs; reflexivity.
  - contradiction.
Qed.

(* the direction of the covariance test, for every type reference *)
Lemma is_subtype_weakening t : is_subtype t (TNonNull t) = true.
Proof.
  induction t as [n|t IH|t IH].
  - apply (is_subtype_refl (TNamed n)).
  - exact IH.
  - apply (is_subtype_refl (TList t)).
Qed.

Lemma is_subtype_strengthening t : is_subtype (TNonNull t) t = false.
Proof. induction t as [n|t IH|t IH]; simpl; auto. Qed.

Lemma spec_strengthening ts t : spec_field_type_ok ts (TNonNull t) t = true.
Proof.
  induction t as [n|t IH|t IH].
  - simpl. rewrite name_eqb_refl. reflexivity.
  - exact IH.
  - change (spec_field_type_ok ts (TList t) (TList t) = true). apply spec_field_type_ok_refl.
Qed.

Theorem c33_direction : forall ts t,
  is_subtype t (TNonNull t) = true /\
  is_subtype (TNonNull t) t = false /\ spec_field_type_ok ts (TNonNull t) t = true.
Proof.
  intros ts t. auto using is_subtype_weakening, is_subtype_strengthening, spec_strengthening.
Qed.

(* ------------------------------------------------------------ witnesses ---- *)
Definition mk (types : list (name * tdef)) (sub : option name) : tsys :=
  {| ts_types := types; ts_query := 100; ts_mutation := None; ts_subscription := sub; ts_dunder := [] |}.
Definition fl (n : name) (t : tref) : fld := {| f_name := n; f_ty := t; f_args := [] |}.
Definition fla (n : name) (t : tref) (a : list arg) : fld := {| f_name := n; f_ty := t; f_args := a |}.
Definition ar (n : name) (t : tref) : arg := {| a_name := n; a_ty := t; a_default := false |}.
Definition tInt := TNamed N_Int.
Definition qobj : name * tdef := (100, DObject [fl 200 tInt] []).

(* names: 100 Q, 101 I, 102 O, 103 Animal, 104 Dog, 105 Grand, 106 Parent, 107 Sub, 108 N, 109 Nope;
   fields 200 v/a, 201 pet/g, 202 p; argument 300 x *)
Definition w_cov_accept := mk [qobj; (101, DInterface [fl 200 (TNonNull tInt)] []); (102, DObject [fl 200 tInt] [101])] None.
Definition w_cov_reject := mk [qobj; (101, DInterface [fl 200 tInt] []); (102, DObject [fl 200 (TNonNull tInt)] [101])] None.
Definition w_cov_named := mk [qobj; (103, DInterface [fl 200 tInt] []); (104, DObject [fl 200 tInt] [103]);
                              (101, DInterface [fl 201 (TNamed 103)] []); (102, DObject [fl 201 (TNamed 104)] [101])] None.
Definition w_arg_subtype := mk [qobj; (101, DInterface [fla 200 tInt [ar 300 tInt]] []);
                                (102, DObject [fla 200 tInt [ar 300 (TNonNull tInt)]] [101])] None.
Definition w_extra_required := mk [qobj; (101, DInterface [fl 200 tInt] []);
                                   (102, DObject [fla 200 tInt [ar 300 (TNonNull tInt)]] [101])] None.
Definition w_missing_nullable := mk [qobj; (101, DInterface [fla 200 tInt [ar 300 tInt]] []);
                                     (102, DObject [fl 200 tInt] [101])] None.
Definition w_fieldless := mk [qobj; (105, DInterface [fl 201 tInt] []); (106, DInterface [] [105])] None.
Definition w_fieldless_self := mk [qobj; (106, DInterface [] [106])] None.
Definition w_unregistered := mk [qobj; (106, DInterface [fl 201 tInt] [109])] None.
Definition w_transitive := mk [qobj; (105, DInterface [fl 201 tInt] []);
                               (106, DInterface [fl 201 tInt; fl 202 tInt] [105]);
                               (102, DObject [fl 201 tInt; fl 202 tInt] [106])] None.
Definition w_sub_root := mk [qobj] (Some 107).
Definition w_sub_field := mk [qobj; (108, DInput [ar 300 tInt] false); (107, DSubscription [fl 200 (TNamed 108)])] (Some 107).
Definition w_sub_arg := mk [qobj; (107, DSubscription [fla 200 tInt [ar 300 (TNamed 100)]])] (Some 107).

Definition nodup_names (ts : tsys) : Prop := NoDup (map fst (ts_types ts)).

Ltac nodup := unfold nodup_names; simpl; repeat constructor; simpl; intuition discriminate.

(* accepted although a named rule fails / rejected although every rule holds *)
Definition accepts_invalid (k : N) (ts : tsys) : Prop :=
  nodup_names ts /\ known_class_all ts = k /\ finish ts = Ok tt /\ spec_named ts = false.
Definition rejects_valid (k : N) (ts : tsys) (c : N) : Prop :=
  nodup_names ts /\ known_class_all ts = k /\ finish ts = Err c /\ spec_valid ts = true.

Lemma w1a : accepts_invalid 1 w_cov_accept. Proof. split; [nodup|vm_compute; auto]. Qed.
Lemma w1b : rejects_valid 1 w_cov_reject 14. Proof. split; [nodup|vm_compute; auto]. Qed.
Lemma w2 : rejects_valid 2 w_cov_named 14. Proof. split; [nodup|vm_compute; auto]. Qed.
Lemma w3 : accepts_invalid 3 w_arg_subtype. Proof. split; [nodup|vm_compute; auto]. Qed.
Lemma w4 : accepts_invalid 4 w_extra_required. Proof. split; [nodup|vm_compute; auto]. Qed.
Lemma w5 : accepts_invalid 5 w_missing_nullable. Proof. split; [nodup|vm_compute; auto]. Qed.
Lemma w6a : accepts_invalid 6 w_fieldless. Proof. split; [nodup|vm_compute; auto]. Qed.
Lemma w6b : accepts_invalid 6 w_fieldless_self. Proof. split; [nodup|vm_compute; auto]. Qed.
Lemma w7 : accepts_invalid 7 w_unregistered. Proof. split; [nodup|vm_compute; auto]. Qed.
Lemma w8 : accepts_invalid 8 w_transitive. Proof. split; [nodup|vm_compute; auto]. Qed.
Lemma w9 : accepts_invalid 9 w_sub_root. Proof. split; [nodup|vm_compute; auto]. Qed.
Lemma w10a : accepts_invalid 10 w_sub_field. Proof. split; [nodup|vm_compute; auto]. Qed.
Lemma w10b : accepts_invalid 10 w_sub_arg. Proof. split; [nodup|vm_compute; auto]. Qed.

(* the property at full strength is false of the faithful model, both ways *)
Theorem c33_full_refuted :
  (exists ts, nodup_names ts /\ finish ts = Ok tt /\ spec_named ts = false) /\
  (exists ts c, nodup_names ts /\ finish ts = Err c /\ spec_valid ts = true).
Proof.
  split.
  - exists w_cov_accept. destruct w1a as (A & _ & B & C). auto.
  - exists w_cov_reject, 14. destruct w1b as (A & _ & B & C). auto.
Qed.

(* non-vacuity: a type system with interfaces, a union, input objects, a
   mutation and a subscription root that lies in no known class and builds;
   and one in no known class that is rejected for a required input cycle *)
Definition nv_valid : tsys :=
  {| ts_types := [ (101, DInterface [fla 200 (TNonNull tInt) [ar 300 (TNamed 108)]] []);
                   (110, DInterface [fla 200 (TNonNull tInt) [ar 300 (TNamed 108)]; fl 201 (TList (TNamed 101))] [101]);
                   (102, DObject [fla 200 (TNonNull tInt) [ar 300 (TNamed 108)]; fl 201 (TList (TNamed 101))] [110; 101]);
                   (111, DUnion [102; 100]);
                   (108, DInput [ar 300 (TNonNull (TNamed 112)); ar 301 (TNamed 108)] false);
                   (112, DInput [ar 300 (TList (TNonNull (TNamed 108)))] true);
                   (100, DObject [fl 200 (TNamed 111); fl 201 (TNonNull (TNamed 110))] []);
                   (113, DObject [fla 200 tInt [ar 300 (TNonNull (TNamed 108))]] []);
                   (107, DSubscription [fl 200 (TNamed 102)]) ];
     ts_query := 100; ts_mutation := Some 113; ts_subscription := Some 107; ts_dunder := [] |}.
Definition nv_cycle : tsys :=
  mk [qobj; (108, DInput [ar 300 (TNonNull (TNamed 112))] false);
            (112, DInput [ar 300 (TNonNull (TNamed 114))] false);
            (114, DInput [ar 300 (TNonNull (TNamed 112)); ar 301 tInt] false)] None.

Lemma c33_nonvacuous :
  (nodup_names nv_valid /\ known_class_all nv_valid = 0 /\ finish nv_valid = Ok tt /\ spec_valid nv_valid = true) /\
  (nodup_names nv_cycle /\ known_class_all nv_cycle = 0 /\ finish nv_cycle = Err 18 /\ spec_named nv_cycle = false).
Proof. split; (split; [nodup|vm_compute; auto]). Qed.

(* IntroModes.v — C19: introspection modes gate schema metadata and user
   resolvers.

   Model (what the code does), transcribed from
     src/types/query_root.rs      QueryRoot::resolve_field
     src/schema.rs                execute_once / execute_stream (EmptyMutation /
                                  EmptySubscription substitution), prepare_request
     src/resolver_utils/container.rs  Fields::add_set (__typename, fragments)
     src/subscription.rs          collect_subscription_streams
     src/dynamic/resolve.rs       collect_fields
     src/dynamic/schema.rs        execute_once / execute_stream
     src/dynamic/subscription.rs  Subscription::collect_streams
     src/registry/mod.rs          create_introspection_types,
                                  create_entity_type_and_root_field (which root
                                  fields validation knows)
   and the specification taken from the property text.  Executable, no proofs
   (IntroModesProofs.v).

   The schemas of the correspondence harness have one user field per root
   (Query.q, Mutation.m, Subscription.s), all three roots configured, and one
   of three federation set-ups.  Documents carry no @skip/@include (they are
   removed by prepare_request before execution). *)
From AG Require Export Base Doc.
Open Scope N_scope.

(* names interned by harness/src/bin/c19.rs right after the reserved ones *)
Definition N_service : name := 6.
Definition N_entities : name := 7.
Definition N_q : name := 8.
Definition N_m : name := 9.
Definition N_s : name := 10.
Definition T_Query : name := 11.
Definition T_Mutation : name := 12.
Definition T_Subscription : name := 13.
Definition T_EmptyMutation : name := 14.

Inductive flavour := Static | Dynamic.
(* FedOff: no federation; FedFlag: enable_federation() without entity types;
   FedEnt: an entity type with a key (and, dynamic, an entity resolver). *)
Inductive fedmode := FedOff | FedFlag | FedEnt.
Inductive imode := MEnabled | MDisabled | MOnly.
Inductive fclass := CTypename | CSchema | CType | CService | CEntities | CUser | CUnknown.

Record cfg := {
  c_flav : flavour;
  c_fed : fedmode;
  c_smode : imode;       (* SchemaBuilder::disable_introspection / introspection_only *)
  c_rmode : imode;       (* Request::disable_introspection / only_introspection *)
  c_stream : bool }.     (* false: Schema::execute, true: Schema::execute_stream *)

Inductive action :=
| ATypename (n : name)   (* answered with this type name; no resolver *)
| AIntrospect            (* __schema / __type answered from the registry *)
| AServiceSdl            (* _service answered with the SDL *)
| AEntity                (* entity resolver invoked *)
| AUser                  (* user resolver / subscription stream invoked *)
| ANull                  (* key answered null, nothing invoked *)
| AAbsent                (* nothing collected for the field *)
| AError.                (* an error response, nothing invoked *)

Definition is_only (m : imode) : bool := match m with MOnly => true | _ => false end.
Definition is_disabled (m : imode) : bool := match m with MDisabled => true | _ => false end.
(* matches!(mode, Enabled | IntrospectionOnly) *)
Definition allows (m : imode) : bool := negb (is_disabled m).

Definition only (c : cfg) : bool := is_only (c_smode c) || is_only (c_rmode c).
Definition disabled (c : cfg) : bool := is_disabled (c_smode c) || is_disabled (c_rmode c).
Definition intro_allowed (c : cfg) : bool := allows (c_smode c) && allows (c_rmode c).
(* registry.enable_federation || registry.has_entities()  (static);
   registry.enable_federation, set by finish() from either  (dynamic) *)
Definition fed_on (c : cfg) : bool := match c_fed c with FedOff => false | _ => true end.
Definition fed_ent (c : cfg) : bool := match c_fed c with FedEnt => true | _ => false end.

(* ------------------------------------------------------------------ impl -- *)
(* The derive-generated resolve_field of the user's roots: known field ->
   resolver runs; anything else -> Ok(None), which add_set turns into null. *)
Definition inner_field (user : name) (nm : name) : action :=
  if name_eqb nm user then AUser else ANull.

(* QueryRoot::resolve_field, branch by branch *)
Definition static_query_field (c : cfg) (nm : name) : action :=
  if intro_allowed c && name_eqb nm N_schema then AIntrospect
  else if intro_allowed c && name_eqb nm N_type then AIntrospect
  else if only c then ANull
  else if fed_on c && name_eqb nm N_entities then AEntity
  else if fed_on c && name_eqb nm N_service then AServiceSdl
  else inner_field N_q nm.

(* execute_once, Mutation arm: EmptyMutation (resolve_field = Ok(None)) is
   substituted under introspection-only *)
Definition static_mutation_field (c : cfg) (nm : name) : action :=
  if only c then ANull else inner_field N_m nm.
Definition static_mutation_tn (c : cfg) : name :=
  if only c then T_EmptyMutation else T_Mutation.

(* collect_subscription_streams over EmptySubscription / the real root *)
Definition static_subscription_field (c : cfg) (nm : name) : action :=
  if only c then AError else if name_eqb nm N_s then AUser else AError.

(* dynamic collect_fields on the query root object (after the __typename test) *)
Definition dynamic_query_field (c : cfg) (nm : name) : action :=
  if intro_allowed c && name_eqb nm N_schema then AIntrospect
  else if intro_allowed c && name_eqb nm N_type then AIntrospect
  else if intro_allowed c && fed_on c && name_eqb nm N_service then AServiceSdl
  else if intro_allowed c && fed_on c && name_eqb nm N_entities
       then (if fed_ent c then AEntity else AError (* internal: missing entity resolver *))
  else if only c then ANull
  else if name_eqb nm N_q then AUser else AAbsent.

(* ... on the mutation root object (object.name <> query_type) *)
Definition dynamic_mutation_field (c : cfg) (nm : name) : action :=
  if only c then ANull
  else if name_eqb nm N_m then AUser else AAbsent.

(* dynamic Subscription::collect_streams: no mode test at all *)
Definition dynamic_subscription_field (c : cfg) (nm : name) : action :=
  if name_eqb nm N_s then AUser else AAbsent.

Definition field_action (c : cfg) (op : optype) (nm : name) : action :=
  match c_flav c, op with
  | Static, OpQuery => static_query_field c nm
  | Static, OpMutation => static_mutation_field c nm
  | Static, OpSubscription => static_subscription_field c nm
  | Dynamic, OpQuery => dynamic_query_field c nm
  | Dynamic, OpMutation => dynamic_mutation_field c nm
  | Dynamic, OpSubscription => dynamic_subscription_field c nm
  end.

(* the name the registry gives the root type *)
Definition root_name (op : optype) : name :=
  match op with OpQuery => T_Query | OpMutation => T_Mutation | OpSubscription => T_Subscription end.

(* introspection_type_name() of the object that executes the root *)
Definition exec_root_name (c : cfg) (op : optype) : name :=
  match c_flav c, op with
  | Static, OpMutation => static_mutation_tn c
  | _, _ => root_name op
  end.

Definition key (alias : option name) (nm : name) : name :=
  match alias with Some a => a | None => nm end.

(* Fields::add_set / dynamic collect_fields on a root object: fields in
   document order; a fragment applies when it has no type condition or names
   the executing object's type (roots implement no interface here).  [emit]
   is what is pushed for one field. *)
Section GWalk.
  Context {X : Type}.
  Variable frags : list (name * fragment).
  Variable tn : name.
  Variable emit : name -> name -> X.       (* response key, field name *)

  Fixpoint gwalk (n : nat) (sels : list selection) {struct n} : outcome (list X) :=
    match n with
    | O => OutOfFuel
    | S n' =>
      match sels with
      | [] => Ok []
      | SField alias nm _ _ _ :: rest =>
          bindo (gwalk n' rest) (fun r => Ok (emit (key alias nm) nm :: r))
      | SSpread f _ :: rest =>
          match assoc f frags with
          | None => Err 1     (* Unknown fragment *)
          | Some fr =>
              if name_eqb (fr_cond fr) tn
              then bindo (gwalk n' (fr_sels fr)) (fun a =>
                   bindo (gwalk n' rest) (fun b => Ok (a ++ b)))
              else gwalk n' rest
          end
      | SInline cond _ sub :: rest =>
          if match cond with None => true | Some t => name_eqb t tn end
          then bindo (gwalk n' sub) (fun a =>
               bindo (gwalk n' rest) (fun b => Ok (a ++ b)))
          else gwalk n' rest
      end
    end.
End GWalk.

(* what the executing root pushes for one field *)
Definition emit_action (c : cfg) (op : optype) (k nm : name) : name * action :=
  (k, if name_eqb nm N_typename then ATypename (exec_root_name c op) else field_action c op nm).

Definition walk (c : cfg) (op : optype) (frags : list (name * fragment)) (n : nat)
           (sels : list selection) : outcome (list (name * action)) :=
  gwalk frags (exec_root_name c op) (emit_action c op) n sels.

(* collect_subscription_streams / Subscription::collect_streams: only the
   fields written directly in the operation's selection set; fragments are not
   looked at; no __typename special case *)
Fixpoint sub_walk (c : cfg) (sels : list selection) : list (name * action) :=
  match sels with
  | [] => []
  | SField alias nm _ _ _ :: rest => (key alias nm, field_action c OpSubscription nm) :: sub_walk c rest
  | _ :: rest => sub_walk c rest
  end.

(* ---- validation (check_rules): which root fields the registry knows ---- *)
Definition user_field (op : optype) : name :=
  match op with OpQuery => N_q | OpMutation => N_m | OpSubscription => N_s end.

Definition classify (op : optype) (nm : name) : fclass :=
  if name_eqb nm N_typename then CTypename
  else if name_eqb nm N_schema then CSchema
  else if name_eqb nm N_type then CType
  else if name_eqb nm N_service then CService
  else if name_eqb nm N_entities then CEntities
  else if name_eqb nm (user_field op) then CUser else CUnknown.

Definition is_query (op : optype) : bool := match op with OpQuery => true | _ => false end.
Definition is_subscription (op : optype) : bool := match op with OpSubscription => true | _ => false end.

(* create_introspection_types: dynamic SchemaBuilder::finish skips it when the
   schema mode is Disabled; the static registry is created by Schema::build,
   before disable_introspection() can change the mode, so it always has
   __schema/__type.  create_entity_type_and_root_field adds _service when
   federation is on and _entities when an entity type exists; __typename is
   rejected on the subscription root (visitor.rs visit_selection) *)
Definition registered (c : cfg) (op : optype) (k : fclass) : bool :=
  match k with
  | CTypename => negb (is_subscription op)
  | CSchema | CType =>
      is_query op && match c_flav c with Static => true | Dynamic => allows (c_smode c) end
  | CService => is_query op && fed_on c
  | CEntities => is_query op && fed_ent c
  | CUser => true
  | CUnknown => false
  end.

(* every field reachable from the operation is known on the root type and
   every type condition names the root type *)
Fixpoint vwalk (c : cfg) (op : optype) (frags : list (name * fragment)) (n : nat)
         (sels : list selection) {struct n} : outcome bool :=
  match n with
  | O => OutOfFuel
  | S n' =>
    match sels with
    | [] => Ok true
    | SField _ nm _ _ _ :: rest =>
        bindo (vwalk c op frags n' rest) (fun r => Ok (registered c op (classify op nm) && r))
    | SSpread f _ :: rest =>
        match assoc f frags with
        | None => Ok false
        | Some fr =>
            bindo (vwalk c op frags n' (fr_sels fr)) (fun a =>
            bindo (vwalk c op frags n' rest) (fun b =>
              Ok (name_eqb (fr_cond fr) (root_name op) && a && b)))
        end
    | SInline cond _ sub :: rest =>
        bindo (vwalk c op frags n' sub) (fun a =>
        bindo (vwalk c op frags n' rest) (fun b =>
          Ok (match cond with None => true | Some t => name_eqb t (root_name op) end && a && b)))
    end
  end.

(* ------------------------------------------------------------ observation -- *)
Inductive vclass := VcNull | VcTypename (n : name) | VcMeta | VcSdl | VcEntity | VcUser | VcOther.

Definition vclass_eqb (a b : vclass) : bool :=
  match a, b with
  | VcNull, VcNull | VcMeta, VcMeta | VcSdl, VcSdl | VcEntity, VcEntity
  | VcUser, VcUser | VcOther, VcOther => true
  | VcTypename x, VcTypename y => name_eqb x y
  | _, _ => false
  end.

Record obs := {
  o_data : bool;                          (* some response carried a data object *)
  o_err : bool;                           (* some response carried errors *)
  o_fields : list (name * vclass);        (* response keys, in response order *)
  o_log : N * N * N * N }.                (* runs of: Query.q, Mutation.m, Subscription.s, entity resolver *)

Definition value_of (a : action) : option vclass :=
  match a with
  | ATypename n => Some (VcTypename n)
  | AIntrospect => Some VcMeta
  | AServiceSdl => Some VcSdl
  | AEntity => Some VcEntity
  | AUser => Some VcUser
  | ANull => Some VcNull
  | AAbsent | AError => None
  end.

(* create_value_object: a repeated response key keeps its first position/value *)
Fixpoint values (seen : list name) (l : list (name * action)) : list (name * vclass) :=
  match l with
  | [] => []
  | (k, a) :: r =>
      match value_of a with
      | Some v => if mem k seen then values seen r else (k, v) :: values (k :: seen) r
      | None => values seen r
      end
  end.

Definition count (p : action -> bool) (l : list (name * action)) : N :=
  N.of_nat (length (filter (fun x => p (snd x)) l)).

Definition is_user (a : action) : bool := match a with AUser => true | _ => false end.
Definition is_entity (a : action) : bool := match a with AEntity => true | _ => false end.
Definition is_error (a : action) : bool := match a with AError => true | _ => false end.
Definition runs_resolver (a : action) : bool := is_user a || is_entity a.
Definition serves_metadata (a : action) : bool :=
  match a with AIntrospect | AServiceSdl => true | _ => false end.

Definition log_of (op : optype) (l : list (name * action)) : N * N * N * N :=
  let u := count is_user l in
  (match op with OpQuery => u | _ => 0 end,
   match op with OpMutation => u | _ => 0 end,
   match op with OpSubscription => u | _ => 0 end,
   count is_entity l).

Definition obs_rejected : obs :=
  {| o_data := false; o_err := true; o_fields := []; o_log := (0, 0, 0, 0) |}.

Definition obs_of_stream (l : list (name * action)) : obs :=
  {| o_data := existsb (fun x => is_user (snd x)) l;
     o_err := existsb (fun x => is_error (snd x)) l;
     o_fields := values [] l;
     o_log := log_of OpSubscription l |}.

Definition obs_of_object (op : optype) (l : list (name * action)) : obs :=
  {| o_data := true; o_err := false; o_fields := values [] l; o_log := log_of op l |}.

(* what reaches the executor once check_rules has accepted the document *)
Definition run_valid (c : cfg) (op : optype) (frags : list (name * fragment)) (n : nat)
           (sels : list selection) : outcome obs :=
  match op with
  | OpSubscription =>
      if c_stream c then Ok (obs_of_stream (sub_walk c sels))
      else Ok obs_rejected                             (* not supported on this transport *)
  | _ => bindo (walk c op frags n sels) (fun l => Ok (obs_of_object op l))
  end.

(* one whole request *)
Definition exec (c : cfg) (op : optype) (frags : list (name * fragment)) (n : nat)
           (sels : list selection) : outcome obs :=
  bindo (vwalk c op frags n sels) (fun ok =>
  if negb ok then Ok obs_rejected                      (* check_rules *)
  else run_valid c op frags n sels).

(* ------------------------------------------------------------------ spec -- *)
(* CollectFields (spec 6.3.2) on the root operation type: the response keys
   the document selects and the class of field behind each *)
Definition flat (op : optype) (frags : list (name * fragment)) (n : nat) (sels : list selection)
  : outcome (list (name * fclass)) :=
  gwalk frags (root_name op) (fun k nm => (k, classify op nm)) n sels.

Definition is_meta_value (v : vclass) : bool := match v with VcMeta | VcSdl => true | _ => false end.
Definition log_zero (l : N * N * N * N) : bool :=
  let '(a, b, c0, d) := l in (a =? 0) && (b =? 0) && (c0 =? 0) && (d =? 0).

Fixpoint assocv (k : name) (l : list (name * vclass)) : option vclass :=
  match l with
  | [] => None
  | (k', v) :: r => if name_eqb k k' then Some v else assocv k r
  end.

Definition is_typename_class (k : fclass) : bool := match k with CTypename => true | _ => false end.

(* 1. disabled for the schema or the request: no __schema/__type/SDL metadata
      in any response;
   2. introspection-only for either: no query, mutation, subscription or
      entity resolver ran;
   3. __typename: whenever a query/mutation response carries data, every
      selected __typename key is answered with the root type's name; a
      document that selects nothing but __typename ([pt]) is answered with
      data. *)
Definition spec_no_metadata (c : cfg) (o : obs) : bool :=
  negb (disabled c) || forallb (fun x => negb (is_meta_value (snd x))) (o_fields o).
Definition spec_no_resolver (c : cfg) (o : obs) : bool :=
  negb (only c) || log_zero (o_log o).
Definition typename_answered (op : optype) (o : obs) (x : name * fclass) : bool :=
  negb (is_typename_class (snd x)) ||
  match assocv (fst x) (o_fields o) with
  | Some v => vclass_eqb v (VcTypename (root_name op))
  | None => false
  end.
Definition fclass_eqb (a b : fclass) : bool :=
  match a, b with
  | CTypename, CTypename | CSchema, CSchema | CType, CType | CService, CService
  | CEntities, CEntities | CUser, CUser | CUnknown, CUnknown => true
  | _, _ => false
  end.

(* a response key stands for one class of field (FieldsInSetCanMerge makes any
   other document invalid; the clause on __typename speaks about valid ones) *)
Definition keys_ok (fl : list (name * fclass)) : bool :=
  forallb (fun x => forallb (fun y => negb (name_eqb (fst x) (fst y)) || fclass_eqb (snd x) (snd y)) fl) fl.

(* the operation selects nothing but __typename, directly or through
   fragments on the root type (a valid document on a query/mutation root) *)
Fixpoint tn_only (op : optype) (frags : list (name * fragment)) (n : nat)
         (sels : list selection) {struct n} : outcome bool :=
  match n with
  | O => OutOfFuel
  | S n' =>
    match sels with
    | [] => Ok true
    | SField _ nm _ _ _ :: rest =>
        bindo (tn_only op frags n' rest) (fun r => Ok (name_eqb nm N_typename && r))
    | SSpread f _ :: rest =>
        match assoc f frags with
        | None => Ok false
        | Some fr =>
            bindo (tn_only op frags n' (fr_sels fr)) (fun a =>
            bindo (tn_only op frags n' rest) (fun b =>
              Ok (name_eqb (fr_cond fr) (root_name op) && a && b)))
        end
    | SInline cond _ sub :: rest =>
        bindo (tn_only op frags n' sub) (fun a =>
        bindo (tn_only op frags n' rest) (fun b =>
          Ok (match cond with None => true | Some t => name_eqb t (root_name op) end && a && b)))
    end
  end.

Definition spec_typename (op : optype) (fl : list (name * fclass)) (pt : bool) (o : obs) : bool :=
  is_subscription op || negb (keys_ok fl) ||
  ((negb (o_data o) || forallb (typename_answered op o) fl) &&
   (negb pt || o_data o)).

Definition spec_ok (c : cfg) (op : optype) (fl : list (name * fclass)) (pt : bool) (o : obs) : bool :=
  spec_no_metadata c o && spec_no_resolver c o && spec_typename op fl pt o.

(* ---------------------------------------------------------- known classes -- *)
(* 1: static _service answers with the SDL while introspection is disabled
   2: dynamic _entities runs the entity resolver under introspection-only
   3: dynamic subscriptions run under introspection-only
   4: static mutation under introspection-only: __typename names the stand-in
      "EmptyMutation" root, or is dropped inside `... on Mutation` *)
Definition kc (c : cfg) (op : optype) (k : fclass) : N :=
  match c_flav c, op, k with
  | Static, OpQuery, CService => if disabled c && negb (only c) && fed_on c then 1 else 0
  | Dynamic, OpQuery, CEntities => if only c && intro_allowed c && fed_ent c then 2 else 0
  | Dynamic, OpSubscription, CUser => if only c then 3 else 0
  | Static, OpMutation, CTypename => if only c then 4 else 0
  | _, _, _ => 0
  end.

Fixpoint first_kc (c : cfg) (op : optype) (fl : list (name * fclass)) : N :=
  match fl with
  | [] => 0
  | x :: r => let v := kc c op (snd x) in if v =? 0 then first_kc c op r else v
  end.

(* the table of the design: what happens to one root field of each class *)
Definition class_name (op : optype) (k : fclass) : name :=
  match k with
  | CTypename => N_typename
  | CSchema => N_schema
  | CType => N_type
  | CService => N_service
  | CEntities => N_entities
  | CUser => user_field op
  | CUnknown => 1000
  end.

Definition root_action (c : cfg) (op : optype) (k : fclass) : action :=
  snd (emit_action c op (class_name op k) (class_name op k)).

(* finite domains *)
Definition all_flavours := [Static; Dynamic].
Definition all_feds := [FedOff; FedFlag; FedEnt].
Definition all_modes := [MEnabled; MDisabled; MOnly].
Definition all_ops := [OpQuery; OpMutation; OpSubscription].
Definition all_classes := [CTypename; CSchema; CType; CService; CEntities; CUser; CUnknown].
Definition all_cfgs : list cfg :=
  flat_map (fun f => flat_map (fun d => flat_map (fun s => flat_map (fun r => map (fun t =>
    {| c_flav := f; c_fed := d; c_smode := s; c_rmode := r; c_stream := t |}) [false; true])
    all_modes) all_modes) all_feds) all_flavours.

(* ------------------------------------------------------- per-case verdict -- *)
Definition obs_eqb (a b : obs) : bool :=
  Bool.eqb (o_data a) (o_data b) && Bool.eqb (o_err a) (o_err b) &&
  list_eqb (fun x y => name_eqb (fst x) (fst y) && vclass_eqb (snd x) (snd y)) (o_fields a) (o_fields b) &&
  (let '(a1, a2, a3, a4) := o_log a in let '(b1, b2, b3, b4) := o_log b in
   (a1 =? b1) && (a2 =? b2) && (a3 =? b3) && (a4 =? b4)).

Definition check_case (c : cfg) (d : document) (n : nat) (impl : obs) : N :=
  match doc_ops d with
  | [o] =>
      let op := op_ty o in
      match exec c op (doc_frags d) n (op_sels o), flat op (doc_frags d) n (op_sels o),
            tn_only op (doc_frags d) n (op_sels o) with
      | Ok m, Ok fl, Ok pt =>
          verdict (obs_eqb impl m) (spec_ok c op fl pt m) (spec_ok c op fl pt impl) (first_kc c op fl)
      | Ok m, _, _ =>
          (* the document spreads an undefined fragment: rejected, nothing to judge *)
          verdict (obs_eqb impl m) true true 0
      | _, _, _ => 9
      end
  | _ => 9
  end.

(* MultipartProofs.v — lemmas and proofs about the model of Multipart.v (C26).
   No model definitions here (only proof-local auxiliary functions). *)
From AG Require Import Base Multipart.

(* ---------------------------------------- facts about the generated table -- *)
(* These are re-checked against src/http/multipart_subscribe.rs on every run:
   an edit of a constant or of the order of the yields breaks them. *)
Lemma resp_chunks_shape j : resp_chunks_gen j = [part_header_gen; j; crlf_gen].
Proof. reflexivity. Qed.
Lemma tick_chunks_shape : tick_chunks_gen = [part_header_gen; heartbeat_gen].
Proof. reflexivity. Qed.
Lemma end_chunks_shape : end_chunks_gen = [eof_gen].
Proof. reflexivity. Qed.

(* what follows the dash-boundary in a part header *)
Definition ph_rest : bytes := crlf ++ ct_line ++ crlf ++ crlf.

Lemma part_header_shape : part_header_gen = dash_boundary ++ ph_rest.
Proof. reflexivity. Qed.
Lemma crlf_shape : crlf_gen = crlf.
Proof. reflexivity. Qed.
Lemma heartbeat_shape : heartbeat_gen = hb_body ++ crlf.
Proof. reflexivity. Qed.
Lemma eof_shape : eof_gen = dash_boundary ++ [DASH; DASH] ++ crlf.
Proof. reflexivity. Qed.

(* ------------------------------------------------------------ the reader -- *)
Lemma starts_with_app p s : starts_with p (p ++ s) = Some s.
Proof.
  induction p as [|a p IH]; [reflexivity|].
  cbn [app starts_with]. rewrite N.eqb_refl. exact IH.
Qed.

Lemma split_at_delim_cons b s acc :
  split_at_delim (b :: s) acc =
  match starts_with delimiter (b :: s) with
  | Some rest => Some (rev acc, rest)
  | None => split_at_delim s (b :: acc)
  end.
Proof. reflexivity. Qed.

Lemma starts_with_delim_ne b s : N.eqb b CR = false -> starts_with delimiter (b :: s) = None.
Proof.
  intros E. unfold delimiter. cbn [starts_with]. rewrite N.eqb_sym, E. reflexivity.
Qed.

Lemma split_at_delim_payload j : forall acc rest,
  no_cr j = true ->
  split_at_delim (j ++ delimiter ++ rest) acc = Some (rev acc ++ j, rest).
Proof.
  induction j as [|b j IH]; intros acc rest NC.
  - cbn [app]. change (delimiter ++ rest) with (CR :: (LF :: dash_boundary ++ rest)).
    rewrite split_at_delim_cons.
    change (CR :: (LF :: dash_boundary ++ rest)) with (delimiter ++ rest).
    rewrite starts_with_app, app_nil_r. reflexivity.
  - cbn [no_cr forallb] in NC. apply andb_true_iff in NC. destruct NC as [NB NC].
    apply negb_true_iff in NB.
    cbn [app]. rewrite split_at_delim_cons, starts_with_delim_ne by exact NB.
    rewrite IH by exact NC. cbn [rev]. rewrite <- app_assoc. reflexivity.
Qed.

Lemma read_headers_ct rest :
  read_headers (ct_line ++ crlf ++ crlf ++ rest) [] [] = Some ([ct_line], rest).
Proof. reflexivity. Qed.

(* one part: after a dash-boundary come the rest of the header, a CR-free
   payload and the next delimiter *)
Lemma parts_after_part f j rest :
  no_cr j = true ->
  parts_after (S f) (ph_rest ++ j ++ delimiter ++ rest) =
  match parts_after f rest with
  | Some (ps, epi) => Some (json_part j :: ps, epi)
  | None => None
  end.
Proof.
  intros NC.
  change (ph_rest ++ j ++ delimiter ++ rest)
    with (CR :: LF :: (ct_line ++ crlf ++ crlf ++ (j ++ delimiter ++ rest))).
  cbn [parts_after].
  change (starts_with [DASH; DASH] (CR :: LF :: ct_line ++ crlf ++ crlf ++ j ++ delimiter ++ rest))
    with (@None bytes).
  change (skip_lwsp (CR :: LF :: ct_line ++ crlf ++ crlf ++ j ++ delimiter ++ rest))
    with (CR :: LF :: ct_line ++ crlf ++ crlf ++ j ++ delimiter ++ rest).
  change (starts_with [CR; LF] (CR :: LF :: ct_line ++ crlf ++ crlf ++ j ++ delimiter ++ rest))
    with (Some (ct_line ++ crlf ++ crlf ++ j ++ delimiter ++ rest)).
  cbv iota beta.
  rewrite read_headers_ct.
  rewrite (split_at_delim_payload j [] rest NC). cbn [rev app].
  destruct (parts_after f rest) as [[ps epi]|]; reflexivity.
Qed.

Lemma parts_after_close f : parts_after (S f) ([DASH; DASH] ++ crlf) = Some ([], crlf).
Proof. reflexivity. Qed.

(* --------------------------------------------------- event level: framing -- *)
(* the bytes that follow the first dash-boundary of a finished body *)
Fixpoint tail_bytes (evs : list event) : bytes :=
  match evs with
  | [] => []
  | EResp j :: r => ph_rest ++ j ++ delimiter ++ tail_bytes r
  | EBad :: r => tail_bytes r
  | ETick :: r => ph_rest ++ hb_body ++ delimiter ++ tail_bytes r
  | EEnd :: _ => [DASH; DASH] ++ crlf
  end.

Fixpoint count_parts (evs : list event) : nat :=
  match evs with
  | [] => O
  | EResp _ :: r => S (count_parts r)
  | EBad :: r => count_parts r
  | ETick :: r => S (count_parts r)
  | EEnd :: _ => O
  end.

Lemma concat_emit_finished evs :
  finished evs = true -> concat (emit evs) = dash_boundary ++ tail_bytes evs.
Proof.
  induction evs as [|e r IH]; [discriminate|]. intros F.
  destruct e; cbn [emit tail_bytes finished existsb is_end orb] in *.
  - rewrite resp_chunks_shape. cbn [app concat].
    rewrite IH by exact F. rewrite part_header_shape, crlf_shape.
    unfold delimiter. change (CR :: LF :: dash_boundary) with (crlf ++ dash_boundary).
    rewrite <- !app_assoc. reflexivity.
  - apply IH. exact F.
  - rewrite tick_chunks_shape. cbn [app concat].
    rewrite IH by exact F. rewrite part_header_shape, heartbeat_shape.
    unfold delimiter. change (CR :: LF :: dash_boundary) with (crlf ++ dash_boundary).
    rewrite <- !app_assoc. reflexivity.
  - rewrite end_chunks_shape. cbn [concat]. rewrite app_nil_r, eof_shape. reflexivity.
Qed.

Lemma parts_after_tail evs : forall fuel,
  finished evs = true -> payloads_ok evs = true -> (count_parts evs < fuel)%nat ->
  parts_after fuel (tail_bytes evs) = Some (expected evs, crlf).
Proof.
  induction evs as [|e r IH]; [discriminate|]. intros fuel F P L.
  destruct fuel as [|f]; [lia|].
  destruct e; cbn [tail_bytes expected finished existsb is_end orb payloads_ok count_parts] in *.
  - apply andb_true_iff in P. destruct P as [NC P].
    rewrite parts_after_part by exact NC.
    rewrite (IH f F P) by lia. reflexivity.
  - apply (IH (S f) F P). lia.
  - rewrite parts_after_part by reflexivity.
    rewrite (IH f F P) by lia. reflexivity.
  - apply parts_after_close.
Qed.

Lemma count_parts_le evs : (count_parts evs <= length (tail_bytes evs))%nat.
Proof.
  assert (D : length delimiter = 11%nat) by reflexivity.
  induction evs as [|e r IH]; [cbn; lia|].
  destruct e; cbn [tail_bytes count_parts]; rewrite ?app_length; try lia.
Qed.

Theorem framed evs :
  finished evs = true -> payloads_ok evs = true ->
  read_multipart (concat (emit evs)) = Some (expected evs, crlf).
Proof.
  intros F P. rewrite concat_emit_finished by exact F.
  unfold read_multipart. rewrite starts_with_app.
  apply parts_after_tail; [exact F|exact P|].
  rewrite app_length. pose proof (count_parts_le evs). lia.
Qed.

(* nothing the generator yields follows the end of the input *)
Theorem emit_stops_at_end pre post : emit (pre ++ EEnd :: post) = emit (pre ++ [EEnd]).
Proof.
  induction pre as [|e r IH]; [reflexivity|].
  destruct e; cbn [app emit]; rewrite ?IH; reflexivity.
Qed.

Lemma finished_split evs :
  finished evs = true ->
  exists pre post, evs = pre ++ EEnd :: post /\ forallb (fun e => negb (is_end e)) pre = true.
Proof.
  induction evs as [|e r IH]; [discriminate|]. intros F.
  destruct e; cbn [finished existsb is_end orb] in F;
    try (destruct (IH F) as (pre & post & -> & N);
         eexists (_ :: pre), post; split; [reflexivity|exact N]).
  exists [], r. split; reflexivity.
Qed.

Lemma no_cr_not_eof j : no_cr j = true -> j <> eof_gen.
Proof. intros NC ->. discriminate NC. Qed.

(* the closing delimiter chunk: exactly once, and last *)
Theorem eof_once_last evs :
  finished evs = true -> payloads_ok evs = true ->
  exists pre, emit evs = pre ++ [eof_gen] /\ ~ In eof_gen pre.
Proof.
  induction evs as [|e r IH]; [discriminate|]. intros F P.
  destruct e; cbn [emit finished existsb is_end orb payloads_ok] in *.
  - apply andb_true_iff in P. destruct P as [NC P].
    destruct (IH F P) as (pre & E & NI). rewrite E, resp_chunks_shape.
    exists ([part_header_gen; json; crlf_gen] ++ pre). split; [rewrite <- app_assoc; reflexivity|].
    intros I. apply in_app_or in I. destruct I as [I|I]; [|exact (NI I)].
    cbn [In] in I. destruct I as [I|[I|[I|[]]]]; try discriminate I.
    exact (no_cr_not_eof json NC I).
  - apply IH; assumption.
  - destruct (IH F P) as (pre & E & NI). rewrite E, tick_chunks_shape.
    exists ([part_header_gen; heartbeat_gen] ++ pre). split; [rewrite <- app_assoc; reflexivity|].
    intros I. apply in_app_or in I. destruct I as [I|I]; [|exact (NI I)].
    cbn [In] in I. destruct I as [I|[I|[]]]; discriminate I.
  - exists []. split; [rewrite end_chunks_shape; reflexivity|intros []].
Qed.

Theorem unfinished_no_eof evs :
  finished evs = false -> payloads_ok evs = true -> ~ In eof_gen (emit evs).
Proof.
  induction evs as [|e r IH]; [intros _ _ []|]. intros F P.
  destruct e; cbn [emit finished existsb is_end orb payloads_ok] in *; try discriminate F.
  - apply andb_true_iff in P. destruct P as [NC P]. rewrite resp_chunks_shape.
    intros I. apply in_app_or in I. destruct I as [I|I]; [|exact (IH F P I)].
    cbn [In] in I. destruct I as [I|[I|[I|[]]]]; try discriminate I.
    exact (no_cr_not_eof json NC I).
  - apply IH; assumption.
  - rewrite tick_chunks_shape.
    intros I. apply in_app_or in I. destruct I as [I|I]; [|exact (IH F P I)].
    cbn [In] in I. destruct I as [I|[I|[]]]; discriminate I.
Qed.

(* MultipartProofs.v — lemmas and proofs about the model of Multipart.v (C26).
   No model definitions here (only proof-local auxiliary functions). *)
From AG Require Import Base Multipart.

(* ---------------------------------------- facts about the generated table -- *)
(* These are re-checked against src/http/multipart_subscribe.rs on every run:
   an edit of a constant or of the order of the yields breaks them. *)
Lemma resp_chunks_shape j : resp_chunks_gen j = [part_header_gen; j; crlf_gen].
Proof. reflexivity. Qed.
Lemma tick_chunks_shape : tick_chunks_gen = [part_header_gen; heartbeat_gen].
Proof. reflexivity. Qed.
Lemma end_chunks_shape : end_chunks_gen = [eof_gen].
Proof. reflexivity. Qed.

(* what follows the dash-boundary in a part header *)
Definition ph_rest : bytes := crlf ++ ct_line ++ crlf ++ crlf.

Lemma part_header_shape : part_header_gen = dash_boundary ++ ph_rest.
Proof. reflexivity. Qed.
Lemma crlf_shape : crlf_gen = crlf.
Proof. reflexivity. Qed.
Lemma heartbeat_shape : heartbeat_gen = hb_body ++ crlf.
Proof. reflexivity. Qed.
Lemma eof_shape : eof_gen = dash_boundary ++ [DASH; DASH] ++ crlf.
Proof. reflexivity. Qed.

(* ------------------------------------------------------------ the reader -- *)
Lemma starts_with_app p s : starts_with p (p ++ s) = Some s.
Proof.
  induction p as [|a p IH]; [reflexivity|].
  cbn [app starts_with]. rewrite N.eqb_refl. exact IH.
Qed.

Lemma split_at_delim_cons b s acc :
  split_at_delim (b :: s) acc =
  match starts_with delimiter (b :: s) with
  | Some rest => Some (rev acc, rest)
  | None => split_at_delim s (b :: acc)
  end.
Proof. reflexivity. Qed.

Lemma starts_with_delim_ne b s : N.eqb b CR = false -> starts_with delimiter (b :: s) = None.
Proof.
  intros E. unfold delimiter. cbn [starts_with]. rewrite N.eqb_sym, E. reflexivity.
Qed.

Lemma split_at_delim_payload j : forall acc rest,
  no_cr j = true ->
  split_at_delim (j ++ delimiter ++ rest) acc = Some (rev acc ++ j, rest).
Proof.
  induction j as [|b j IH]; intros acc rest NC.
  - cbn [app]. change (delimiter ++ rest) with (CR :: (LF :: dash_boundary ++ rest)).
    rewrite split_at_delim_cons.
    change (CR :: (LF :: dash_boundary ++ rest)) with (delimiter ++ rest).
    rewrite starts_with_app, app_nil_r. reflexivity.
  - cbn [no_cr forallb] in NC. apply andb_true_iff in NC. destruct NC as [NB NC].
    apply negb_true_iff in NB.
    cbn [app]. rewrite split_at_delim_cons, starts_with_delim_ne by exact NB.
    rewrite IH by exact NC. cbn [rev]. rewrite <- app_assoc. reflexivity.
Qed.

Lemma read_headers_ct rest :
  read_headers (ct_line ++ crlf ++ crlf ++ rest) [] [] = Some ([ct_line], rest).
Proof. reflexivity. Qed.

(* one part: after a dash-boundary come the rest of the header, a CR-free
   payload and the next delimiter *)
Lemma parts_after_part f j rest :
  no_cr j = true ->
  parts_after (S f) (ph_rest ++ j ++ delimiter ++ rest) =
  match parts_after f rest with
  | Some (ps, epi) => Some (json_part j :: ps, epi)
  | None => None
  end.
Proof.
  intros NC.
  change (ph_rest ++ j ++ delimiter ++ rest)
    with (CR :: LF :: (ct_line ++ crlf ++ crlf ++ (j ++ delimiter ++ rest))).
  cbn [parts_after].
  change (starts_with [DASH; DASH] (CR :: LF :: ct_line ++ crlf ++ crlf ++ j ++ delimiter ++ rest))
    with (@None bytes).
  change (skip_lwsp (CR :: LF :: ct_line ++ crlf ++ crlf ++ j ++ delimiter ++ rest))
    with (CR :: LF :: ct_line ++ crlf ++ crlf ++ j ++ delimiter ++ rest).
  change (starts_with [CR; LF] (CR :: LF :: ct_line ++ crlf ++ crlf ++ j ++ delimiter ++ rest))
    with (Some (ct_line ++ crlf ++ crlf ++ j ++ delimiter ++ rest)).
  cbv iota beta.
  rewrite read_headers_ct.
  rewrite (split_at_delim_payload j [] rest NC). cbn [rev app].
  destruct (parts_after f rest) as [[ps epi]|]; reflexivity.
Qed.

Lemma parts_after_close f : parts_after (S f) ([DASH; DASH] ++ crlf) = Some ([], crlf).
Proof. reflexivity. Qed.

(* --------------------------------------------------- event level: framing -- *)
(* the bytes that follow the first dash-boundary of a finished body *)
Fixpoint tail_bytes (evs : list event) : bytes :=
  match evs with
  | [] => []
  | EResp j :: r => ph_rest ++ j ++ delimiter ++ tail_bytes r
  | EBad :: r => tail_bytes r
  | ETick :: r => ph_rest ++ hb_body ++ delimiter ++ tail_bytes r
  | EEnd :: _ => [DASH; DASH] ++ crlf
  end.

Fixpoint count_parts (evs : list event) : nat :=
  match evs with
  | [] => O
  | EResp _ :: r => S (count_parts r)
  | EBad :: r => count_parts r
  | ETick :: r => S (count_parts r)
  | EEnd :: _ => O
  end.

Lemma concat_emit_finished evs :
  finished evs = true -> concat (emit evs) = dash_boundary ++ tail_bytes evs.
Proof.
  induction evs as [|e r IH]; [discriminate|]. intros F.
  destruct e; cbn [emit tail_bytes finished existsb is_end orb] in *.
  - rewrite resp_chunks_shape. cbn [app concat].
    rewrite IH by exact F. rewrite part_header_shape, crlf_shape.
    unfold delimiter. change (CR :: LF :: dash_boundary) with (crlf ++ dash_boundary).
    rewrite <- !app_assoc. reflexivity.
  - apply IH. exact F.
  - rewrite tick_chunks_shape. cbn [app concat].
    rewrite IH by exact F. rewrite part_header_shape, heartbeat_shape.
    unfold delimiter. change (CR :: LF :: dash_boundary) with (crlf ++ dash_boundary).
    rewrite <- !app_assoc. reflexivity.
  - rewrite end_chunks_shape. cbn [concat]. rewrite app_nil_r, eof_shape. reflexivity.
Qed.

Lemma parts_after_tail evs : forall fuel,
  finished evs = true -> payloads_ok evs = true -> (count_parts evs < fuel)%nat ->
  parts_after fuel (tail_bytes evs) = Some (expected evs, crlf).
Proof.
  induction evs as [|e r IH]; [discriminate|]. intros fuel F P L.
  destruct fuel as [|f]; [lia|].
  destruct e; cbn [tail_bytes expected finished existsb is_end orb payloads_ok count_parts] in *.
  - apply andb_true_iff in P. destruct P as [NC P].
    rewrite parts_after_part by exact NC.
    rewrite (IH f F P) by lia. reflexivity.
  - apply (IH (S f) F P). lia.
  - rewrite parts_after_part by reflexivity.
    rewrite (IH f F P) by lia. reflexivity.
  - apply parts_after_close.
Qed.

Lemma count_parts_le evs : (count_parts evs <= length (tail_bytes evs))%nat.
Proof.
  assert (D : length delimiter = 11%nat) by reflexivity.
  induction evs as [|e r IH]; [cbn; lia|].
  destruct e; cbn [tail_bytes count_parts]; rewrite ?app_length; try lia.
Qed.

Theorem framed evs :
  finished evs = true -> payloads_ok evs = true ->
  read_multipart (concat (emit evs)) = Some (expected evs, crlf).
Proof.
  intros F P. rewrite concat_emit_finished by exact F.
  unfold read_multipart. rewrite starts_with_app.
  apply parts_after_tail; [exact F|exact P|].
  rewrite app_length. pose proof (count_parts_le evs). lia.
Qed.

(* nothing the generator yields follows the end of the input *)
Theorem emit_stops_at_end pre post : emit (pre ++ EEnd :: post) = emit (pre ++ [EEnd]).
Proof.
  induction pre as [|e r IH]; [reflexivity|].
  destruct e; cbn [app emit]; rewrite ?IH; reflexivity.
Qed.

Lemma finished_split evs :
  finished evs = true ->
  exists pre post, evs = pre ++ EEnd :: post /\ forallb (fun e => negb (is_end e)) pre = true.
Proof.
  induction evs as [|e r IH]; [discriminate|]. intros F.
  destruct e; cbn [finished existsb is_end orb] in F;
    try (destruct (IH F) as (pre & post & -> & N);
         eexists (_ :: pre), post; split; [reflexivity|exact N]).
  exists [], r. split; reflexivity.
Qed.

Lemma no_cr_not_eof j : no_cr j = true -> j <> eof_gen.
Proof. intros NC ->. discriminate NC. Qed.

(* the closing delimiter chunk: exactly once, and last *)
Theorem eof_once_last evs :
  finished evs = true -> payloads_ok evs = true ->
  exists pre, emit evs = pre ++ [eof_gen] /\ ~ In eof_gen pre.
Proof.
  induction evs as [|e r IH]; [discriminate|]. intros F P.
  destruct e; cbn [emit finished existsb is_end orb payloads_ok] in *.
  - apply andb_true_iff in P. destruct P as [NC P].
    destruct (IH F P) as (pre & E & NI). rewrite E, resp_chunks_shape.
    exists ([part_header_gen; json; crlf_gen] ++ pre). split; [rewrite <- app_assoc; reflexivity|].
    intros I. apply in_app_or in I. destruct I as [I|I]; [|exact (NI I)].
    cbn [In] in I. destruct I as [I|[I|[I|[]]]]; try discriminate I.
    exact (no_cr_not_eof json NC I).
  - apply IH; assumption.
  - destruct (IH F P) as (pre & E & NI). rewrite E, tick_chunks_shape.
    exists ([part_header_gen; heartbeat_gen] ++ pre). split; [rewrite <- app_assoc; reflexivity|].
    intros I. apply in_app_or in I. destruct I as [I|I]; [|exact (NI I)].
    cbn [In] in I. destruct I as [I|[I|[]]]; discriminate I.
  - exists []. split; [rewrite end_chunks_shape; reflexivity|intros []].
Qed.

Theorem unfinished_no_eof evs :
  finished evs = false -> payloads_ok evs = true -> ~ In eof_gen (emit evs).
Proof.
  induction evs as [|e r IH]; [intros _ _ []|]. intros F P.
  destruct e; cbn [emit finished existsb is_end orb payloads_ok] in *; try discriminate F.
  - apply andb_true_iff in P. destruct P as [NC P]. rewrite resp_chunks_shape.
    intros I. apply in_app_or in I. destruct I as [I|I]; [|exact (IH F P I)].
    cbn [In] in I. destruct I as [I|[I|[I|[]]]]; try discriminate I.
    exact (no_cr_not_eof json NC I).
  - apply IH; assumption.
  - rewrite tick_chunks_shape.
    intros I. apply in_app_or in I. destruct I as [I|I]; [|exact (IH F P I)].
    cbn [In] in I. destruct I as [I|[I|[]]]; discriminate I.
Qed.

(* ---------------------------------------------------------- schedule level -- *)

Lemma chunks_of_cons o os : chunks_of (o :: os) = obs_chunk o ++ chunks_of os.
Proof. destruct o; reflexivity. Qed.

Lemma emit_all_app a b : emit_all (a ++ b) = emit_all a ++ emit_all b.
Proof. unfold emit_all. apply flat_map_app. Qed.

Lemma emit_no_end pre : no_end pre = true -> emit pre = emit_all pre.
Proof.
  induction pre as [|e r IH]; [reflexivity|]. cbn [no_end forallb]. intros N.
  apply andb_true_iff in N. destruct N as [N1 N2]. fold (no_end r) in N2.
  destruct e; cbn [emit emit_all flat_map ev_chunks]; try discriminate N1;
    rewrite (IH N2); reflexivity.
Qed.

Lemma emit_with_end pre : no_end pre = true -> emit (pre ++ [EEnd]) = emit_all (pre ++ [EEnd]).
Proof.
  induction pre as [|e r IH]; [reflexivity|]. cbn [no_end forallb]. intros N.
  apply andb_true_iff in N. destruct N as [N1 N2]. fold (no_end r) in N2.
  destruct e; cbn [app emit emit_all flat_map ev_chunks]; try discriminate N1;
    rewrite (IH N2); reflexivity.
Qed.

Ltac step_cases X s :=
  repeat match type of X with
         | context [if ?b then _ else _] => destruct b eqn:?
         | context [match st_buf s with _ => _ end] => destruct (st_buf s) eqn:?
         | context [match st_q s with _ => _ end] => destruct (st_q s) eqn:?
         | context [match ?i with IResp _ => _ | IEnd => _ end] => destruct i
         end.

Lemma step_chunks s a s' o e :
  step s a = (s', o, e) -> obs_chunk o ++ st_buf s' = st_buf s ++ emit_all e.
Proof.
  intros X. destruct a; cbn [step] in X; step_cases X s;
    inversion X; subst; cbn [obs_chunk st_buf emit_all flat_map ev_chunks app commit];
    rewrite ?app_nil_r; try reflexivity; try congruence.
Qed.

Lemma run_cons s a r :
  run s (a :: r) =
  (fst (fst (run (fst (fst (step s a))) r)),
   snd (fst (step s a)) :: snd (fst (run (fst (fst (step s a))) r)),
   snd (step s a) ++ snd (run (fst (fst (step s a))) r)).
Proof.
  cbn [run]. destruct (step s a) as [[s1 o] e]. cbn [fst snd].
  destruct (run s1 r) as [[s2 os] es]. reflexivity.
Qed.

Lemma run_chunks acts : forall s s' os evs,
  run s acts = (s', os, evs) -> chunks_of os ++ st_buf s' = st_buf s ++ emit_all evs.
Proof.
  induction acts as [|a r IH]; intros s s' os evs X.
  - inversion X; subst. cbn. rewrite app_nil_r. reflexivity.
  - rewrite run_cons in X. destruct (step s a) as [[s1 o] e] eqn:S1. cbn [fst snd] in X.
    destruct (run s1 r) as [[s2 os2] es2] eqn:R. cbn [fst snd] in X. inversion X; subst.
    rewrite chunks_of_cons, emit_all_app, <- app_assoc, (IH _ _ _ _ R), app_assoc,
      (step_chunks _ _ _ _ _ S1), <- app_assoc. reflexivity.
Qed.

(* FIFO: every response that arrived before the close is either already
   selected, in order, or still queued; none is lost or duplicated *)
Lemma queue_resps_app a b : queue_resps (a ++ b) = queue_resps a ++ queue_resps b.
Proof. induction a as [|[j|] a IH]; cbn; rewrite ?IH; reflexivity. Qed.

Lemma step_fifo s a s' o e :
  step s a = (s', o, e) ->
  event_resps e ++ queue_resps (st_q s') = queue_resps (st_q s) ++ arrivals (st_closed s) [a] /\
  st_closed s' = (st_closed s || match a with AClose => true | _ => false end).
Proof.
  intros X. destruct a; cbn [step] in X; step_cases X s;
    inversion X; subst;
    cbn [event_resps st_q st_closed arrivals queue_resps app commit fst snd
         resp_chunks_gen tick_chunks_gen end_chunks_gen];
    rewrite ?queue_resps_app, ?app_nil_r, ?orb_false_r, ?orb_true_r; cbn [queue_resps];
    rewrite ?app_nil_r; try (split; reflexivity); try (split; congruence);
    try (match goal with H : st_q _ = _ |- _ => rewrite H end; cbn [queue_resps]; split; reflexivity).
Qed.

Lemma arrivals_cons c a r :
  arrivals c (a :: r) =
  arrivals c [a] ++ arrivals (c || match a with AClose => true | _ => false end) r.
Proof.
  destruct a; cbn [arrivals]; rewrite ?orb_false_r, ?orb_true_r; try reflexivity.
  destruct c; reflexivity.
Qed.

Lemma run_fifo acts : forall s s' os evs,
  run s acts = (s', os, evs) ->
  event_resps evs ++ queue_resps (st_q s') = queue_resps (st_q s) ++ arrivals (st_closed s) acts.
Proof.
  assert (EA : forall a b, event_resps (a ++ b) = event_resps a ++ event_resps b).
  { induction a as [|[j| | |] a IH]; intros b; cbn; rewrite ?IH; reflexivity. }
  induction acts as [|a r IH]; intros s s' os evs X.
  - inversion X; subst. cbn. rewrite app_nil_r. reflexivity.
  - rewrite run_cons in X. destruct (step s a) as [[s1 o] e] eqn:S1. cbn [fst snd] in X.
    destruct (run s1 r) as [[s2 os2] es2] eqn:R. cbn [fst snd] in X. inversion X; subst.
    destruct (step_fifo _ _ _ _ _ S1) as [F C].
    rewrite EA, <- app_assoc, (IH _ _ _ _ R), C, app_assoc, F, <- app_assoc.
    rewrite (arrivals_cons (st_closed s) a r). reflexivity.
Qed.

(* the end of the input is the last thing the input yields *)
Definition wf (s : st) : Prop :=
  (st_fin s = true -> st_q s = [] /\ st_closed s = true) /\
  exists js, st_q s = map IResp js ++ (if st_closed s && negb (st_fin s) then [IEnd] else []).

Lemma wf_init : wf st_init.
Proof. split; [discriminate|]. exists []. reflexivity. Qed.

Lemma map_iresp_cons_inv js (it : item) q x :
  it :: q = map IResp js ++ x ->
  (exists j js', js = j :: js' /\ it = IResp j /\ q = map IResp js' ++ x) \/
  (js = [] /\ it :: q = x).
Proof.
  destruct js as [|j js']; cbn [map app]; intros E.
  - right. split; [reflexivity|exact E].
  - left. inversion E; subst. exists j, js'. repeat split.
Qed.

Lemma step_wf s a s' o e :
  wf s -> step s a = (s', o, e) ->
  wf s' /\
  (st_fin s = true -> e = [] /\ st_fin s' = true) /\
  (st_fin s = false ->
     (st_fin s' = false /\ no_end e = true) \/ (st_fin s' = true /\ e = [EEnd])).
Proof.
  intros W X. pose proof W as [W1 [js W2]]. destruct a as [json| | |choice]; cbn [step] in X.
  - (* arrive *)
    destruct (st_closed s) eqn:C; inversion X; subst.
    + split; [exact W|].
      split; [intros F; split; [reflexivity|exact F]|intros F; left; split; [exact F|reflexivity]].
    + split.
      * split; cbn [st_fin st_q st_closed].
        { intros F. destruct (W1 F) as [_ K]. congruence. }
        { exists (js ++ [json]). rewrite W2. cbn [andb]. rewrite map_app, !app_nil_r. reflexivity. }
      * cbn [st_fin]. split; [intros F; split; [reflexivity|exact F]|intros F; left; split; [exact F|reflexivity]].
  - (* close *)
    destruct (st_closed s) eqn:C; inversion X; subst.
    + split; [exact W|].
      split; [intros F; split; [reflexivity|exact F]|intros F; left; split; [exact F|reflexivity]].
    + assert (NF : st_fin s = false).
      { destruct (st_fin s) eqn:F; [|reflexivity]. destruct (W1 eq_refl) as [_ K]. congruence. }
      split.
      * split; cbn [st_fin st_q st_closed].
        { rewrite NF. discriminate. }
        { exists js. rewrite W2, NF. cbn [andb negb]. rewrite app_nil_r. reflexivity. }
      * cbn [st_fin]. split; [intros F; split; [reflexivity|exact F]|intros F; left; split; [exact F|reflexivity]].
  - (* fire *)
    inversion X; subst. split; [exact W|].
    cbn [st_fin]. split; [intros F; split; [reflexivity|exact F]|intros F; left; split; [exact F|reflexivity]].
  - (* poll *)
    destruct (st_buf s) as [|x b] eqn:B.
    + destruct (st_fin s) eqn:F.
      { inversion X; subst. split; [exact W|].
        rewrite F. split; [intros _; split; reflexivity|discriminate]. }
      destruct (st_q s) as [|it q'] eqn:Q.
      * destruct (st_due s); inversion X; subst.
        { split.
          - split; cbn [commit tick_chunks_gen st_fin st_q st_closed fst]; [discriminate|].
            exists js. rewrite <- W2. reflexivity.
          - cbn [commit tick_chunks_gen st_fin fst]. split; [discriminate|].
            intros _. left. split; reflexivity. }
        { split; [exact W|].
          rewrite F. split; [discriminate|]. intros _. left. split; reflexivity. }
      * destruct (negb (st_due s) || choice).
        { apply map_iresp_cons_inv in W2. destruct W2 as [(j & js' & -> & -> & Q')|[-> E]].
          - inversion X; subst. split.
            + split; cbn [commit resp_chunks_gen st_fin st_q st_closed fst]; [discriminate|].
              exists js'. reflexivity.
            + cbn [commit resp_chunks_gen st_fin fst]. split; [discriminate|].
              intros _. left. split; reflexivity.
          - destruct (st_closed s) eqn:C; cbn [andb negb] in E; [|discriminate E].
            inversion E; subst. inversion X; subst. split.
            + split; cbn [commit end_chunks_gen st_fin st_q st_closed fst].
              * intros _. split; reflexivity.
              * exists []. reflexivity.
            + cbn [commit end_chunks_gen st_fin fst]. split; [discriminate|].
              intros _. right. split; reflexivity. }
        { inversion X; subst. split.
          - split; cbn [commit tick_chunks_gen st_fin st_q st_closed fst]; [discriminate|].
            exists js. exact W2.
          - cbn [commit tick_chunks_gen st_fin fst]. split; [discriminate|].
            intros _. left. split; reflexivity. }
    + inversion X; subst. split; [exact W|].
      cbn [st_fin]. split; [intros F; split; [reflexivity|exact F]|intros F; left; split; [exact F|reflexivity]].
Qed.

Lemma no_end_app a b : no_end (a ++ b) = no_end a && no_end b.
Proof. unfold no_end. apply forallb_app. Qed.

Lemma run_wf acts : forall s s' os evs,
  wf s -> run s acts = (s', os, evs) ->
  wf s' /\
  (st_fin s = true -> evs = [] /\ st_fin s' = true) /\
  (st_fin s = false ->
     (st_fin s' = false /\ no_end evs = true) \/
     (st_fin s' = true /\ exists pre, evs = pre ++ [EEnd] /\ no_end pre = true)).
Proof.
  induction acts as [|a r IH]; intros s s' os evs W X.
  - inversion X; subst. split; [exact W|]. split; [intros F; split; [reflexivity|exact F]|].
    intros F. left. split; [exact F|reflexivity].
  - rewrite run_cons in X. destruct (step s a) as [[s1 o] e] eqn:S1. cbn [fst snd] in X.
    destruct (run s1 r) as [[s2 os2] es2] eqn:R. cbn [fst snd] in X. inversion X; subst.
    destruct (step_wf _ _ _ _ _ W S1) as (W1 & A & B).
    destruct (IH _ _ _ _ W1 R) as (W2 & A2 & B2).
    split; [exact W2|]. split.
    + intros F. destruct (A F) as [-> F1]. destruct (A2 F1) as [-> F2]. split; [reflexivity|exact F2].
    + intros F. destruct (B F) as [[F1 N]|[F1 ->]].
      * destruct (B2 F1) as [[F2 N2]|[F2 (pre & -> & N2)]].
        { left. split; [exact F2|]. rewrite no_end_app, N, N2. reflexivity. }
        { right. split; [exact F2|]. exists (e ++ pre). split; [rewrite app_assoc; reflexivity|].
          rewrite no_end_app, N, N2. reflexivity. }
      * destruct (A2 F1) as [-> F2]. right. split; [exact F2|]. exists []. split; reflexivity.
Qed.


Lemma step_ticks s a s' o e :
  step s a = (s', o, e) ->
  (ticks e + b2n (st_due s') <= b2n (st_due s) + b2n (is_fire a))%nat.
Proof.
  intros X. destruct (st_due s) eqn:D; destruct a; cbn [step] in X; rewrite ?D in X;
    step_cases X s; inversion X; subst;
    cbn [ticks filter is_tick length st_due commit fst resp_chunks_gen tick_chunks_gen
         end_chunks_gen is_fire b2n negb orb] in *;
    rewrite ?D; cbn [b2n]; try discriminate; try lia.
Qed.

Lemma run_ticks acts : forall s s' os evs,
  run s acts = (s', os, evs) ->
  (ticks evs + b2n (st_due s') <= b2n (st_due s) + fires acts)%nat.
Proof.
  induction acts as [|a r IH]; intros s s' os evs X.
  - inversion X; subst. cbn. lia.
  - rewrite run_cons in X. destruct (step s a) as [[s1 o] e] eqn:S1. cbn [fst snd] in X.
    destruct (run s1 r) as [[s2 os2] es2] eqn:R. cbn [fst snd] in X. inversion X; subst.
    pose proof (step_ticks _ _ _ _ _ S1). pose proof (IH _ _ _ _ R).
    unfold ticks in *. rewrite filter_app, app_length.
    unfold fires in *. cbn [filter]. destruct (is_fire a); cbn [length b2n] in *; lia.
Qed.

(* nothing after the end: a finished, drained generator only answers None *)
Lemma run_after_end acts : forall s s' os evs,
  st_fin s = true -> st_buf s = [] -> run s acts = (s', os, evs) ->
  Forall (fun o => o = ONone \/ o = OUnit) os /\ evs = [] /\ st_buf s' = [] /\ st_fin s' = true.
Proof.
  induction acts as [|a r IH]; intros s s' os evs F B X.
  - inversion X; subst. repeat split; auto.
  - rewrite run_cons in X. destruct (step s a) as [[s1 o] e] eqn:S1. cbn [fst snd] in X.
    destruct (run s1 r) as [[s2 os2] es2] eqn:R. cbn [fst snd] in X. inversion X; subst.
    assert (K : (o = ONone \/ o = OUnit) /\ e = [] /\ st_buf s1 = [] /\ st_fin s1 = true).
    { destruct a; cbn [step] in S1; rewrite ?B, ?F in S1;
        try (destruct (st_closed s)); inversion S1; subst; cbn [st_buf st_fin]; auto. }
    destruct K as (K1 & -> & K3 & K4).
    destruct (IH _ _ _ _ K4 K3 R) as (I1 & -> & I3 & I4).
    repeat split; auto.
Qed.

Lemma payloads_ok_of evs : forallb no_cr (event_resps evs) = true -> payloads_ok evs = true.
Proof.
  induction evs as [|e r IH]; [reflexivity|].
  destruct e; cbn [event_resps forallb payloads_ok]; auto.
  intros X. apply andb_true_iff in X. destruct X as [X1 X2]. rewrite X1, (IH X2). reflexivity.
Qed.

Lemma finished_with_end pre : finished (pre ++ [EEnd]) = true.
Proof. unfold finished. rewrite existsb_app. cbn. apply orb_true_r. Qed.

(* every schedule: once the consumer has drained a closed stream, the bytes
   it received re-read as exactly the selected events, which are the arrived
   responses in order with at most one heartbeat per timer firing, and the end
   of the input was the last selection *)
Theorem sched_framed acts s' os evs :
  run st_init acts = (s', os, evs) ->
  st_fin s' = true -> st_buf s' = [] ->
  forallb no_cr (arrivals false acts) = true ->
  read_multipart (concat (chunks_of os)) = Some (expected evs, crlf) /\
  event_resps evs = arrivals false acts /\
  (ticks evs <= fires acts)%nat /\
  (exists pre, evs = pre ++ [EEnd] /\ no_end pre = true) /\
  emit evs = chunks_of os.
Proof.
  intros R F B NC.
  pose proof (run_chunks _ _ _ _ _ R) as C. rewrite B, app_nil_r in C. cbn [st_init st_buf app] in C.
  destruct (run_wf _ _ _ _ _ wf_init R) as (W & _ & S). destruct (S eq_refl) as [[F' _]|[_ (pre & E & N)]];
    [congruence|].
  pose proof (run_fifo _ _ _ _ _ R) as Q. cbn [st_init st_q st_closed queue_resps app] in Q.
  destruct W as [W1 _]. destruct (W1 F) as [Q0 _]. rewrite Q0 in Q. cbn [queue_resps] in Q.
  rewrite app_nil_r in Q.
  pose proof (run_ticks _ _ _ _ _ R) as T. cbn [st_init st_due b2n] in T.
  assert (EM : emit evs = chunks_of os) by (rewrite C, E; apply emit_with_end; exact N).
  repeat split.
  - rewrite <- EM. apply framed.
    + rewrite E. apply finished_with_end.
    + apply payloads_ok_of. rewrite Q. exact NC.
  - exact Q.
  - lia.
  - exists pre. split; assumption.
  - exact EM.
Qed.

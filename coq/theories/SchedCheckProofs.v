(* SchedCheckProofs.v — the boolean test of SchedCheck.v accepts every log the
   scheduler model's serial loop can produce (ties check_dsched to C04_serial). *)
From AG Require Import Sched SchedProofs SchedCheck.
Open Scope N_scope.

Definition keyed (k : name) (s : list item) : Prop := forall e, In e s -> first_is k e = true.

Lemma seg_ok_skipkey k s ss l : keyed k s -> seg_ok (s :: ss) l -> seg_ok ss (skipkey k l).
Proof.
  intros K H. remember (s :: ss) as sets eqn:E. revert E.
  induction H as [sets|s0 ss0 e l He Hl IH|s0 ss0 l Hl IH]; intros E.
  - constructor.
  - injection E as -> ->. cbn [skipkey]. rewrite (K _ He). now apply IH.
  - injection E as -> ->. clear IH. induction l as [|e l IHl]; [constructor|].
    cbn [skipkey]. destruct (first_is k e); [|exact Hl]. apply IHl. eapply seg_ok_tail, Hl.
Qed.

Lemma seg_ok_serial_keys keys sets : Forall2 keyed keys sets -> forall l, seg_ok sets l -> serial_keys keys l = true.
Proof.
  induction 1 as [|k s ks ss K _ IH]; intros l H.
  - inversion H. reflexivity.
  - cbn [serial_keys]. apply IH. eapply seg_ok_skipkey; eassumption.
Qed.

(* for ALL serial roots whose i-th field logs only events under its own key, and ALL
   schedule prefixes, the log passes the test applied to the real executors' logs *)
Theorem serial_model_passes_check kd done cs keys s f n l :
  Forall2 keyed keys (map all_events cs) ->
  run_log s (FSeq kd done cs) = (f, n, l) -> serial_keys keys (evs_of l) = true.
Proof. intros K R. eapply seg_ok_serial_keys; [exact K|]. eapply serial_log, R. Qed.

(* and the test is not vacuous: an overlapping log is rejected *)
Example overlap_rejected :
  serial_keys [20; 21] [IStart [PF 20]; IStart [PF 21]; IEnd [PF 21]; IEnd [PF 20]] = false /\
  serial_keys [20; 21] [IStart [PF 20]; IEnd [PF 20]; IStart [PF 20; PF 7]; IStart [PF 21]; IEnd [PF 21]; IEnd [PF 20; PF 7]] = false /\
  serial_keys [20; 21; 20] [IStart [PF 20]; IEnd [PF 20]; IStart [PF 21]; IEnd [PF 21]; IStart [PF 20]; IEnd [PF 20]] = true /\
  serial_keys [20; 21] [IStart [PF 21]; IEnd [PF 21]; IStart [PF 20]; IEnd [PF 20]] = false.
Proof. repeat split; reflexivity. Qed.

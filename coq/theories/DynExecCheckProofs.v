(* DynExecCheckProofs.v — the per-case verdict of C02 is sound: code 0 means the
   real response's data IS the specification's data, and the "theorem gap" code
   2 cannot occur (consequence of dyn_corrected_data). *)
From AG Require Import DynExecCheck DynExecProofs.
Require Import Lia.
Open Scope N_scope.

Lemma value_ind' (P : value -> Prop) :
  P VNull -> (forall z, P (VInt z)) -> (forall b, P (VFloat b)) -> (forall s, P (VStr s)) ->
  (forall b, P (VBool b)) -> (forall n, P (VEnum n)) ->
  (forall l, Forall P l -> P (VList l)) ->
  (forall l, Forall (fun kv => P (snd kv)) l -> P (VObj l)) ->
  (forall n, P (VVar n)) -> forall v, P v.
Proof.
  intros HN HI HF HS HB HE HL HO HV. fix IH 1. destruct v.
  - exact HN. - apply HI. - apply HF. - apply HS. - apply HB. - apply HE.
  - apply HL. induction l as [|x l IHl]; constructor; [apply IH|exact IHl].
  - apply HO. induction l as [|[k x] l IHl]; constructor; [apply IH|exact IHl].
  - apply HV.
Qed.

Lemma forallb2_N_eq : forall x y : list N, forallb2 N.eqb x y = true -> x = y.
Proof.
  induction x as [|a x IH]; destruct y as [|b y]; cbn [forallb2]; try discriminate; [reflexivity|].
  intro H. apply Bool.andb_true_iff in H. destruct H as [H1 H2].
  apply N.eqb_eq in H1. subst. f_equal. apply IH, H2.
Qed.
Lemma forallb2_N_refl : forall x : list N, forallb2 N.eqb x x = true.
Proof. induction x as [|a x IH]; cbn [forallb2]; [reflexivity|]. rewrite N.eqb_refl. exact IH. Qed.

Lemma value_eqb_eq : forall a b, value_eqb a b = true -> a = b.
Proof.
  induction a using value_ind'; intro y; destruct y; cbn [value_eqb]; try discriminate; intro E.
  - reflexivity.
  - apply Z.eqb_eq in E. subst. reflexivity.
  - apply N.eqb_eq in E. subst. reflexivity.
  - apply forallb2_N_eq in E. subst. reflexivity.
  - apply Bool.eqb_prop in E. subst. reflexivity.
  - apply name_eqb_eq in E. subst. reflexivity.
  - f_equal. revert l0 E. induction H as [|x l Hx Hl IHl]; intros [|y l0] E; try discriminate; [reflexivity|].
    apply Bool.andb_true_iff in E. destruct E as [E1 E2]. f_equal; [apply Hx, E1|apply IHl, E2].
  - f_equal. revert l0 E. induction H as [|[k x] l Hx Hl IHl]; intros [|[k' y] l0] E; try discriminate; [reflexivity|].
    apply Bool.andb_true_iff in E. destruct E as [E1 E2]. apply Bool.andb_true_iff in E1. destruct E1 as [E0 E1].
    apply name_eqb_eq in E0. subst. cbn [snd] in Hx. rewrite (Hx _ E1). f_equal. apply IHl, E2.
  - apply name_eqb_eq in E. subst. reflexivity.
Qed.

Lemma value_eqb_refl : forall a, value_eqb a a = true.
Proof.
  induction a using value_ind'; cbn [value_eqb].
  - reflexivity. - apply Z.eqb_refl. - apply N.eqb_refl. - apply forallb2_N_refl.
  - destruct b; reflexivity. - apply name_eqb_refl.
  - induction H as [|x l Hx Hl IHl]; [reflexivity|]. rewrite Hx. exact IHl.
  - induction H as [|[k x] l Hx Hl IHl]; [reflexivity|]. cbn [snd] in Hx. rewrite name_eqb_refl, Hx. exact IHl.
  - apply name_eqb_refl.
Qed.

Lemma verdict_0 a b c k : verdict a b c k = 0 -> a = true /\ b = true.
Proof.
  unfold verdict, V_OK, V_THEOREM_GAP, V_STALE_OK, V_VIOLATION.
  destruct a, b, c, (k =? 0); intro H; try (split; reflexivity); try discriminate H; exfalso; lia.
Qed.

Lemma verdict_2 a b c k : verdict a b c k = 2 -> k = 0 /\ b = false.
Proof.
  unfold verdict, V_OK, V_THEOREM_GAP, V_STALE_OK, V_VIOLATION.
  destruct a, b, c, (k =? 0) eqn:E; intro H; try discriminate H;
    try (apply N.eqb_eq in E; split; [exact E|reflexivity]); exfalso; lia.
Qed.

Section Verdict.
  Variable S : schema.
  Variable w : world.
  Variable d : document.
  Variable opname : option name.
  Variable vars : list (name * value).
  Variable nullv : bool.
  Variable n : nat.

  (* verdict 0: the real response carries exactly the specification's data *)
  Theorem check_c02_sound impl :
    check_c02 S w d opname vars nullv n impl = 0 ->
    exists s, spec_exec S w d opname vars n = Ok s /\ rs_data impl = rs_data s.
  Proof.
    unfold check_c02, dmodel, dspec.
    destruct (dyn_exec dquirks_today nullv S w d opname vars n) as [m| | |]; try discriminate.
    destruct (dyn_exec dquirks_none nullv S w d opname vars n) as [m0| | |]; try discriminate.
    destruct (spec_exec S w d opname vars n) as [s| | |]; try discriminate.
    destruct (negb (same_data m0 s)); [discriminate|].
    intro H. exists s. split; [reflexivity|].
    assert (G : same_all impl m = true /\ same_data m s = true).
    { destruct (same_all impl m && same_data m s) eqn:E.
      - apply Bool.andb_true_iff in E. exact E.
      - apply verdict_0 in H. exact H. }
    destruct G as [G1 G2]. unfold same_all in G1.
    apply Bool.andb_true_iff in G1. destruct G1 as [G1 _]. apply Bool.andb_true_iff in G1. destruct G1 as [G1 _].
    unfold same_data in G1, G2. apply value_eqb_eq in G1. apply value_eqb_eq in G2. congruence.
  Qed.

  Lemma dexercised_nonzero m : dexercised S w d opname vars nullv n m <> 0.
  Proof.
    unfold dexercised. destruct (dexercised_in S w d opname vars nullv n [1; 2; 5; 6; 7; 3; 4] m) eqn:E;
      [discriminate|]. discriminate.
  Qed.

  (* the verdict never reports a gap between the corrected model and the
     specification: whenever the data differs from the specification's, some
     recorded deviation flag is responsible *)
  Theorem check_c02_no_gap impl : check_c02 S w d opname vars nullv n impl <> 2.
  Proof.
    unfold check_c02, dmodel, dspec.
    destruct (dyn_exec dquirks_today nullv S w d opname vars n) as [m| | |]; try discriminate.
    destruct (dyn_exec dquirks_none nullv S w d opname vars n) as [m0| | |] eqn:E0; try discriminate.
    destruct (spec_exec S w d opname vars n) as [s| | |] eqn:Es; try discriminate.
    destruct (dyn_corrected_data _ _ _ _ _ nullv _ _ Es) as (r' & Hr & Hd).
    rewrite E0 in Hr. inversion Hr; subst r'.
    unfold same_data at 1. rewrite Hd, value_eqb_refl. cbn [negb].
    destruct (same_all impl m && same_data m s); [discriminate|].
    intro H. apply verdict_2 in H. destruct H as [H Hb]. rewrite Hb in H. exact (dexercised_nonzero _ H).
  Qed.
End Verdict.

(* CacheProofs.v — lemmas about Cache.v (no model definitions here). *)
From AG Require Import Cache.
Open Scope Z_scope.

(* Case analysis on every integer comparison of the generated merge. *)
Ltac zcases :=
  repeat match goal with
         | |- context [Z.eqb ?a ?b] => destruct (Z.eqb_spec a b)
         | H : context [Z.eqb ?a ?b] |- _ => destruct (Z.eqb_spec a b)
         | |- context [Z.gtb ?a ?b] => rewrite (Z.gtb_ltb a b); destruct (Z.ltb_spec b a)
         | H : context [Z.gtb ?a ?b] |- _ => rewrite (Z.gtb_ltb a b) in H; destruct (Z.ltb_spec b a)
         | |- context [Z.leb ?a ?b] => destruct (Z.leb_spec a b)
         | H : context [Z.leb ?a ?b] |- _ => destruct (Z.leb_spec a b)
         | |- context [Z.geb ?a ?b] => rewrite (Z.geb_leb a b); destruct (Z.leb_spec b a)
         | H : context [Z.geb ?a ?b] |- _ => rewrite (Z.geb_leb a b) in H; destruct (Z.leb_spec b a)
         end.

(* ---- laws of the generated age combination, for all integers ------------ *)
Lemma merge_age_comm x y : merge_age_gen x y = merge_age_gen y x.
Proof. unfold merge_age_gen. zcases; lia. Qed.

Lemma merge_age_assoc x y z :
  merge_age_gen (merge_age_gen x y) z = merge_age_gen x (merge_age_gen y z).
Proof. unfold merge_age_gen. zcases; lia. Qed.

Lemma merge_age_idem x : merge_age_gen x x = x.
Proof. unfold merge_age_gen. zcases; lia. Qed.

Lemma merge_age_unit_l x : merge_age_gen 0 x = x.
Proof. unfold merge_age_gen. zcases; lia. Qed.

Lemma merge_public_comm a b : merge_public_gen a b = merge_public_gen b a.
Proof. destruct a, b; reflexivity. Qed.

Lemma merge_public_assoc a b c :
  merge_public_gen (merge_public_gen a b) c = merge_public_gen a (merge_public_gen b c).
Proof. destruct a, b, c; reflexivity. Qed.

Lemma merge_public_idem a : merge_public_gen a a = a.
Proof. destruct a; reflexivity. Qed.

Lemma merge_public_unit_l a : merge_public_gen true a = a.
Proof. destruct a; reflexivity. Qed.

Lemma merge_comm a b : merge a b = merge b a.
Proof. unfold merge. rewrite merge_public_comm, merge_age_comm. reflexivity. Qed.

Lemma merge_assoc a b c : merge (merge a b) c = merge a (merge b c).
Proof. unfold merge; cbn [cc_pub cc_age]. rewrite merge_public_assoc, merge_age_assoc. reflexivity. Qed.

Lemma merge_idem a : merge a a = a.
Proof. destruct a as [p g]; unfold merge; cbn [cc_pub cc_age]. rewrite merge_public_idem, merge_age_idem. reflexivity. Qed.

Lemma merge_unit_l a : merge cc_default a = a.
Proof. destruct a as [p g]; unfold merge, cc_default; cbn [cc_pub cc_age]. rewrite merge_public_unit_l, merge_age_unit_l. reflexivity. Qed.

Lemma merge_unit_r a : merge a cc_default = a.
Proof. rewrite merge_comm. apply merge_unit_l. Qed.

(* fold over any list = fold over any permutation / regrouping *)
Lemma fold_merge_acc l a b : fold_left merge l (merge a b) = merge a (fold_left merge l b).
Proof.
  revert b. induction l as [|x l IH]; intro b; cbn [fold_left]; [reflexivity|].
  rewrite merge_assoc. apply IH.
Qed.

Lemma policy_cons x l : policy (x :: l) = merge x (policy l).
Proof.
  unfold policy. cbn [fold_left]. rewrite merge_unit_l.
  rewrite <- (merge_unit_r x) at 1. apply fold_merge_acc.
Qed.

Lemma policy_app l1 l2 : policy (l1 ++ l2) = merge (policy l1) (policy l2).
Proof.
  induction l1 as [|x l1 IH]; cbn [app].
  - unfold policy at 2. cbn [fold_left]. now rewrite merge_unit_l.
  - rewrite !policy_cons, IH, merge_assoc. reflexivity.
Qed.

Require Import Permutation.
Lemma policy_perm l1 l2 : Permutation l1 l2 -> policy l1 = policy l2.
Proof.
  induction 1 as [|x l l' _ IH|x y l|l l' l'' _ IH1 _ IH2].
  - reflexivity.
  - rewrite !policy_cons, IH. reflexivity.
  - rewrite !policy_cons, <- !merge_assoc, (merge_comm y x). reflexivity.
  - congruence.
Qed.

(* ---- the order "at least as restrictive" -------------------------------- *)
Definition lowerP (p x : cc) : Prop :=
  (cc_pub x = false -> cc_pub p = false) /\
  (cc_age x = -1 -> cc_age p = -1) /\
  (cc_age x > 0 -> cc_age p = -1 \/ (0 < cc_age p <= cc_age x)).

Lemma lower_spec p x : lower p x = true <-> lowerP p x.
Proof.
  unfold lower, lowerP. destruct p as [pp pa], x as [xp xa]; cbn [cc_pub cc_age].
  destruct pp, xp; zcases; cbn [orb andb negb];
    (split; [intros Hb; try discriminate Hb; repeat split; intros; try discriminate; lia
            |intros (A1 & A2 & A3); try reflexivity; exfalso;
             try (specialize (A1 eq_refl); discriminate A1); lia]).
Qed.

Definition wfP (c : cc) : Prop := cc_age c >= -1.

Lemma wf_spec c : wf_cc c = true <-> wfP c.
Proof. unfold wf_cc, wfP. rewrite Z.geb_leb, Z.leb_le. lia. Qed.

Lemma merge_wf a b : wfP a -> wfP b -> wfP (merge a b).
Proof.
  unfold wfP, merge; cbn [cc_age]. unfold merge_age_gen. intros. zcases; lia.
Qed.

Lemma merge_lower_l a b : wfP a -> wfP b -> lowerP (merge a b) a.
Proof.
  unfold wfP, lowerP, merge; destruct a as [ap aa], b as [bp ba]; cbn [cc_pub cc_age].
  intros Ha Hb. repeat split.
  - intros ->. reflexivity.
  - intros ->. unfold merge_age_gen. zcases; lia.
  - intros Hx. unfold merge_age_gen. zcases; lia.
Qed.

Lemma merge_lower_r a b : wfP a -> wfP b -> lowerP (merge a b) b.
Proof. intros. rewrite merge_comm. now apply merge_lower_l. Qed.

Lemma lower_trans p q x : wfP q -> lowerP p q -> lowerP q x -> lowerP p x.
Proof.
  unfold wfP, lowerP. intros W (A1 & A2 & A3) (B1 & B2 & B3). repeat split.
  - auto.
  - auto.
  - intros Hx. destruct (B3 Hx) as [E|E]; [left; auto|].
    destruct (A3 ltac:(lia)) as [F|F]; [left; auto|right; lia].
Qed.

Lemma lower_refl p : lowerP p p.
Proof. unfold lowerP. repeat split; auto. intros; right; lia. Qed.

Lemma policy_wf l : Forall wfP l -> wfP (policy l).
Proof.
  induction 1 as [|x l Hx _ IH].
  - unfold policy, wfP; simpl; lia.
  - rewrite policy_cons. now apply merge_wf.
Qed.

(* The computed policy is at least as restrictive as every merged element. *)
Lemma policy_lower l x : Forall wfP l -> In x l -> lowerP (policy l) x.
Proof.
  induction 1 as [|y l Hy Hl IH]; intros Hin; [destruct Hin|].
  rewrite policy_cons. destruct Hin as [->|Hin].
  - apply merge_lower_l; [exact Hy|now apply policy_wf].
  - apply lower_trans with (q := policy l).
    + now apply policy_wf.
    + apply merge_lower_r; [exact Hy|now apply policy_wf].
    + now apply IH.
Qed.

(* ---- exactness on object-only documents ---------------------------------- *)
Section Exact.
  Variable S : schema.
  Variable frags : list (name * fragment).

  Let P_sel (n : nat) := forall rt s st c fs,
      assoc rt (s_types S) = Some (MObject c fs) ->
      oo_sel S frags n rt s = true ->
      walk_sel S frags n (Some (MObject c fs) :: st) s = reach_sel S frags n rt s.
  Let P_set (n : nat) := forall rt sels st c fs,
      assoc rt (s_types S) = Some (MObject c fs) ->
      oo_set S frags n rt sels = true ->
      walk_set S frags n (Some (MObject c fs) :: st) sels = reach_set S frags n rt sels.
  Let P_list (n : nat) := forall rt sels st c fs,
      assoc rt (s_types S) = Some (MObject c fs) ->
      oo_list S frags n rt sels = true ->
      walk_list S frags n (Some (MObject c fs) :: st) sels = reach_list S frags n rt sels.

  Lemma bindo_app_nil (x : outcome (list cc)) :
    bindo x (fun a => bindo (Ok []) (fun b => Ok (a ++ b))) = x.
  Proof. destruct x; cbn; [rewrite app_nil_r|..]; reflexivity. Qed.

  (* unfolding equations (the mutual fixpoints stay folded in the proofs) *)
  Lemma walk_sel_S n st s :
    walk_sel S frags (Datatypes.S n) st s =
    match s with
    | SField _ nm _ _ sub =>
        if name_eqb nm N_typename then Ok []
        else
          let fty := match cur st with
                     | Some t => match field_by_name t nm with
                                 | Some f => assoc (mf_ty f) (s_types S)
                                 | None => None
                                 end
                     | None => None
                     end in
          let st' := fty :: st in
          bindo (walk_set S frags n st' sub) (fun r => Ok (enter_field st' nm ++ r))
    | SSpread nm _ =>
        match assoc nm frags with
        | Some fr => walk_set S frags n st (fr_sels fr)
        | None => Ok []
        end
    | SInline cond _ sub =>
        walk_set S frags n (match cond with
                            | Some c => assoc c (s_types S) :: st
                            | None => st
                            end) sub
    end.
  Proof. reflexivity. Qed.

  Lemma walk_set_S n st x l :
    walk_set S frags (Datatypes.S n) st (x :: l) =
    bindo (walk_list S frags n st (x :: l)) (fun r => Ok (enter_set st ++ r)).
  Proof. reflexivity. Qed.

  Lemma walk_list_S n st x l :
    walk_list S frags (Datatypes.S n) st (x :: l) =
    bindo (walk_sel S frags n st x) (fun a =>
    bindo (walk_list S frags n st l) (fun b => Ok (a ++ b))).
  Proof. reflexivity. Qed.

  Lemma reach_sel_S n rt s :
    reach_sel S frags (Datatypes.S n) rt s =
    match s with
    | SField _ nm _ _ sub =>
        if name_eqb nm N_typename then Ok []
        else match obj_field S rt nm with
             | None => Ok []
             | Some f =>
                 bindo ((fix objs (rts : list name) : outcome (list cc) :=
                           match rts with
                           | [] => Ok []
                           | rt' :: l => bindo (reach_set S frags n rt' sub) (fun a =>
                                         bindo (objs l) (fun b => Ok (a ++ b)))
                           end) (possible_objects S (mf_ty f)))
                       (fun r => Ok (mf_cc f :: r))
             end
    | SSpread nm _ =>
        match assoc nm frags with
        | Some fr => if applies S (fr_cond fr) rt then reach_set S frags n rt (fr_sels fr) else Ok []
        | None => Ok []
        end
    | SInline (Some c) _ sub => if applies S c rt then reach_set S frags n rt sub else Ok []
    | SInline None _ sub => reach_set S frags n rt sub
    end.
  Proof. reflexivity. Qed.

  Lemma reach_set_S n rt x l :
    reach_set S frags (Datatypes.S n) rt (x :: l) =
    bindo (reach_list S frags n rt (x :: l)) (fun r => Ok (obj_cc S rt ++ r)).
  Proof. reflexivity. Qed.

  Lemma reach_list_S n rt x l :
    reach_list S frags (Datatypes.S n) rt (x :: l) =
    bindo (reach_sel S frags n rt x) (fun a =>
    bindo (reach_list S frags n rt l) (fun b => Ok (a ++ b))).
  Proof. reflexivity. Qed.

  Lemma oo_sel_S n rt s :
    oo_sel S frags (Datatypes.S n) rt s =
    match s with
    | SField _ nm _ _ sub =>
        name_eqb nm N_typename ||
        match obj_field S rt nm with
        | None => false
        | Some f =>
            match assoc (mf_ty f) (s_types S) with
            | Some (MObject _ _) => oo_set S frags n (mf_ty f) sub
            | Some MOther => match sub with [] => true | _ => false end
            | _ => false
            end
        end
    | SSpread nm _ =>
        match assoc nm frags with
        | Some fr => name_eqb (fr_cond fr) rt && oo_set S frags n rt (fr_sels fr)
        | None => false
        end
    | SInline (Some c) _ sub => name_eqb c rt && oo_set S frags n rt sub
    | SInline None _ sub => oo_set S frags n rt sub
    end.
  Proof. reflexivity. Qed.

  Lemma oo_set_S n rt x l :
    oo_set S frags (Datatypes.S n) rt (x :: l) = oo_list S frags n rt (x :: l).
  Proof. reflexivity. Qed.

  Lemma oo_list_S n rt x l :
    oo_list S frags (Datatypes.S n) rt (x :: l) =
    oo_sel S frags n rt x && oo_list S frags n rt l.
  Proof. reflexivity. Qed.

  Lemma exact_all n : P_sel n /\ P_set n /\ P_list n.
  Proof.
    induction n as [|n (IHsel & IHset & IHlist)].
    - split; [|split].
      + intros rt s st c fs _ H. discriminate H.
      + intros rt [|x l] st c fs _ H; [reflexivity|discriminate H].
      + intros rt [|x l] st c fs _ H; [reflexivity|discriminate H].
    - split; [|split].
      + (* selection *)
        intros rt s st c fs Hrt Hoo. rewrite walk_sel_S, reach_sel_S. rewrite oo_sel_S in Hoo.
        destruct s as [al nm args dirs sub|nm dirs|cond dirs sub].
        * destruct (name_eqb nm N_typename) eqn:Et; [reflexivity|].
          cbn [orb] in Hoo. unfold obj_field in *. rewrite Hrt in *.
          cbn [cur field_by_name fields_of].
          destruct (assoc nm fs) as [f|] eqn:Ef; [|discriminate Hoo].
          cbv zeta. unfold enter_field. cbn [par field_by_name fields_of]. rewrite Ef.
          unfold possible_objects.
          destruct (assoc (mf_ty f) (s_types S)) as [[c' fs'|? ?|?|]|] eqn:Ety; try discriminate Hoo.
          -- rewrite (IHset (mf_ty f) sub (Some (MObject c fs) :: st) c' fs' Ety Hoo).
             rewrite bindo_app_nil. reflexivity.
          -- destruct sub; [|discriminate Hoo].
             replace (walk_set S frags n (Some MOther :: Some (MObject c fs) :: st) []) with (@Ok (list cc) [])
               by (destruct n; reflexivity).
             reflexivity.
        * destruct (assoc nm frags) as [fr|]; [|discriminate Hoo].
          apply andb_true_iff in Hoo. destruct Hoo as [Hc Hoo].
          apply name_eqb_eq in Hc. unfold applies. rewrite Hc, name_eqb_refl. cbn [orb].
          now apply IHset.
        * destruct cond as [cnd|].
          -- apply andb_true_iff in Hoo. destruct Hoo as [Hc Hoo].
             apply name_eqb_eq in Hc. subst cnd. unfold applies. rewrite name_eqb_refl. cbn [orb].
             rewrite Hrt. now apply IHset.
          -- now apply IHset.
      + (* set *)
        intros rt sels st c fs Hrt Hoo. destruct sels as [|x l]; [reflexivity|].
        rewrite walk_set_S, reach_set_S. rewrite oo_set_S in Hoo.
        rewrite (IHlist rt (x :: l) st c fs Hrt Hoo).
        unfold enter_set, obj_cc. cbn [cur]. rewrite Hrt. reflexivity.
      + (* list *)
        intros rt sels st c fs Hrt Hoo. destruct sels as [|x l]; [reflexivity|].
        rewrite walk_list_S, reach_list_S. rewrite oo_list_S in Hoo.
        apply andb_true_iff in Hoo. destruct Hoo as [H1 H2].
        rewrite (IHsel rt x st c fs Hrt H1), (IHlist rt l st c fs Hrt H2). reflexivity.
  Qed.

  Lemma exact_op n o : oo_op S frags n o = true -> walk_op S frags n o = reach_op S frags n o.
  Proof.
    unfold oo_op, walk_op, reach_op. destruct (root_of S (op_ty o)) as [r|]; [|reflexivity].
    intros H. apply andb_true_iff in H. destruct H as [Hobj Hoo].
    unfold is_object in Hobj.
    destruct (assoc r (s_types S)) as [[c fs|? ?|?|]|] eqn:E; try discriminate Hobj.
    now apply (proj1 (proj2 (exact_all n))).
  Qed.

  Lemma exact_ops n ops :
    forallb (oo_op S frags n) ops = true -> walk_ops S frags n ops = reach_ops S frags n ops.
  Proof.
    induction ops as [|o l IH]; [reflexivity|]. cbn [forallb walk_ops reach_ops].
    intros H. apply andb_true_iff in H. destruct H as [H1 H2].
    rewrite (exact_op n o H1), (IH H2). reflexivity.
  Qed.
End Exact.

(* ---- statements used by props/C20.v -------------------------------------- *)
Lemma c20_exact S d n :
  forallb (oo_op S (doc_frags d) n) (doc_ops d) = true ->
  impl_policy S d n =
  bindo (reach_ops S (doc_frags d) n (doc_ops d)) (fun l => Ok (policy l)).
Proof. intros H. unfold impl_policy. now rewrite exact_ops. Qed.

Lemma c20_sound_objects S d n l :
  forallb (oo_op S (doc_frags d) n) (doc_ops d) = true ->
  reach_ops S (doc_frags d) n (doc_ops d) = Ok l ->
  forallb wf_cc l = true ->
  exists p, impl_policy S d n = Ok p /\ p = policy l /\ forall x, In x l -> lower p x = true.
Proof.
  intros Hoo Hr Hwf. exists (policy l). rewrite (c20_exact _ _ _ Hoo), Hr. cbn [bindo].
  repeat split. intros x Hx. apply lower_spec. apply policy_lower; [|exact Hx].
  apply Forall_forall. intros y Hy. apply wf_spec.
  rewrite forallb_forall in Hwf. now apply Hwf.
Qed.

(* Whatever the document, the policy is at least as restrictive as every
   object/field policy the visitor merged. *)
Lemma c20_visited_lower S d n l :
  walk_ops S (doc_frags d) n (doc_ops d) = Ok l ->
  forallb wf_cc l = true ->
  exists p, impl_policy S d n = Ok p /\ forall x, In x l -> lower p x = true.
Proof.
  intros Hw Hwf. exists (policy l). unfold impl_policy. rewrite Hw. split; [reflexivity|].
  intros x Hx. apply lower_spec. apply policy_lower; [|exact Hx].
  apply Forall_forall. intros y Hy. apply wf_spec. rewrite forallb_forall in Hwf. now apply Hwf.
Qed.

(* The check the harness evaluates agrees with the theorem: outside the
   known class the model satisfies the specification. *)
Lemma c20_check_complete S d n p l :
  known_class S d n = false ->
  impl_policy S d n = Ok p ->
  reach_ops S (doc_frags d) n (doc_ops d) = Ok l ->
  forallb wf_cc l = true ->
  spec_ok S d n p = Ok true.
Proof.
  unfold known_class. intros Hk Hp Hr Hwf. apply negb_false_iff in Hk.
  destruct (c20_sound_objects S d n l Hk Hr Hwf) as (p' & Hp' & -> & Hl).
  rewrite Hp in Hp'. injection Hp' as ->.
  unfold spec_ok. rewrite Hr. cbn [bindo]. rewrite Hk.
  replace (forallb (lower (policy l)) l) with true.
  - cbn [andb]. unfold cc_eqb. rewrite Bool.eqb_reflx, Z.eqb_refl. reflexivity.
  - symmetry. apply forallb_forall. exact Hl.
Qed.

(* ---- refutation: an object policy behind an interface field is ignored --- *)
Definition pet_schema : schema :=
  {| s_types :=
       [ (10%N, MObject cc_default [(20%N, {| mf_ty := 11%N; mf_cc := cc_default |})]);       (* Query { pet: Pet } *)
         (11%N, MInterface [(21%N, {| mf_ty := 13%N; mf_cc := cc_default |})] [12%N]);        (* interface Pet { id } *)
         (12%N, MObject {| cc_pub := false; cc_age := 10 |}
                        [(21%N, {| mf_ty := 13%N; mf_cc := cc_default |})]);                  (* Dog: private, 10s *)
         (13%N, MOther) ];
     s_query := 10%N; s_mutation := None; s_subscription := None |}.

Definition pet_doc : document :=
  {| doc_ops := [ {| op_name := None; op_ty := OpQuery; op_vars := []; op_dirs := [];
                     op_sels := [SField None 20%N [] [] [SField None 21%N [] [] []]] |} ];
     doc_frags := [] |}.

Lemma c20_abstract_refuted :
  exists S d n p l x,
    impl_policy S d n = Ok p /\ reach_ops S (doc_frags d) n (doc_ops d) = Ok l /\
    forallb wf_cc l = true /\ In x l /\ lower p x = false.
Proof.
  exists pet_schema, pet_doc, 20%nat, cc_default,
    [cc_default; cc_default; {| cc_pub := false; cc_age := 10 |}; cc_default],
    {| cc_pub := false; cc_age := 10 |}.
  repeat split; try (vm_compute; reflexivity). right; right; left; reflexivity.
Qed.

(* non-vacuity: an object-only document with a non-default policy *)
Definition obj_schema : schema :=
  {| s_types :=
       [ (10%N, MObject {| cc_pub := true; cc_age := 60 |}
                        [(20%N, {| mf_ty := 12%N; mf_cc := {| cc_pub := true; cc_age := 30 |} |})]);
         (12%N, MObject {| cc_pub := false; cc_age := 10 |}
                        [(21%N, {| mf_ty := 13%N; mf_cc := cc_default |})]);
         (13%N, MOther) ];
     s_query := 10%N; s_mutation := None; s_subscription := None |}.

Lemma c20_nonvacuous :
  forallb (oo_op obj_schema [] 20) (doc_ops pet_doc) = true /\
  impl_policy obj_schema pet_doc 20 = Ok {| cc_pub := false; cc_age := 10 |}.
Proof. split; vm_compute; reflexivity. Qed.

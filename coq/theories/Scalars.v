(* Scalars.v — C07: model of the built-in scalar mappings
     src/types/external/integers.rs, non_zero_integers.rs (driven by the
     translated table IntScalarGen.v), floats.rs, bool.rs, string.rs, char.rs,
     src/types/id.rs, src/resolver_utils/enum.rs (parse_enum / enum_value),
   seen through InputType::parse / InputType::to_value, and the specification
   "accepts exactly the values that denote a value of the Rust type and
   round-trips".  Executable definitions only; proofs are in ScalarsProofs.v. *)
From AG Require Export Base.
From AGgen Require Export IntScalarGen.
Open Scope Z_scope.

(* ------------------------------------------------------------------ values -- *)
(* async_graphql::Value (= ConstValue).  A serde_json Number is PosInt(u64) |
   NegInt(i64, negative) | Float(f64, finite): integers travel as one [Z] in
   [-2^63, 2^64), floats as their binary64 bit pattern. *)
Inductive gv :=
| GNull
| GInt (z : Z)
| GFloat (bits : N)
| GStr (s : str)
| GBool (b : bool)
| GBinary (l : list N)
| GEnum (s : str)
| GList (l : list gv)
| GObj (l : list (str * gv)).

(* values of the Rust types: integers, floats (bit pattern: 64 bits for f64, 32
   bits for f32), bool, strings (String, Box<str>, Arc<str>, ID), char, enum
   variant (index of the variant in declaration order). *)
Inductive rv :=
| RI (z : Z)
| RF (bits : N)
| RB (b : bool)
| RS (s : str)
| RC (c : cp)
| RE (i : N).

Inductive scalar :=
| SInt (id : N)              (* row of int_impls_gen *)
| SF32 | SF64
| SBool
| SString | SBoxStr | SArcStr
| SChar
| SID
| SEnum (items : list (str * N)).   (* EnumType::items(): (name, variant) in order *)

Definition str_eqb (a b : str) : bool := list_eqb N.eqb a b.

(* equality used to compare to_value results: scalar-shaped values only *)
Definition gv_eqb (a b : gv) : bool :=
  match a, b with
  | GNull, GNull => true
  | GInt x, GInt y => x =? y
  | GFloat x, GFloat y => N.eqb x y
  | GStr x, GStr y => str_eqb x y
  | GBool x, GBool y => Bool.eqb x y
  | GEnum x, GEnum y => str_eqb x y
  | _, _ => false
  end.

Definition rv_eqb (a b : rv) : bool :=
  match a, b with
  | RI x, RI y => x =? y
  | RF x, RF y => N.eqb x y
  | RB x, RB y => Bool.eqb x y
  | RS x, RS y => str_eqb x y
  | RC x, RC y => N.eqb x y
  | RE x, RE y => N.eqb x y
  | _, _ => false
  end.

(* results are compared up to the error message: every rejection is "an error" *)
Definition out_eqb {A} (f : A -> A -> bool) (a b : outcome A) : bool :=
  match a, b with
  | Ok x, Ok y => f x y
  | Err _, Err _ => true
  | Panic, Panic => true
  | _, _ => false
  end.

Definition is_err {A} (a : outcome A) : bool := match a with Err _ => true | _ => false end.

(* error kinds of the model (documentation; comparisons ignore them) *)
Definition E_TYPE : N := 1.      (* InputValueError::expected_type *)
Definition E_NUMBER : N := 2.    (* "Invalid number" *)
Definition E_RANGE : N := 3.     (* "Only integers from .. are accepted" *)
Definition E_CHAR : N := 4.      (* char: empty / more than one character *)
Definition E_ENUM : N := 5.      (* "Enumeration type does not contain value" *)
Definition E_NOIMPL : N := 9.    (* model only: unknown table row / ill-typed call *)

(* ---------------------------------------------------------------- integers -- *)
Definition i64_max : Z := 9223372036854775807.
Definition i64_min : Z := -9223372036854775808.
Definition u64_max : Z := 18446744073709551615.

(* the integers a Number can hold *)
Definition wf_int (z : Z) : bool := (i64_min <=? z) && (z <=? u64_max).

(* serde_json::Number::as_i64 / as_u64 on an integer Number *)
Definition as_i64 (z : Z) : option Z :=
  if z <? 0 then Some z (* NegInt *) else if z <=? i64_max then Some z else None.
Definition as_u64 (z : Z) : option Z :=
  if z <? 0 then None else Some z.

(* Rust primitive integer types; isize/usize are 64 bits wide (the target of
   this development; the harness refuses to run elsewhere). *)
Definition ity_signed (t : ity) : bool :=
  match t with I8 | I16 | I32 | I64 | Isize => true | _ => false end.
(* 2^bits and 2^(bits-1), as literals (the sweeps evaluate these millions of times) *)
Definition ity_mod (t : ity) : Z :=
  match t with
  | I8 | U8 => 256 | I16 | U16 => 65536 | I32 | U32 => 4294967296
  | I64 | U64 | Isize | Usize => 18446744073709551616
  end.
Definition ity_half (t : ity) : Z :=
  match t with
  | I8 | U8 => 128 | I16 | U16 => 32768 | I32 | U32 => 2147483648
  | I64 | U64 | Isize | Usize => 9223372036854775808
  end.
Definition ity_min (t : ity) : Z :=
  if ity_signed t then - ity_half t else 0.
Definition ity_max (t : ity) : Z :=
  if ity_signed t then ity_half t - 1 else ity_mod t - 1.

(* `x as t` between integer types: two's complement truncation (values already
   in the range of t are returned as they are: same function, cheaper to run) *)
Definition wrap (t : ity) (z : Z) : Z :=
  if (ity_min t <=? z) && (z <=? ity_max t) then z
  else if ity_signed t
  then (z + ity_half t) mod ity_mod t - ity_half t
  else z mod ity_mod t.

Definition eval_cond (n : Z) (c : cond) : bool :=
  match c with
  | CLtMin t c' => n <? wrap c' (ity_min t)
  | CGtMax t c' => n >? wrap c' (ity_max t)
  | CEqZero => n =? 0
  end.

(* ScalarType::parse of one table row *)
Definition parse_int (im : int_impl) (v : gv) : outcome Z :=
  match v with
  | GInt z =>
      match (match ii_acc im with AccI64 => as_i64 z | AccU64 => as_u64 z end) with
      | None => Err E_NUMBER
      | Some n =>
          if existsb (eval_cond n) (ii_conds im) then Err E_RANGE
          else
            let r := match ii_cast im with Some t => wrap t n | None => n end in
            if ii_unwrap im && (r =? 0) then Panic   (* NonZero*::new(0).unwrap() *)
            else Ok r
      end
  | GFloat _ => Err E_NUMBER      (* as_i64 / as_u64 of a Float Number is None *)
  | _ => Err E_TYPE
  end.

(* ScalarType::to_value of one table row (x : a value of the Rust type) *)
Definition to_value_int (im : int_impl) (x : Z) : gv :=
  GInt (match ii_tv_cast im with Some t => wrap t x | None => x end).

(* specification: the Rust type's value set *)
Definition in_ty (t : ity) (nz : bool) (x : Z) : bool :=
  (ity_min t <=? x) && (x <=? ity_max t) && negb (nz && (x =? 0)).

(* integral floats do not denote integers (GraphQL Int input coercion) *)
Definition spec_int (t : ity) (nz : bool) (v : gv) : outcome Z :=
  match v with
  | GInt z => if in_ty t nz z then Ok z else Err 0%N
  | _ => Err 0%N
  end.

(* ------------------------------------------------------------------ floats -- *)
(* Binary formats as (prec, emin, fmax): prec = significand bits incl. the
   hidden one, emin = exponent of the smallest ulp, fmax = all-ones exponent
   field.  Magnitudes are handled as  M * 2^E  with M, E integers. *)
Record fmt := { f_prec : Z; f_emin : Z; f_fmax : Z }.
Definition b64 : fmt := {| f_prec := 53; f_emin := -1074; f_fmax := 2047 |}.
Definition b32 : fmt := {| f_prec := 24; f_emin := -149; f_fmax := 255 |}.

Definition fmt_width (f : fmt) : Z := f_prec f - 1 + Z.log2 (f_fmax f + 1). (* bits below the sign *)
Definition inf_bits (f : fmt) : Z := f_fmax f * 2 ^ (f_prec f - 1).

(* round-half-even of M / 2^sh, sh > 0 *)
Definition round_shift (M sh : Z) : Z :=
  let q := Z.shiftr M sh in
  let r := M - Z.shiftl q sh in
  let half := Z.shiftl 1 (sh - 1) in
  if r <? half then q
  else if half <? r then q + 1
  else if Z.even q then q else q + 1.

(* magnitude bits of  M * 2^E  (M >= 0) rounded to nearest-even in format f;
   overflow gives the infinity pattern (what `as f64` / `as f32` do) *)
Definition encode (f : fmt) (M E : Z) : Z :=
  if M =? 0 then 0
  else
    let k := Z.log2 M + 1 in
    let e' := Z.max (k + E - f_prec f) (f_emin f) in
    let sh := e' - E in
    let M' := if sh <=? 0 then Z.shiftl M (- sh) else round_shift M sh in
    let b := (e' - f_emin f) * 2 ^ (f_prec f - 1) + M' in
    if inf_bits f <=? b then inf_bits f else b.

(* magnitude bits -> (M, E); also defined on the infinity pattern, where it
   yields 2^emax (used as the overflow threshold by the specification) *)
Definition decode (f : fmt) (b : Z) : Z * Z :=
  let ef := b / 2 ^ (f_prec f - 1) in
  let m := b mod 2 ^ (f_prec f - 1) in
  if ef =? 0 then (m, f_emin f) else (m + 2 ^ (f_prec f - 1), f_emin f + ef - 1).

Definition mag (f : fmt) (bits : Z) : Z := bits mod 2 ^ fmt_width f.
Definition sgn (f : fmt) (bits : Z) : Z := bits / 2 ^ fmt_width f.
Definition finite (f : fmt) (bits : Z) : bool := mag f bits <? inf_bits f.
Definition with_sign (f : fmt) (s : Z) (m : Z) : Z := s * 2 ^ fmt_width f + m.

(* u64/i64 `as f64` *)
Definition int_to_f64 (z : Z) : N :=
  Z.to_N (with_sign b64 (if z <? 0 then 1 else 0) (encode b64 (Z.abs z) 0)).

(* finite f64 `as f32` *)
Definition f64_to_f32 (b : N) : N :=
  let b := Z.of_N b in
  let '(M, E) := decode b64 (mag b64 b) in
  Z.to_N (with_sign b32 (sgn b64 b) (encode b32 M E)).

(* finite f32 `as f64` (exact) *)
Definition f32_to_f64 (b : N) : N :=
  let b := Z.of_N b in
  let '(M, E) := decode b32 (mag b32 b) in
  Z.to_N (with_sign b64 (sgn b32 b) (encode b64 M E)).

(* Number::as_f64 *)
Definition num_as_f64 (v : gv) : option N :=
  match v with
  | GInt z => Some (int_to_f64 z)
  | GFloat b => Some b
  | _ => None
  end.

Definition parse_f64 (v : gv) : outcome N :=
  match num_as_f64 v with Some b => Ok b | None => Err E_TYPE end.
Definition parse_f32 (v : gv) : outcome N :=
  match num_as_f64 v with Some b => Ok (f64_to_f32 b) | None => Err E_TYPE end.

(* Number::from_f64 is None for non-finite floats -> Value::Null *)
Definition to_value_f64 (b : N) : gv :=
  if finite b64 (Z.of_N b) then GFloat b else GNull.
Definition to_value_f32 (b : N) : gv :=
  if finite b32 (Z.of_N b) then GFloat (f32_to_f64 b) else GNull.

(* Specification of "the float nearest to x = Mx * 2^Ex (ties to even)",
   written on the ordered magnitude patterns without reference to [encode]:
   V f e0 b is the magnitude denoted by pattern b, scaled by 2^-e0. *)
Definition scaled (e0 : Z) (ME : Z * Z) : Z := fst ME * 2 ^ (snd ME - e0).
Definition V (f : fmt) (e0 b : Z) : Z := scaled e0 (decode f b).

Definition nearest_even (f : fmt) (Mx Ex : Z) (b : Z) : bool :=
  let e0 := Z.min Ex (f_emin f) in
  let X2 := 2 * scaled e0 (Mx, Ex) in
  (0 <=? b) && (b <? inf_bits f) &&
  (* not farther than the lower neighbour *)
  (if b =? 0 then true
   else let s := V f e0 (b - 1) + V f e0 b in
        if Z.even b then s <=? X2 else s <? X2) &&
  (* not farther than the upper neighbour (for the largest finite pattern the
     neighbour is 2^emax: beyond the midpoint the value is out of range) *)
  (let s := V f e0 b + V f e0 (b + 1) in
   if Z.even b then X2 <=? s else X2 <? s).

(* x = Mx * 2^Ex lies in the range that rounds to a finite value of f *)
Definition representable (f : fmt) (Mx Ex : Z) : bool :=
  let e0 := Z.min Ex (f_emin f) in
  2 * scaled e0 (Mx, Ex) <? V f e0 (inf_bits f - 1) + V f e0 (inf_bits f).

(* the exact magnitude and sign a numeric value denotes: (sign, M, E) *)
Definition num_value (v : gv) : option (Z * Z * Z) :=
  match v with
  | GInt z => Some (if z <? 0 then 1 else 0, Z.abs z, 0)
  | GFloat b => let b := Z.of_N b in
                let '(M, E) := decode b64 (mag b64 b) in Some (sgn b64 b, M, E)
  | _ => None
  end.

(* spec: numbers that round to a finite float of the type are accepted and
   yield the nearest float of the same sign; everything else is rejected *)
Definition spec_float_ok (f : fmt) (v : gv) (r : outcome N) : bool :=
  match num_value v with
  | Some (s, M, E) =>
      if representable f M E then
        match r with
        | Ok b => let b := Z.of_N b in
                  (b <? 2 * 2 ^ fmt_width f) && (sgn f b =? s) && nearest_even f M E (mag f b)
        | _ => false
        end
      else is_err r
  | None => is_err r
  end.

(* ------------------------------------------------- bool, strings, char, ID -- *)
Definition parse_bool (v : gv) : outcome bool :=
  match v with GBool b => Ok b | _ => Err E_TYPE end.
Definition to_value_bool (b : bool) : gv := GBool b.

Definition parse_string (v : gv) : outcome str :=
  match v with GStr s => Ok s | _ => Err E_TYPE end.
Definition to_value_string (s : str) : gv := GStr s.

Definition parse_char (v : gv) : outcome cp :=
  match v with
  | GStr [c] => Ok c
  | GStr _ => Err E_CHAR
  | _ => Err E_TYPE
  end.
Definition to_value_char (c : cp) : gv := GStr [c].

(* decimal rendering of an integer (Number's Display for integers) *)
Fixpoint dec_digits (fuel : nat) (n : N) (acc : str) : str :=
  match fuel with
  | O => acc
  | S fuel' =>
      let acc' := (48 + n mod 10)%N :: acc in
      if (n <? 10)%N then acc' else dec_digits fuel' (n / 10)%N acc'
  end.
Definition dec_N (n : N) : str := dec_digits (S (N.to_nat (N.log2 n))) n [].
Definition dec_Z (z : Z) : str :=
  if z <? 0 then 45%N :: dec_N (Z.to_N (- z)) else dec_N (Z.to_N z).

(* ID: `Value::Number(n) if n.is_i64() || n.is_u64()` | `Value::String(s)` *)
Definition parse_id (v : gv) : outcome str :=
  match v with
  | GInt z => match as_i64 z with
              | Some _ => Ok (dec_Z z)
              | None => match as_u64 z with Some _ => Ok (dec_Z z) | None => Err E_TYPE end
              end
  | GStr s => Ok s
  | _ => Err E_TYPE
  end.
Definition to_value_id (s : str) : gv := GStr s.

(* spec: any string, any integer (as its decimal text) *)
Definition spec_id (v : gv) : outcome str :=
  match v with
  | GInt z => Ok (dec_Z z)
  | GStr s => Ok s
  | _ => Err 0%N
  end.

(* ------------------------------------------------------------------- enums -- *)
Fixpoint find_name (s : str) (items : list (str * N)) : option N :=
  match items with
  | [] => None
  | (n, x) :: l => if str_eqb n s then Some x else find_name s l
  end.
Fixpoint find_value (x : N) (items : list (str * N)) : option str :=
  match items with
  | [] => None
  | (n, y) :: l => if N.eqb y x then Some n else find_value x l
  end.

(* resolver_utils::parse_enum *)
Definition parse_enum (items : list (str * N)) (v : gv) : outcome N :=
  match v with
  | GEnum s | GStr s =>
      match find_name s items with Some x => Ok x | None => Err E_ENUM end
  | _ => Err E_TYPE
  end.
(* resolver_utils::enum_value (`find(..).unwrap()`) *)
Definition enum_value (items : list (str * N)) (x : N) : outcome gv :=
  match find_value x items with Some n => Ok (GEnum n) | None => Panic end.

(* ------------------------------------------------------ the scalar mapping -- *)
Definition lift {A} (f : A -> rv) (o : outcome A) : outcome rv := bindo o (fun a => Ok (f a)).

Definition parse_scalar (sc : scalar) (v : gv) : outcome rv :=
  match sc with
  | SInt id => match assoc id int_impls_gen with
               | Some im => lift RI (parse_int im v)
               | None => Err E_NOIMPL
               end
  | SF32 => lift RF (parse_f32 v)
  | SF64 => lift RF (parse_f64 v)
  | SBool => lift RB (parse_bool v)
  | SString | SBoxStr | SArcStr => lift RS (parse_string v)
  | SChar => lift RC (parse_char v)
  | SID => lift RS (parse_id v)
  | SEnum items => lift RE (parse_enum items v)
  end.

(* InputType::parse(Option<Value>): `value.unwrap_or_default()` *)
Definition parse_input (sc : scalar) (ov : option gv) : outcome rv :=
  parse_scalar sc (match ov with Some v => v | None => GNull end).

Definition to_value_scalar (sc : scalar) (x : rv) : outcome gv :=
  match sc, x with
  | SInt id, RI z => match assoc id int_impls_gen with
                     | Some im => Ok (to_value_int im z)
                     | None => Err E_NOIMPL
                     end
  | SF32, RF b => Ok (to_value_f32 b)
  | SF64, RF b => Ok (to_value_f64 b)
  | SBool, RB b => Ok (to_value_bool b)
  | (SString | SBoxStr | SArcStr), RS s => Ok (to_value_string s)
  | SChar, RC c => Ok (to_value_char c)
  | SID, RS s => Ok (to_value_id s)
  | SEnum items, RE i => enum_value items i
  | _, _ => Err E_NOIMPL
  end.

(* ------------------------------------------------------------ specification -- *)
(* The Rust type each table row is declared for (from the impl header). *)
Definition row_ty (id : N) : option (ity * bool) :=
  match assoc id int_impls_gen with
  | Some im => Some (ii_prim im, ii_nonzero im)
  | None => None
  end.

Definition spec_enum (items : list (str * N)) (v : gv) : outcome N :=
  match v with
  | GEnum s | GStr s => match find_name s items with Some x => Ok x | None => Err 0%N end
  | _ => Err 0%N
  end.

(* [r] is the result the specification demands for coercing [v] to [sc] *)
Definition spec_parse_ok (sc : scalar) (v : gv) (r : outcome rv) : bool :=
  match sc with
  | SInt id => match row_ty id with
               | Some (t, nz) => out_eqb rv_eqb r (lift RI (spec_int t nz v))
               | None => false
               end
  | SF32 => spec_float_ok b32 v (bindo r (fun x => match x with RF b => Ok b | _ => Panic end))
  | SF64 => spec_float_ok b64 v (bindo r (fun x => match x with RF b => Ok b | _ => Panic end))
  | SBool => out_eqb rv_eqb r (match v with GBool b => Ok (RB b) | _ => Err 0%N end)
  | SString | SBoxStr | SArcStr => out_eqb rv_eqb r (match v with GStr s => Ok (RS s) | _ => Err 0%N end)
  | SChar => out_eqb rv_eqb r (match v with GStr [c] => Ok (RC c) | _ => Err 0%N end)
  | SID => out_eqb rv_eqb r (lift RS (spec_id v))
  | SEnum items => out_eqb rv_eqb r (lift RE (spec_enum items v))
  end.

(* a value of the Rust type [sc] *)
Definition wf_rv (sc : scalar) (x : rv) : bool :=
  match sc, x with
  | SInt id, RI z => match row_ty id with Some (t, nz) => in_ty t nz z | None => false end
  | SF32, RF b => (b <? 2 ^ 32)%N
  | SF64, RF b => (b <? 2 ^ 64)%N
  | SBool, RB _ => true
  | (SString | SBoxStr | SArcStr | SID), RS _ => true
  | SChar, RC _ => true
  | SEnum items, RE i => match find_value i items with Some _ => true | None => false end
  | _, _ => false
  end.

Definition wf_gv (v : gv) : bool :=
  match v with
  | GInt z => wf_int z
  | GFloat b => finite b64 (Z.of_N b) && (b <? 2 ^ 64)%N
  | _ => true
  end.

(* ------------------------------------------------------------ known classes -- *)
(* 1: f32 offered a number beyond the f32 range (accepted as an infinity)
   2: (repaired: ID used to reject integers above i64::MAX; the class is empty now)
   3: to_value of a non-finite float is null, which does not coerce back *)
Definition known_parse (sc : scalar) (v : gv) : N :=
  match sc, v with
  | SF32, (GInt _ | GFloat _) =>
      match num_value v with
      | Some (_, M, E) => if representable b32 M E then 0%N else 1%N
      | None => 0%N
      end
  | _, _ => 0%N
  end.

Definition known_tv (sc : scalar) (x : rv) : N :=
  match sc, x with
  | SF32, RF b => if finite b32 (Z.of_N b) then 0%N else 3%N
  | SF64, RF b => if finite b64 (Z.of_N b) then 0%N else 3%N
  | _, _ => 0%N
  end.

(* ------------------------------------------------- per-case verdict functions -- *)
(* PARSE: the scalar, the offered value (None = absent) and what the real
   InputType::parse answered. *)
Definition check_parse (sc : scalar) (ov : option gv) (impl : outcome rv) : N :=
  let v := match ov with Some v => v | None => GNull end in
  let m := parse_input sc ov in
  if negb (wf_gv v) then 9%N   (* the harness printed a value no Number can hold *)
  else verdict (out_eqb rv_eqb impl m) (spec_parse_ok sc v m) (spec_parse_ok sc v impl) (known_parse sc v).

(* TV: a Rust value, what to_value produced for it, and what parsing that
   produced.  Specification: the round trip yields the value itself. *)
Definition check_tv (sc : scalar) (x : rv) (impl_v : outcome gv) (impl_back : outcome rv) : N :=
  let mv := to_value_scalar sc x in
  let mb := bindo mv (fun v => parse_scalar sc v) in
  if negb (wf_rv sc x) then 9%N
  else verdict (out_eqb gv_eqb impl_v mv && out_eqb rv_eqb impl_back mb)
               (out_eqb rv_eqb mb (Ok x)) (out_eqb rv_eqb impl_back (Ok x)) (known_tv sc x).

(* SWEEP: integers lo, lo+1, ... offered to table row [id]; the real answers are
   run-length encoded: (count, Ok d) = the next [count] inputs z gave Ok (z+d). *)
Definition delta_out (z : Z) (o : outcome Z) : outcome rv :=
  match o with Ok d => Ok (RI (z + d)) | Err c => Err c | Panic => Panic | OutOfFuel => OutOfFuel end.

Definition sweep_step (sc : scalar) (o : outcome Z) (st : Z * N) : Z * N :=
  let '(z, acc) := st in
  (z + 1, if N.eqb acc 0 then check_parse sc (Some (GInt z)) (delta_out z o) else acc).

Fixpoint sweep_runs (sc : scalar) (runs : list (N * outcome Z)) (st : Z * N) : Z * N :=
  match runs with
  | [] => st
  | (cnt, o) :: l => sweep_runs sc l (N.iter cnt (sweep_step sc o) st)
  end.

Definition check_sweep (id : N) (lo : Z) (runs : list (N * outcome Z)) : N :=
  snd (sweep_runs (SInt id) runs (lo, 0%N)).

(* SWEEPTV: all values x = lo, lo+1, ... of the Rust type of row [id];
   (count, dv, dr): to_value x = Int (x+dv) and parsing it gave Ok (x+dr). *)
Definition sweeptv_step (sc : scalar) (o : outcome Z * outcome Z) (st : Z * N) : Z * N :=
  let '(x, acc) := st in
  (x + 1, if N.eqb acc 0
          then check_tv sc (RI x)
                 (match fst o with Ok d => Ok (GInt (x + d)) | Err c => Err c | Panic => Panic | OutOfFuel => OutOfFuel end)
                 (delta_out x (snd o))
          else acc).

Fixpoint sweeptv_runs (sc : scalar) (runs : list (N * (outcome Z * outcome Z))) (st : Z * N) : Z * N :=
  match runs with
  | [] => st
  | (cnt, o) :: l => sweeptv_runs sc l (N.iter cnt (sweeptv_step sc o) st)
  end.

Definition check_sweeptv (id : N) (lo : Z) (runs : list (N * (outcome Z * outcome Z))) : N :=
  snd (sweeptv_runs (SInt id) runs (lo, 0%N)).

(* ------------------------------------------------ end to end (Schema::execute) -- *)
(* An echo field `f(v: T!) : T!` of a static schema, the value supplied as an
   inline literal, a variable or a variable default.  The pipeline is
     validation (arguments_of_correct_type / default_values_of_correct_type:
       non-null test, then the is_valid closure REGISTERED for T's GraphQL type
       name, or the enum-value test of validation/utils.rs)
     -> InputType::parse -> resolver -> to_value.
   All integer types are registered under the name "Int"; the closure kept in
   the registry is the one of the type registered first, i32 (`n.is_i64()`). *)
Definition valid_registered (sc : scalar) (v : gv) : bool :=
  match sc, v with
  | SInt _, GInt z => match as_i64 z with Some _ => true | None => false end
  | (SF32 | SF64), (GInt _ | GFloat _) => true
  | SBool, GBool _ => true
  | (SString | SBoxStr | SArcStr | SChar), GStr _ => true
  | SID, (GInt _ | GStr _) => true
  | SEnum items, (GEnum s | GStr s) => match find_name s items with Some _ => true | None => false end
  | _, _ => false
  end.

Definition e2e_model (sc : scalar) (ov : option gv) : outcome gv :=
  match ov with
  | None | Some GNull => Err E_TYPE              (* required argument *)
  | Some v =>
      if valid_registered sc v
      then bindo (parse_scalar sc v) (fun x => to_value_scalar sc x)
      else Err E_TYPE
  end.

(* reading an echoed value back as a value of the Rust type *)
Definition read_back (sc : scalar) (g : gv) : option rv :=
  match sc, g with
  | SInt _, GInt z => Some (RI z)
  | SF64, GFloat b => Some (RF b)
  | SF32, GFloat b => if N.eqb (f32_to_f64 (f64_to_f32 b)) b then Some (RF (f64_to_f32 b)) else None
  | SBool, GBool b => Some (RB b)
  | (SString | SBoxStr | SArcStr | SID), GStr s => Some (RS s)
  | SChar, GStr [c] => Some (RC c)
  | SEnum items, GEnum s => match find_name s items with Some i => Some (RE i) | None => None end
  | _, _ => None
  end.

(* specification: the pipeline accepts exactly the values that denote a value
   of the type, and the echoed output is that value's serialisation *)
Definition spec_e2e_ok (sc : scalar) (v : gv) (r : outcome gv) : bool :=
  match r with
  | Ok g => match read_back sc g with
            | Some x => spec_parse_ok sc v (Ok x)
            | None => false
            end
  | _ => spec_parse_ok sc v (Err 0%N) && is_err r
  end.

(* 4: an unsigned 64-bit integer scalar offered an integer above i64::MAX: in
      the domain, accepted by parse, rejected by the validation phase because
      the closure registered for "Int" is i32's `n.is_i64()` *)
Definition known_e2e (sc : scalar) (v : gv) : N :=
  match sc, v with
  | SInt id, GInt z =>
      match row_ty id with
      | Some ((U64 | Usize), _) => if i64_max <? z then 4%N else 0%N
      | _ => 0%N
      end
  | _, _ => known_parse sc v
  end.

(* E2E: scalar, supply route (0 literal, 1 variable, 2 variable default; kept
   for the replay), the value the pipeline saw, what Schema::execute answered
   (Ok echoed value | Err) *)
Definition check_e2e (sc : scalar) (route : N) (ov : option gv) (impl : outcome gv) : N :=
  let v := match ov with Some v => v | None => GNull end in
  let m := e2e_model sc ov in
  if negb (wf_gv v) then 9%N
  else verdict (out_eqb gv_eqb impl m) (spec_e2e_ok sc v m) (spec_e2e_ok sc v impl) (known_e2e sc v).

(* Sched.v — the future tree the static executor builds for one request, with
   a polling semantics under which resolvers complete in an order chosen by a
   scheduler (C05, and the serial half of C04).

   Modelled code (what it DOES):
   * futures-util 0.3.34 `TryJoinAll`, small variant (<= 30 children,
     src/future/try_join_all.rs `poll`, try_maybe_done.rs): every poll walks the
     children in index order, polls each child that is not `Done`, stops the
     walk at the first child that returns an error, returns that error and
     drops every child (started or not).  Used by
     src/resolver_utils/container.rs::resolve_container_inner (parallel) and
     src/resolver_utils/list.rs::resolve_list.                          [FAll]
   * resolve_container_inner with parallel = false (mutation root,
     src/schema.rs::execute_once): `for field in fields { field.await? }`. [FSeq]
   * src/types/external/optional.rs `Option<T>::resolve`: an inner error is
     pushed on the shared list `QueryEnvInner.errors` (Context::add_error) at the
     moment the inner future completes, the value becomes null.          [FCatch]
   * resolve_list's `.map_err(|err| ctx_idx.set_error_path(err))`.       [FMapErr]
   * a field future (Fields::add_set + resolve_field_async + the harness
     resolver family.rs::fetch): log Start; if the path is gated register a
     oneshot and wait; log End; on a resolver error return it, else run the
     completion future of the returned value.                            [FRes]
   A schedule is the list of gate registration numbers in the order in which
   the scheduler opens them; after every opening the root future is polled once
   (the harness polls with a no-op waker). *)
From AG Require Export ExecCheck.
Open Scope N_scope.

Inductive item := IStart (p : path) | IEnd (p : path) | IErr (p : path).
Inductive phase := PNew | PWait (id : nat).
Inductive kind := KObj (fuel : nat) (keys : list name) | KList.

Inductive fut :=
| FDone (r : ires)
| FRes (p : path) (gated : bool) (ph : phase) (k : fut)
| FAll (kd : kind) (cs : list fut)
| FSeq (kd : kind) (done : list value) (cs : list fut)
| FCatch (f : fut)
| FMapErr (p : path) (f : fut).

Definition build_val (kd : kind) (vs : list value) : value :=
  match kd with
  | KObj fuel keys => create_value_object fuel (combine keys vs)
  | KList => VList vs
  end.

(* ------------------------------------------------------------- polling --- *)
Definition pres := (fut * nat * list item)%type.

(* every child is TryMaybeDone::Done *)
Fixpoint all_done (cs : list fut) : option (list value) :=
  match cs with
  | [] => Some []
  | FDone (IVal v) :: r => match all_done r with Some l => Some (v :: l) | None => None end
  | _ :: _ => None
  end.

Definition opened (g : option nat) (id : nat) : bool :=
  match g with Some x => Nat.eqb x id | None => false end.

Section Walk.
  Variable pl : fut -> nat -> pres.

  (* one pass of TryJoinAll::poll over the children *)
  Fixpoint walk (cs : list fut) (n : nat) : list fut * option path * nat * list item :=
    match cs with
    | [] => ([], None, n, [])
    | c :: r =>
        let '(c', n1, l1) := pl c n in
        match c' with
        | FDone (IFail p) => (c' :: r, Some p, n1, l1)
        | _ => let '(r', e, n2, l2) := walk r n1 in (c' :: r', e, n2, l1 ++ l2)
        end
    end.

  (* the serial loop: await the head; on success go on with the next one *)
  Fixpoint seq (kd : kind) (done : list value) (cs : list fut) (n : nat) : pres :=
    match cs with
    | [] => (FDone (IVal (build_val kd done)), n, [])
    | c :: r =>
        let '(c', n1, l1) := pl c n in
        match c' with
        | FDone (IVal v) => let '(f, n2, l2) := seq kd (done ++ [v]) r n1 in (f, n2, l1 ++ l2)
        | FDone (IFail p) => (FDone (IFail p), n1, l1)
        | _ => (FSeq kd done (c' :: r), n1, l1)
        end
    end.
End Walk.

(* one poll of a future; [g] = the gate opened since the previous poll;
   [n] = number of gates registered so far.  The future is complete iff the
   new state is [FDone _]. *)
Fixpoint poll (g : option nat) (f : fut) (n : nat) {struct f} : pres :=
  match f with
  | FDone r => (f, n, [])
  | FRes p gated ph k =>
      match ph with
      | PNew =>
          if gated then (FRes p gated (PWait n) k, S n, [IStart p])
          else let '(k', n', l) := poll g k n in (k', n', IStart p :: IEnd p :: l)
      | PWait id =>
          if opened g id then let '(k', n', l) := poll g k n in (k', n', IEnd p :: l)
          else (f, n, [])
      end
  | FAll kd cs =>
      let '(cs', e, n', l) := walk (poll g) cs n in
      match e with
      | Some p => (FDone (IFail p), n', l)
      | None => match all_done cs' with
                | Some vs => (FDone (IVal (build_val kd vs)), n', l)
                | None => (FAll kd cs', n', l)
                end
      end
  | FSeq kd done cs => seq (poll g) kd done cs n
  | FCatch f1 =>
      let '(f', n', l) := poll g f1 n in
      match f' with
      | FDone (IVal v) => (FDone (IVal v), n', l)
      | FDone (IFail p) => (FDone (IVal VNull), n', l ++ [IErr p])
      | _ => (FCatch f', n', l)
      end
  | FMapErr p f1 =>
      let '(f', n', l) := poll g f1 n in
      match f' with
      | FDone (IVal v) => (FDone (IVal v), n', l)
      | FDone (IFail _) => (FDone (IFail p), n', l)
      | _ => (FMapErr p f', n', l)
      end
  end.

Definition errs_of (l : list item) : list path :=
  flat_map (fun i => match i with IErr p => [p] | _ => [] end) l.
Definition is_ev (i : item) : bool := match i with IErr _ => false | _ => true end.
Definition evs_of (l : list item) : list item := filter is_ev l.

Record sresp := { sr_data : value; sr_errors : list path; sr_events : list item }.

Fixpoint run_st (s : list nat) (st : pres) : pres :=
  match s with
  | [] => st
  | g :: r => let '(f, n, l) := st in
              let '(f', n', l') := poll (Some g) f n in
              run_st r (f', n', l ++ l')
  end.
Definition start (t : fut) : pres := poll None t 0.
Definition run_log (s : list nat) (t : fut) : pres := run_st s (start t).

(* Schema::execute_once: the root error first, then the shared list *)
Definition resp_of (st : pres) : option sresp :=
  let '(f, _, l) := st in
  match f with
  | FDone (IVal v) => Some {| sr_data := v; sr_errors := errs_of l; sr_events := evs_of l |}
  | FDone (IFail p) => Some {| sr_data := VNull; sr_errors := p :: errs_of l; sr_events := evs_of l |}
  | _ => None
  end.
(* None: the schedule ended with resolvers still waiting (not fair for this tree) *)
Definition run (s : list nat) (t : fut) : option sresp := resp_of (run_log s t).

(* gates currently registered and not yet opened, in tree order *)
Fixpoint waiting (f : fut) : list nat :=
  match f with
  | FDone _ => []
  | FRes _ _ (PWait id) _ => [id]
  | FRes _ _ PNew _ => []
  | FAll _ cs => flat_map waiting cs
  | FSeq _ _ cs => match cs with c :: _ => waiting c | [] => [] end
  | FCatch f1 => waiting f1
  | FMapErr _ f1 => waiting f1
  end.

(* ------------------------------------------------- denotation (no schedule) --- *)
(* What a future yields when it runs to completion, read off the tree without
   any schedule: its value, or the error of its first failing child. *)
Definition dvalue (r : ires) : option value := match r with IVal v => Some v | IFail _ => None end.

Section DenList.
  Variable dn : fut -> ires.
  Variable de : fut -> list path.
  Fixpoint den_list (cs : list fut) (acc : list value) : list value + path :=
    match cs with
    | [] => inl acc
    | c :: r => match dn c with IVal v => den_list r (acc ++ [v]) | IFail p => inr p end
    end.
  (* errors caught below a serial loop: up to and including the first failing child *)
  Fixpoint derrs_seq (cs : list fut) : list path :=
    match cs with
    | [] => []
    | c :: r => de c ++ match dn c with IVal _ => derrs_seq r | IFail _ => [] end
    end.
End DenList.

Fixpoint den (f : fut) : ires :=
  match f with
  | FDone r => r
  | FRes _ _ _ k => den k
  | FAll kd cs => match den_list den cs [] with inl vs => IVal (build_val kd vs) | inr p => IFail p end
  | FSeq kd done cs => match den_list den cs done with inl vs => IVal (build_val kd vs) | inr p => IFail p end
  | FCatch f1 => match den f1 with IVal v => IVal v | IFail _ => IVal VNull end
  | FMapErr p f1 => match den f1 with IVal v => IVal v | IFail _ => IFail p end
  end.

Definition failsb (f : fut) : bool := match den f with IFail _ => true | IVal _ => false end.

(* errors every Option catch below [f] records when nothing is dropped *)
Fixpoint derrs (f : fut) : list path :=
  match f with
  | FDone _ => []
  | FRes _ _ _ k => derrs k
  | FAll _ cs => flat_map derrs cs
  | FSeq _ _ cs => derrs_seq den derrs cs
  | FCatch f1 => derrs f1 ++ match den f1 with IFail p => [p] | IVal _ => [] end
  | FMapErr _ f1 => derrs f1
  end.

(* the reference response of a tree *)
Definition ref_data (t : fut) : value := match den t with IVal v => v | IFail _ => VNull end.
Definition ref_errors (t : fut) : list path :=
  match den t with IFail p => [p] | IVal _ => [] end ++ derrs t.

(* no failing resolver anywhere below *)
Fixpoint quiet (f : fut) : bool :=
  match f with
  | FDone (IVal _) => true
  | FDone (IFail _) => false
  | FRes _ _ _ k => quiet k
  | FAll _ cs => forallb quiet cs
  | FSeq _ _ cs => forallb quiet cs
  | FCatch f1 => quiet f1
  | FMapErr _ f1 => quiet f1
  end.

(* two children of one try_join_all are compatible: if one fails (its error
   escapes and makes the join drop the other), the other raises nothing *)
Definition compat (c d : fut) : bool :=
  (negb (failsb c) || quiet d) && (negb (failsb d) || quiet c).
Fixpoint pairwise (cs : list fut) : bool :=
  match cs with [] => true | c :: r => forallb (compat c) r && pairwise r end.

Section RfSeq.
  Variable rf : fut -> bool.
  Fixpoint rf_seq (cs : list fut) : bool :=
    match cs with [] => true | c :: r => rf c && (if failsb c then true else rf_seq r) end.
End RfSeq.

Fixpoint race_free (f : fut) : bool :=
  match f with
  | FDone _ => true
  | FRes _ _ _ k => race_free k
  | FAll _ cs => forallb race_free cs && pairwise cs
  | FSeq _ _ cs => rf_seq race_free cs
  | FCatch f1 => race_free f1
  | FMapErr _ f1 => race_free f1
  end.

(* some try_join_all has two failing children (the class DESIGN §7 confirmed) *)
Fixpoint two_failing (f : fut) : bool :=
  match f with
  | FDone _ => false
  | FRes _ _ _ k => two_failing k
  | FAll _ cs => (2 <=? length (filter failsb cs))%nat || existsb two_failing cs
  | FSeq _ _ cs => existsb two_failing cs
  | FCatch f1 => two_failing f1
  | FMapErr _ f1 => two_failing f1
  end.

(* known classes: 1 uncaught-race, 2 uncaught-error-drops-sibling-errors *)
Definition known_class (t : fut) : N :=
  if race_free t then 0 else if two_failing t then 1 else 2.

(* every Start/End event the resolvers below [f] can log *)
Fixpoint all_events (f : fut) : list item :=
  match f with
  | FDone _ => []
  | FRes p _ _ k => IStart p :: IEnd p :: all_events k
  | FAll _ cs => flat_map all_events cs
  | FSeq _ _ cs => flat_map all_events cs
  | FCatch f1 => all_events f1
  | FMapErr _ f1 => all_events f1
  end.

(* the same tree with every resolver ready *)
Fixpoint ungate (f : fut) : fut :=
  match f with
  | FDone r => FDone r
  | FRes p _ ph k => FRes p false ph (ungate k)
  | FAll kd cs => FAll kd (map ungate cs)
  | FSeq kd done cs => FSeq kd done (map ungate cs)
  | FCatch f1 => FCatch (ungate f1)
  | FMapErr p f1 => FMapErr p (ungate f1)
  end.

Fixpoint fresh (f : fut) : bool :=      (* no resolver has started *)
  match f with
  | FDone _ => true
  | FRes _ _ ph k => match ph with PNew => fresh k | PWait _ => false end
  | FAll _ cs => forallb fresh cs
  | FSeq _ done cs => match done with [] => forallb fresh cs | _ => false end
  | FCatch f1 => fresh f1
  | FMapErr _ f1 => fresh f1
  end.

(* serial order: the log splits into consecutive segments, the i-th made of
   events of the i-th root field only (later fields may have no segment) *)
Inductive seg_ok : list (list item) -> list item -> Prop :=
| seg_nil sets : seg_ok sets []
| seg_here s ss e l : In e s -> seg_ok (s :: ss) l -> seg_ok (s :: ss) (e :: l)
| seg_next s ss l : seg_ok ss l -> seg_ok (s :: ss) l.

Definition item_eqb (a b : item) : bool :=
  match a, b with
  | IStart x, IStart y => path_eqb x y
  | IEnd x, IEnd y => path_eqb x y
  | IErr x, IErr y => path_eqb x y
  | _, _ => false
  end.
Definition memi (e : item) (s : list item) : bool := existsb (item_eqb e) s.
Fixpoint skipseg (s : list item) (l : list item) : list item :=
  match l with
  | [] => []
  | e :: r => if memi e s then skipseg s r else l
  end.
Fixpoint serial_okb (sets : list (list item)) (l : list item) : bool :=
  match sets with
  | [] => match l with [] => true | _ => false end
  | s :: ss => serial_okb ss (skipseg s l)
  end.

(* ------------------------------------------------ tree of a (document, world) --- *)
(* mirrors Exec.v's impl model (i_set / i_occs / i_field / i_comp / i_items):
   same collection, same failure and catch positions, same error paths; here
   nothing is evaluated left to right: the futures are only built *)
Section Build.
  Variable q : quirks.
  Variable S : schema.
  Variable w : world.
  Variable frags : list (name * fragment).
  Variable vars : list (name * value).
  Variable vdefs : list vardef.
  Variable gated : list path.

  Definition is_gated (p : path) : bool := existsb (path_eqb p) gated.
  Definition wrap_catch (catch : bool) (f : fut) : fut := if catch then FCatch f else f.

  Fixpoint b_set (n : nat) (serial : bool) (st rt : name) (nid : N) (sels : list selection) (p : path) {struct n}
    : outcome fut :=
    match n with
    | O => OutOfFuel
    | Datatypes.S n' =>
      bindo (i_collect q S frags vars vdefs n' st rt sels) (fun occs0 =>
      let occs := if q_per_occurrence q then occs0
                  else map (fun o => {| o_key := o_key o; o_name := o_name o; o_sels := o_sels o;
                                        o_iface := existsb (fun o' => name_eqb (o_key o') (o_key o) && o_iface o') occs0 |})
                           (dedup_occs occs0) in
      bindo (b_occs n' rt nid occs p) (fun cs =>
        let kd := KObj n' (map o_key occs) in
        Ok (if serial then FSeq kd [] cs else FAll kd cs)))
    end
  with b_occs (n : nat) (rt : name) (nid : N) (occs : list occ) (p : path) {struct n} : outcome (list fut) :=
    match occs with
    | [] => Ok []
    | o :: r =>
      match n with
      | O => OutOfFuel
      | Datatypes.S n' =>
        bindo (b_field n' rt nid o p) (fun a =>
        bindo (b_occs n' rt nid r p) (fun b => Ok (a :: b)))
      end
    end
  with b_field (n : nat) (rt : name) (nid : N) (o : occ) (p : path) {struct n} : outcome fut :=
    match n with
    | O => OutOfFuel
    | Datatypes.S n' =>
      if name_eqb (o_name o) N_typename then Ok (FDone (IVal (VStr (type_str S rt))))
      else match obj_field_ty S rt (o_name o) with
           | None => Err 7
           | Some t =>
               let ov := out w nid (o_name o) in
               let p' := p ++ [PF (o_key o)] in
               if resolver_fails S w t ov then
                 let ep := if o_iface o && q_iface_no_path q then [] else p' in
                 if q_field_err_parent q || is_nonnull t
                 then Ok (FRes p' (is_gated p') PNew (FDone (IFail ep)))
                 else Ok (FRes p' (is_gated p') PNew (FCatch (FDone (IFail ep))))
               else bindo (b_comp n' true t ov (o_sels o) p') (fun k =>
                      Ok (FRes p' (is_gated p') PNew k))
           end
    end
  with b_comp (n : nat) (catch : bool) (t : ty) (ov : outv) (sub : list selection) (p : path) {struct n}
       : outcome fut :=
    match n with
    | O => OutOfFuel
    | Datatypes.S n' =>
      match t with
      | TNonNull t' => b_comp n' false t' ov sub p
      | TList t' =>
          match ov with
          | OList l => bindo (b_items n' t' l 0 sub p) (fun cs => Ok (wrap_catch catch (FAll KList cs)))
          | _ => Ok (FDone (IVal VNull))
          end
      | TNamed tn =>
          match ov with
          | ORef k =>
              match node_ty w k with
              | Some rt' =>
                  let st := match tdef_of S tn with Some (DObject _ _) => rt' | _ => tn end in
                  bindo (b_set n' false st rt' k sub p) (fun f => Ok (wrap_catch catch f))
              | None => Ok (FDone (IVal VNull))
              end
          | ONull => Ok (FDone (IVal VNull))
          | _ => Ok (FDone (IVal (leaf_value (q_nan_null q) ov)))
          end
      end
    end
  with b_items (n : nat) (t : ty) (l : list outv) (i : N) (sub : list selection) (p : path) {struct n}
       : outcome (list fut) :=
    match l with
    | [] => Ok []
    | ov :: r =>
      match n with
      | O => OutOfFuel
      | Datatypes.S n' =>
        bindo (b_comp n' true t ov sub (p ++ [PI i])) (fun a =>
        bindo (b_items n' t r (i + 1) sub p) (fun b =>
          Ok ((if q_list_path q then FMapErr (p ++ [PI i]) a else a) :: b)))
      end
    end.
End Build.

Definition is_mutation (o : operation) : bool := match op_ty o with OpMutation => true | _ => false end.

Definition build (q : quirks) (S : schema) (w : world) (d : document) (opname : option name)
           (vars : list (name * value)) (gated : list path) (n : nat) : outcome fut :=
  match select_op d opname with
  | None => Err 1
  | Some o =>
      match root_name S o with
      | None => Err 2
      | Some rt => b_set q S w (doc_frags d) vars (op_vars o) gated n (is_mutation o) rt rt (root_nid o) (op_sels o) []
      end
  end.

(* ---------------------------------------------------------------- verdict --- *)
Inductive sdef :=
| DSchema (s : schema)
| DCase (w : world) (d : document) (opname : option name) (vars : list (name * value)).

Definition same_resp (a b : sresp) : bool :=
  value_eqb (sr_data a) (sr_data b) && list_eqb path_eqb (sr_errors a) (sr_errors b) &&
  list_eqb item_eqb (sr_events a) (sr_events b).

(* the property on one observed response: data and the multiset of error paths are
   those of the run in which every resolver is ready; for a mutation the event log
   is serial in the root fields *)
Definition root_sets (t : fut) : option (list (list item)) :=
  match t with FSeq _ _ cs => Some (map all_events cs) | _ => None end.
Definition meets (t : fut) (ready r : sresp) : bool :=
  value_eqb (sr_data r) (sr_data ready) && paths_same (sr_errors r) (sr_errors ready) &&
  match root_sets t with Some sets => serial_okb sets (sr_events r) | None => true end.

Definition max_join (t : fut) : nat :=
  (fix go (f : fut) : nat :=
     match f with
     | FDone _ => O
     | FRes _ _ _ k => go k
     | FAll _ cs => Nat.max (length cs) (fold_right (fun c a => Nat.max (go c) a) O cs)
     | FSeq _ _ cs => fold_right (fun c a => Nat.max (go c) a) O cs
     | FCatch f1 => go f1
     | FMapErr _ f1 => go f1
     end) t.

Definition check_c05 (sd cd : sdef) (n : nat) (gated : list path) (sched : list nat) (impl : sresp) : N :=
  match sd, cd with
  | DSchema sc, DCase w d opname vars =>
      match build quirks_today sc w d opname vars gated n, impl_exec quirks_today sc w d opname vars n with
      | Ok t, Ok e =>
          match run [] (ungate t) with
          | Some ready =>
              (* the all-ready run of the tree is Exec.v's executor model (ties Sched to C01's model) *)
              if negb (value_eqb (sr_data ready) (rs_data e) && list_eqb path_eqb (sr_errors ready) (rs_errors e)) then 9
              else if negb (fresh t) then 9               (* hypothesis of C05_same_as_ready_run / C05_verdict_sound *)
              else if (30 <? max_join t)%nat then 8       (* TryJoinAll switches to FuturesOrdered: not modelled *)
              else
                match run sched t with
                | Some m =>
                    if same_resp impl m && meets t ready m then 0
                    else verdict (same_resp impl m) (meets t ready m) (meets t ready impl) (known_class t)
                | None => verdict false true (meets t ready impl) (known_class t)
                end
          | None => 9
          end
      | _, _ => 9
      end
  | _, _ => 9
  end.

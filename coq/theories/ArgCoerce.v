(* ArgCoerce.v — C06: argument and variable coercion.

   [spec_*]  : GraphQL (Oct 2021) §6.1.2 CoerceVariableValues, §6.4.1
               CoerceArgumentValues, §3.5-§3.12 input coercion, §5.8.5 variable
               usages, oneOf = exactly one non-null member; written from the
               specification text.
   [parse], [erase], [impl_*] : what async-graphql does
               src/context.rs            var_value, resolve_input_value_inner, get_param_value
               src/types/external/*      Option / Vec / scalars  InputType::parse
               src/types/maybe_undefined.rs
               src/resolver_utils/enum.rs parse_enum
               derive/src/input_object.rs, oneof_object.rs  generated parse
               src/validation/utils.rs   is_valid_input_value (strict mode),
               rules ArgumentsOfCorrectType, DefaultValuesOfCorrectType,
               ProvidedNonNullArguments, KnownArgumentNames, NoUndefinedVariables.
   Executable definitions only; proofs are in ArgCoerceProofs.v. *)
From AG Require Import Base.
Open Scope Z_scope.

(* ---------------------------------------------------------------- values *)
(* argument literals of the document *)
Inductive ival :=
| INull | IInt (z : Z) | IStr (s : name) | IBool (b : bool) | IEnum (n : name)
| IVar (v : name) | IList (l : list ival) | IObj (l : list (name * ival)).

(* a literal after the variables have been looked up.  [XAbsent] stands for a
   variable that has neither a request value nor a definition default;
   [XStr true _] is a string that arrived as a (JSON) variable value,
   [XStr false _] a string literal of the document. *)
Inductive xv :=
| XAbsent | XNull | XInt (z : Z) | XStr (json : bool) (s : name) | XBool (b : bool)
| XEnum (n : name) | XList (l : list xv) | XObj (l : list (name * xv)).

(* what a resolver holds: the typed Rust value, printed canonically
   ([TUndef] = MaybeUndefined::Undefined, [TNull] = None / MaybeUndefined::Null) *)
Inductive tv :=
| TNull | TUndef | TInt (z : Z) | TStr (s : name) | TBool (b : bool) | TEnum (n : name)
| TList (l : list tv) | TObj (l : list (name * tv)).

(* ----------------------------------------------------------------- types *)
(* Input types as the Rust side declares them: everything is non-null except
   [ROpt] (Option<T>) and [RMaybe] (MaybeUndefined<T>).  A field default is the
   pair (default value published in the schema, typed Rust default). *)
Inductive rty :=
| RInt | RStr | RBool
| REnum (tn : name) (vals : list name)
| RObj (tn : name) (fs : flds)
| ROne (tn : name) (fs : flds)
| RVec (t : rty)
| ROpt (t : rty)
| RMaybe (t : rty)
with flds :=
| FNil
| FCons (n : name) (t : rty) (d : option (xv * tv)) (rest : flds).

Scheme rty_mind := Induction for rty Sort Prop
with flds_mind := Induction for flds Sort Prop.

Definition nullable (t : rty) : bool :=
  match t with ROpt _ | RMaybe _ => true | _ => false end.

Fixpoint fmem (k : name) (fs : flds) : bool :=
  match fs with
  | FNil => false
  | FCons n _ _ rest => if name_eqb k n then true else fmem k rest
  end.

Fixpoint flookup (k : name) (fs : flds) : option (rty * option (xv * tv)) :=
  match fs with
  | FNil => None
  | FCons n t d rest => if name_eqb k n then Some (t, d) else flookup k rest
  end.

Fixpoint mapo {A B} (f : A -> outcome B) (l : list A) : outcome (list B) :=
  match l with
  | [] => Ok []
  | a :: r => bindo (f a) (fun b => bindo (mapo f r) (fun bs => Ok (b :: bs)))
  end.

Definition in_i32 (z : Z) : bool := (-2147483648 <=? z) && (z <=? 2147483647).
Definition nullish (x : xv) : bool := match x with XNull | XAbsent => true | _ => false end.
Definition is_absent (x : xv) : bool := match x with XAbsent => true | _ => false end.
Definition keys_known (fs : flds) (kvs : list (name * xv)) : bool :=
  forallb (fun kv => fmem (fst kv) fs) kvs.

(* ===================================================== the specification *)
(* the value for an input position that received nothing *)
Definition absent_tv (t : rty) : outcome tv :=
  match t with ROpt _ => Ok TNull | RMaybe _ => Ok TUndef | _ => Err 0 end.

(* Input coercion of [x] at type [t] (§3.5 Int, §3.7 String, §3.8 Boolean, §3.9
   enums: a string LITERAL is not an enum value, a JSON string is; §3.10 input
   objects: unknown fields are an error, an omitted variable means the field is
   absent, defaults apply to absent fields only; §3.11 lists: a non-list value is
   a list of one, recursively, null is not; §3.12 non-null; oneOf: exactly one
   member, not null).  An omitted variable in a list slot is null. *)
Fixpoint coerce (t : rty) (x : xv) {struct t} : outcome tv :=
  match t with
  | ROpt t' | RMaybe t' => if nullish x then Ok TNull else coerce t' x
  | RInt => match x with XInt z => if in_i32 z then Ok (TInt z) else Err 0 | _ => Err 0 end
  | RStr => match x with XStr _ s => Ok (TStr s) | _ => Err 0 end
  | RBool => match x with XBool b => Ok (TBool b) | _ => Err 0 end
  | REnum _ vals =>
      match x with
      | XEnum n => if mem n vals then Ok (TEnum n) else Err 0
      | XStr true n => if mem n vals then Ok (TEnum n) else Err 0
      | _ => Err 0
      end
  | RVec t' =>
      match x with
      | XNull | XAbsent => Err 0
      | XList l => bindo (mapo (coerce t') l) (fun r => Ok (TList r))
      | v => bindo (coerce t' v) (fun a => Ok (TList [a]))
      end
  | RObj _ fs =>
      match x with
      | XObj kvs => if keys_known fs kvs
                    then bindo (coerce_fields fs kvs) (fun r => Ok (TObj r)) else Err 0
      | _ => Err 0
      end
  | ROne _ fs =>
      match x with
      | XObj [(k, v)] => if nullish v then Err 0 else coerce_one fs k v
      | _ => Err 0
      end
  end
with coerce_fields (fs : flds) (kvs : list (name * xv)) {struct fs} : outcome (list (name * tv)) :=
  match fs with
  | FNil => Ok []
  | FCons n t d rest =>
      let missing := match d with Some (dc, _) => coerce t dc | None => absent_tv t end in
      bindo (match assoc n kvs with
             | Some v => if is_absent v then missing else coerce t v
             | None => missing
             end)
            (fun a => bindo (coerce_fields rest kvs) (fun r => Ok ((n, a) :: r)))
  end
with coerce_one (fs : flds) (k : name) (v : xv) {struct fs} : outcome tv :=
  match fs with
  | FNil => Err 0
  | FCons n t _ rest =>
      if name_eqb k n then bindo (coerce t v) (fun a => Ok (TObj [(n, a)]))
      else coerce_one rest k v
  end.

(* ---- variables *)
Definition vdef := (name * rty * option xv)%type.

Fixpoint vlookup (x : name) (vds : list vdef) : option (rty * option xv) :=
  match vds with
  | [] => None
  | (n, t, d) :: r => if name_eqb x n then Some (t, d) else vlookup x r
  end.

(* request value, else definition default, else nothing *)
Definition var_env (vds : list vdef) (vars : list (name * xv)) (x : name) : xv :=
  match assoc x vars with
  | Some v => v
  | None => match vlookup x vds with Some (_, Some d) => d | _ => XAbsent end
  end.

Definition subst_kvs (f : ival -> xv) :=
  fix go (l : list (name * ival)) : list (name * xv) :=
    match l with [] => [] | (k, v) :: r => (k, f v) :: go r end.

Fixpoint subst (env : name -> xv) (v : ival) : xv :=
  match v with
  | INull => XNull | IInt z => XInt z | IStr s => XStr false s | IBool b => XBool b
  | IEnum n => XEnum n | IVar x => env x
  | IList l => XList (map (subst env) l)
  | IObj kvs => XObj (subst_kvs (subst env) kvs)
  end.

Definition vars_in_kvs (f : ival -> list name) :=
  fix go (l : list (name * ival)) : list name :=
    match l with [] => [] | (_, v) :: r => f v ++ go r end.

Fixpoint vars_of (v : ival) : list name :=
  match v with
  | IVar x => [x]
  | IList l => flat_map vars_of l
  | IObj kvs => vars_in_kvs vars_of kvs
  | _ => []
  end.

Definition vars_defined (vds : list vdef) (v : ival) : bool :=
  forallb (fun x => match vlookup x vds with Some _ => true | None => false end) (vars_of v).

(* §6.1.2 CoerceVariableValues: every variable's value (or default) must coerce
   at the variable's own declared type; a non-null variable must be provided *)
Definition is_ok {A} (o : outcome A) : bool := match o with Ok _ => true | _ => false end.

Definition var_ok (vars : list (name * xv)) (vd : vdef) : bool :=
  let '(x, vt, d) := vd in
  (* a default value must be a value of the variable's type (§5.6.1) *)
  match d with Some dv => is_ok (coerce vt dv) | None => true end
  && match assoc x vars with
     | Some v => is_ok (coerce vt v)
     | None => match d with Some _ => true | None => nullable vt end
     end.

(* ---- §5.8.5 All Variable Usages Are Allowed *)
Inductive bname := BInt | BStr | BBool | BUser (n : name).
Inductive gty := GNamed (nonnull : bool) (b : bname) | GList (nonnull : bool) (i : gty).

Definition g_nullable (g : gty) : gty :=
  match g with GNamed _ b => GNamed false b | GList _ i => GList false i end.
Definition g_nonnull (g : gty) : bool :=
  match g with GNamed n _ => n | GList n _ => n end.

Fixpoint norm (t : rty) : gty :=
  match t with
  | RInt => GNamed true BInt | RStr => GNamed true BStr | RBool => GNamed true BBool
  | REnum tn _ | RObj tn _ | ROne tn _ => GNamed true (BUser tn)
  | RVec t' => GList true (norm t')
  | ROpt t' | RMaybe t' => g_nullable (norm t')
  end.

Definition bname_eqb (a b : bname) : bool :=
  match a, b with
  | BInt, BInt | BStr, BStr | BBool, BBool => true
  | BUser x, BUser y => name_eqb x y
  | _, _ => false
  end.

(* AreTypesCompatible(variableType, locationType) *)
Fixpoint compat (v l : gty) : bool :=
  match v, l with
  | GNamed vn a, GNamed ln b => implb ln vn && bname_eqb a b
  | GList vn a, GList ln b => implb ln vn && compat a b
  | _, _ => false
  end.

(* IsVariableUsageAllowed *)
Definition usage_allowed (vt : rty) (var_default : option xv) (lt : rty) (loc_default : bool) : bool :=
  let v := norm vt in
  let l := norm lt in
  if g_nonnull l && negb (g_nonnull v) then
    ((match var_default with Some XNull | None => false | Some _ => true end) || loc_default)
    && compat v (g_nullable l)
  else compat v l.

Fixpoint base_of (t : rty) : rty :=
  match t with ROpt t' | RMaybe t' | RVec t' => base_of t' | _ => t end.
Fixpoint strip (t : rty) : rty :=
  match t with ROpt t' | RMaybe t' => strip t' | _ => t end.

(* every variable of the literal [v], standing at a position of type [t], is allowed there *)
Fixpoint usages_ok (vds : list vdef) (t : rty) (locd : bool) (v : ival) {struct v} : bool :=
  match v with
  | IVar x => match vlookup x vds with
              | Some (vt, d) => usage_allowed vt d t locd
              | None => true
              end
  | IList l => match strip t with
               | RVec t' => forallb (usages_ok vds t' false) l
               | _ => true
               end
  | IObj kvs =>
      match base_of t with
      | RObj _ fs =>
          (fix go (l : list (name * ival)) : bool :=
             match l with
             | [] => true
             | (k, w) :: r =>
                 match flookup k fs with
                 | Some (ft, fd) => usages_ok vds ft (match fd with Some _ => true | None => false end) w
                 | None => true
                 end && go r
             end) kvs
      | ROne _ fs =>
          (fix go (l : list (name * ival)) : bool :=
             match l with
             | [] => true
             | (k, w) :: r =>
                 match flookup k fs with
                 | Some (ft, _) => usages_ok vds (ROpt ft) false w
                 | None => true
                 end && go r
             end) kvs
      | _ => true
      end
  | _ => true
  end.

(* ---- §6.4.1 CoerceArgumentValues for one argument definition *)
Definition spec_arg (vds : list vdef) (env : name -> xv) (t : rty) (d : option (xv * tv))
           (lit : option ival) : outcome tv :=
  let novalue := match d with Some (dc, _) => coerce t dc | None => absent_tv t end in
  match lit with
  | None => novalue
  | Some l =>
      if negb (vars_defined vds l) then Err 0
      else let x := subst env l in
           if is_absent x then novalue else coerce t x
  end.

Fixpoint args_with (f : rty -> option (xv * tv) -> option ival -> outcome tv)
         (sig : flds) (args : list (name * ival)) : outcome (list (name * tv)) :=
  match sig with
  | FNil => Ok []
  | FCons n t d rest =>
      bindo (f t d (assoc n args)) (fun a => bindo (args_with f rest args) (fun r => Ok ((n, a) :: r)))
  end.

(* static validity of the request as far as arguments are concerned: supplied
   argument names are declared (§5.4.1) and variable usages are allowed (§5.8.5) *)
Definition static_ok (sig : flds) (args : list (name * ival)) (vds : list vdef) : bool :=
  forallb (fun kv => match flookup (fst kv) sig with
                     | Some (t, d) => usages_ok vds t (match d with Some _ => true | None => false end) (snd kv)
                     | None => false
                     end) args.

Definition spec_request (sig : flds) (args : list (name * ival)) (vds : list vdef)
           (vars : list (name * xv)) : outcome (list (name * tv)) :=
  if negb (static_ok sig args vds) then Err 0
  else if negb (forallb (var_ok vars) vds) then Err 0
  else args_with (spec_arg vds (var_env vds vars)) sig args.

(* ===================================================== the implementation *)
(* resolve_input_value_inner: an omitted variable in a list slot becomes null,
   an object entry whose value is an omitted variable is dropped *)
Definition erase_kvs (f : xv -> xv) :=
  fix go (l : list (name * xv)) : list (name * xv) :=
    match l with
    | [] => []
    | (k, v) :: r => match v with XAbsent => go r | _ => (k, f v) :: go r end
    end.

Fixpoint erase1 (x : xv) : xv :=
  match x with
  | XAbsent => XNull
  | XList l => XList (map erase1 l)
  | XObj kvs => XObj (erase_kvs erase1 kvs)
  | _ => x
  end.

Definition erase (x : xv) : option xv :=
  match x with XAbsent => None | _ => Some (erase1 x) end.

Definition unwrap (o : option xv) : xv := match o with Some v => v | None => XNull end.

(* the InputType::parse family *)
Fixpoint parse (t : rty) (o : option xv) {struct t} : outcome tv :=
  match t with
  | ROpt t' => match unwrap o with XNull => Ok TNull | v => parse t' (Some v) end
  | RMaybe t' => match o with
                 | None => Ok TUndef
                 | Some XNull => Ok TNull
                 | Some v => parse t' (Some v)
                 end
  | RVec t' =>
      match unwrap o with
      | XList l => bindo (mapo (fun v => parse t' (Some v)) l) (fun r => Ok (TList r))
      | v => bindo (parse t' (Some v)) (fun a => Ok (TList [a]))
      end
  | RInt => match unwrap o with XInt z => if in_i32 z then Ok (TInt z) else Err 0 | _ => Err 0 end
  | RStr => match unwrap o with XStr _ s => Ok (TStr s) | _ => Err 0 end
  | RBool => match unwrap o with XBool b => Ok (TBool b) | _ => Err 0 end
  | REnum _ vals =>
      match unwrap o with
      | XEnum n | XStr _ n => if mem n vals then Ok (TEnum n) else Err 0
      | _ => Err 0
      end
  | RObj _ fs =>
      match o with
      | Some (XObj kvs) => bindo (parse_fields fs kvs) (fun r => Ok (TObj r))
      | _ => Err 0
      end
  | ROne _ fs =>
      match o with
      | Some (XObj kvs) => if (length kvs =? 1)%nat then parse_one fs kvs else Err 0
      | _ => Err 0
      end
  end
with parse_fields (fs : flds) (kvs : list (name * xv)) {struct fs} : outcome (list (name * tv)) :=
  match fs with
  | FNil => Ok []
  | FCons n t d rest =>
      bindo (match d, assoc n kvs with
             | Some (_, dt), None => Ok dt
             | _, o => parse t o
             end)
            (fun a => bindo (parse_fields rest kvs) (fun r => Ok ((n, a) :: r)))
  end
with parse_one (fs : flds) (kvs : list (name * xv)) {struct fs} : outcome tv :=
  match fs with
  | FNil => Err 0
  | FCons n t _ rest =>
      match assoc n kvs with
      | Some v => bindo (parse t (Some v)) (fun a => Ok (TObj [(n, a)]))
      | None => parse_one rest kvs
      end
  end.

(* get_param_value (since fix d9e053e): the argument's value is resolved first;
   the default applies when there is no value at all — the argument is absent
   or bound to an omitted variable *)
Definition impl_arg (vds : list vdef) (env : name -> xv) (t : rty) (d : option (xv * tv))
           (lit : option ival) : outcome tv :=
  match lit with
  | None => match d with Some (_, dt) => Ok dt | None => parse t None end
  | Some l => if negb (vars_defined vds l) then Err 0
              else match erase (subst env l), d with
                   | None, Some (_, dt) => Ok dt
                   | o, _ => parse t o
                   end
  end.

Definition impl_exec (sig : flds) (args : list (name * ival)) (vds : list vdef)
           (vars : list (name * xv)) : outcome (list (name * tv)) :=
  args_with (impl_arg vds (var_env vds vars)) sig args.

(* ---- strict validation (the rules that can fire on `query(vars){ f(args) }`) *)
(* is_valid_input_value on a constant *)
Fixpoint valid (t : rty) (v : xv) {struct t} : bool :=
  match t with
  | ROpt t' | RMaybe t' => match v with XNull => true | _ => valid t' v end
  | RInt => match v with XInt _ => true | _ => false end
  | RStr => match v with XStr _ _ => true | _ => false end
  | RBool => match v with XBool _ => true | _ => false end
  | REnum _ vals => match v with XEnum n | XStr _ n => mem n vals | _ => false end
  | RVec t' => match v with
               | XNull => false
               | XList l => forallb (valid t') l
               | _ => valid t' v
               end
  | RObj _ fs => match v with
                 | XNull => false
                 | XObj kvs => valid_fields fs kvs && keys_known fs kvs
                 | _ => true
                 end
  | ROne _ fs => match v with
                 | XNull => false
                 | XObj kvs => (length kvs =? 1)%nat
                               && negb (match kvs with (_, XNull) :: _ => true | _ => false end)
                               && valid_members fs kvs && keys_known fs kvs
                 | _ => true
                 end
  end
with valid_fields (fs : flds) (kvs : list (name * xv)) {struct fs} : bool :=
  match fs with
  | FNil => true
  | FCons n t d rest =>
      match assoc n kvs with
      | Some v => valid t v
      | None => negb (negb (nullable t) && match d with None => true | Some _ => false end)
      end && valid_fields rest kvs
  end
with valid_members (fs : flds) (kvs : list (name * xv)) {struct fs} : bool :=
  match fs with
  | FNil => true
  | FCons n t _ rest =>
      match assoc n kvs with
      | Some XNull => true
      | Some v => valid t v
      | None => true
      end && valid_members rest kvs
  end.

Definition has_absent_kvs (f : xv -> bool) :=
  fix go (l : list (name * xv)) : bool :=
    match l with [] => false | (_, v) :: r => f v || go r end.
Fixpoint has_absent (x : xv) : bool :=
  match x with
  | XAbsent => true
  | XList l => existsb has_absent l
  | XObj kvs => has_absent_kvs has_absent kvs
  | _ => false
  end.

Definition req_env (vars : list (name * xv)) (x : name) : xv :=
  match assoc x vars with Some v => v | None => XAbsent end.

Definition strict_ok (sig : flds) (args : list (name * ival)) (vds : list vdef)
           (vars : list (name * xv)) : bool :=
  (* KnownArgumentNames, NoUndefinedVariables, ArgumentsOfCorrectType (skipped
     when the argument mentions a variable without a request value) *)
  forallb (fun kv => match flookup (fst kv) sig with
                     | Some (t, _) =>
                         vars_defined vds (snd kv) &&
                         (let x := subst (req_env vars) (snd kv) in has_absent x || valid t x)
                     | None => false
                     end) args
  (* DefaultValuesOfCorrectType *)
  && forallb (fun vd : vdef => let '(_, vt, d) := vd in
                       match d with Some dv => valid vt dv | None => true end) vds
  (* ProvidedNonNullArguments *)
  && (fix go (s : flds) : bool :=
        match s with
        | FNil => true
        | FCons n t d rest =>
            (nullable t || match d with Some _ => true | None => false end
             || match assoc n args with Some _ => true | None => false end) && go rest
        end) sig.

Definition impl_request (sig : flds) (args : list (name * ival)) (vds : list vdef)
           (vars : list (name * xv)) (strict : bool) : outcome (list (name * tv)) :=
  if strict && negb (strict_ok sig args vds vars) then Err 1
  else match impl_exec sig args vds vars with
       | Ok a => Ok a
       | _ => Err 2
       end.

(* ========================================== typing of what a resolver holds *)
Definition tv_is_null (a : tv) : bool := match a with TNull => true | _ => false end.

Fixpoint has_type (t : rty) (a : tv) {struct t} : bool :=
  match t with
  | ROpt t' => match a with TNull => true | _ => has_type t' a end
  | RMaybe t' => match a with TNull | TUndef => true | _ => has_type t' a end
  | RInt => match a with TInt z => in_i32 z | _ => false end
  | RStr => match a with TStr _ => true | _ => false end
  | RBool => match a with TBool _ => true | _ => false end
  | REnum _ vals => match a with TEnum n => mem n vals | _ => false end
  | RVec t' => match a with TList l => forallb (has_type t') l | _ => false end
  | RObj _ fs => match a with TObj kvs => fields_typed fs kvs | _ => false end
  | ROne _ fs => match a with TObj [(k, b)] => member_typed fs k b | _ => false end
  end
with fields_typed (fs : flds) (kvs : list (name * tv)) {struct fs} : bool :=
  match fs, kvs with
  | FNil, [] => true
  | FCons n t _ rest, (k, a) :: r => name_eqb k n && has_type t a && fields_typed rest r
  | _, _ => false
  end
with member_typed (fs : flds) (k : name) (b : tv) {struct fs} : bool :=
  match fs with
  | FNil => false
  | FCons n t _ rest => if name_eqb k n then has_type t b && negb (tv_is_null b) else member_typed rest k b
  end.

Fixpoint args_typed (sig : flds) (a : list (name * tv)) : bool :=
  match sig, a with
  | FNil, [] => true
  | FCons n t _ rest, (k, x) :: r => name_eqb k n && has_type t x && args_typed rest r
  | _, _ => false
  end.

(* ================================================== well-formed descriptors *)
Definition tv_eqb_kvs (f : tv -> tv -> bool) :=
  fix go (a b : list (name * tv)) : bool :=
    match a, b with
    | [], [] => true
    | (k, x) :: r, (k', y) :: r' => name_eqb k k' && f x y && go r r'
    | _, _ => false
    end.
Fixpoint tv_eqb (a b : tv) {struct a} : bool :=
  match a, b with
  | TNull, TNull | TUndef, TUndef => true
  | TInt x, TInt y => x =? y
  | TStr x, TStr y | TEnum x, TEnum y => name_eqb x y
  | TBool x, TBool y => Bool.eqb x y
  | TList l, TList l' =>
      (fix go (p q : list tv) : bool :=
         match p, q with
         | [], [] => true
         | x :: r, y :: r' => tv_eqb x y && go r r'
         | _, _ => false
         end) l l'
  | TObj l, TObj l' => tv_eqb_kvs tv_eqb l l'
  | _, _ => false
  end.

Definition out_tv_eqb (a : outcome tv) (b : tv) : bool :=
  match a with Ok x => tv_eqb x b | _ => false end.

(* defaults: the typed Rust default is the coercion of the published default;
   members of a oneOf object are non-null types without defaults *)
Fixpoint wf_rty (t : rty) : bool :=
  match t with
  | RObj _ fs => wf_flds fs
  | ROne _ fs => wf_members fs
  | RVec t' | ROpt t' | RMaybe t' => wf_rty t'
  | _ => true
  end
with wf_flds (fs : flds) : bool :=
  match fs with
  | FNil => true
  | FCons n t d rest =>
      wf_rty t && negb (fmem n rest)
      && match d with Some (dc, dt) => out_tv_eqb (coerce t dc) dt | None => true end
      && wf_flds rest
  end
with wf_members (fs : flds) : bool :=
  match fs with
  | FNil => true
  | FCons n t d rest =>
      wf_rty t && negb (fmem n rest) && negb (nullable t)
      && match d with None => true | Some _ => false end
      && wf_members rest
  end.

(* object literals / JSON objects have distinct keys *)
Fixpoint nodup_names (l : list name) : bool :=
  match l with [] => true | k :: r => negb (mem k r) && nodup_names r end.
Definition wf_xv_kvs (f : xv -> bool) :=
  fix go (l : list (name * xv)) : bool :=
    match l with [] => true | (_, v) :: r => f v && go r end.
Fixpoint wf_xv (x : xv) : bool :=
  match x with
  | XList l => forallb wf_xv l
  | XObj kvs => nodup_names (map fst kvs) && wf_xv_kvs wf_xv kvs
  | _ => true
  end.

(* ========================================================= known classes *)
(* parse t (Some null) succeeds *)
Fixpoint null_ok (t : rty) : bool :=
  match t with ROpt _ | RMaybe _ => true | RVec t' => null_ok t' | _ => false end.

Definition first_nz (a b : N) : N := if N.eqb a 0 then b else a.

Definition K_ARG_DEFAULT : N := 1.   (* (fixed in d9e053e, no longer produced) omitted variable bound to an argument that has a default *)
Definition K_ENUM_STRING : N := 2.   (* string literal accepted where an enum value is required *)
Definition K_LIST_NULL : N := 3.     (* null / nothing for a non-null list with nullable items becomes [null] *)
Definition K_UNKNOWN_FIELD : N := 4. (* unknown input object field ignored *)
Definition K_ONEOF_EXTRA : N := 5.   (* oneOf literal with extra members bound to omitted variables *)
Definition K_VAR_DECL : N := 6.      (* variable value never checked against the variable's declared type *)

Definition dev_missing (t : rty) (d : option (xv * tv)) : N :=
  match d with
  | Some _ => 0
  | None => match t with RVec t' => if null_ok t' then K_LIST_NULL else 0 | _ => 0 end
  end%N.

Fixpoint dev (t : rty) (x : xv) {struct t} : N :=
  match t with
  | ROpt t' | RMaybe t' => if nullish x then 0%N else dev t' x
  | REnum _ vals => match x with XStr false n => if mem n vals then K_ENUM_STRING else 0%N | _ => 0%N end
  | RVec t' =>
      match x with
      | XNull | XAbsent => if null_ok t' then K_LIST_NULL else 0%N
      | XList l => fold_right (fun i acc => first_nz (dev t' i) acc) 0%N l
      | v => dev t' v
      end
  | RObj _ fs =>
      match x with
      | XObj kvs => if keys_known fs kvs then dev_fields fs kvs else K_UNKNOWN_FIELD
      | _ => 0%N
      end
  | ROne _ fs =>
      match x with
      | XObj kvs =>
          match kvs with
          | [(k, v)] => if nullish v then (if is_absent v then 0%N else dev_one fs k v) else dev_one fs k v
          | _ => if (length (erase_kvs erase1 kvs) =? 1)%nat then K_ONEOF_EXTRA else 0%N
          end
      | _ => 0%N
      end
  | _ => 0%N
  end
with dev_fields (fs : flds) (kvs : list (name * xv)) {struct fs} : N :=
  match fs with
  | FNil => 0%N
  | FCons n t d rest =>
      first_nz (match assoc n kvs with
                | Some v => if is_absent v then dev_missing t d else dev t v
                | None => dev_missing t d
                end) (dev_fields rest kvs)
  end
with dev_one (fs : flds) (k : name) (v : xv) {struct fs} : N :=
  match fs with
  | FNil => 0%N
  | FCons n t _ rest => if name_eqb k n then dev t v else dev_one rest k v
  end.

Definition dev_arg (vds : list vdef) (env : name -> xv) (t : rty) (d : option (xv * tv)) (lit : option ival) : N :=
  match lit with
  | None => dev_missing t d
  | Some l =>
      if negb (vars_defined vds l) then 0%N
      else let x := subst env l in
           if is_absent x then
             dev_missing t d
           else dev t x
  end.

Fixpoint dev_args (vds : list vdef) (env : name -> xv) (sig : flds) (args : list (name * ival)) : N :=
  match sig with
  | FNil => 0%N
  | FCons n t d rest => first_nz (dev_arg vds env t d (assoc n args)) (dev_args vds env rest args)
  end.

Definition known_class (sig : flds) (args : list (name * ival)) (vds : list vdef)
           (vars : list (name * xv)) : N :=
  if negb (forallb (var_ok vars) vds) then K_VAR_DECL
  else dev_args vds (var_env vds vars) sig args.

(* input well-formedness assumed by the theorems (and tested on every case) *)
Fixpoint wf_ival (v : ival) : bool :=
  match v with
  | IList l => forallb wf_ival l
  | IObj kvs => nodup_names (map fst kvs)
                && (fix go (l : list (name * ival)) : bool :=
                      match l with [] => true | (_, w) :: r => wf_ival w && go r end) kvs
  | _ => true
  end.

Fixpoint wf_sig (sig : flds) : bool :=
  match sig with
  | FNil => true
  | FCons n t d rest =>
      wf_rty t && negb (fmem n rest)
      && match d with Some (dc, dt) => out_tv_eqb (coerce t dc) dt | None => true end
      && wf_sig rest
  end.

Definition wf_case (sig : flds) (args : list (name * ival)) (vds : list vdef)
           (vars : list (name * xv)) : bool :=
  wf_sig sig
  && forallb (fun kv => wf_ival (snd kv)) args
  && forallb (fun kv => wf_xv (snd kv)) vars
  && forallb (fun vd : vdef => let '(_, _, d) := vd in match d with Some dv => wf_xv dv | None => true end) vds.

(* ================================================== per-case verdict *)
Definition res_eqb (a b : outcome (list (name * tv))) : bool :=
  match a, b with
  | Ok x, Ok y => tv_eqb (TObj x) (TObj y)
  | Ok _, _ | _, Ok _ => false
  | _, _ => true (* both fail *)
  end.
Definition res_eqb_code (a b : outcome (list (name * tv))) : bool :=
  match a, b with
  | Ok x, Ok y => tv_eqb (TObj x) (TObj y)
  | Err c, Err c' => N.eqb c c'
  | _, _ => false
  end.

(* [r] satisfies the specification on this request: it is the specified
   result; for a request whose variable usages are not allowed (which the
   specification rejects before execution, C09's subject) only "an error, or
   values of the declared types" is demanded here. *)
Definition satisfies (sig : flds) (args : list (name * ival)) (vds : list vdef)
           (vars : list (name * xv)) (r : outcome (list (name * tv))) : bool :=
  if static_ok sig args vds then res_eqb r (spec_request sig args vds vars)
  else match r with Ok a => args_typed sig a | Err _ => true | _ => false end.

Definition check_c06 (sig : flds) (args : list (name * ival)) (vds : list vdef)
           (vars : list (name * xv)) (strict : bool) (impl : outcome (list (name * tv))) : N :=
  if negb (wf_case sig args vds vars) then 9%N
  else
    let m := impl_request sig args vds vars strict in
    let k := known_class sig args vds vars in
    let st := static_ok sig args vds in
    let sat := satisfies sig args vds vars in
    (* the result must be well typed whatever else happens *)
    if match impl with Ok a => negb (args_typed sig a) | _ => false end then 4%N
    else if res_eqb_code impl m then verdict true (sat m) (sat impl) k
    (* a request the specification rejects statically may also be rejected by
       strict validation (it is not today: C09) *)
    else if strict && negb st && match impl with Err _ => true | _ => false end then 0%N
    (* a known deviation that has been corrected in the code *)
    else if negb (N.eqb k 0) && sat impl then 0%N
    else verdict false (sat m) (sat impl) k.

"""C28 — DataLoader delivers correct batched results under every interleaving."""
import common as c

SPEC = {
    "pid": "C28",
    "facts": [],
    "bin": "c28",
    "requires": "From AG Require Import Loader.",
    "def_type": "unit",
    "streams": [
        {"kind": "EXH", "type": "(cfg * list (step * sobs) * bool)", "eval": "check_case", "per_shard": 50},
        {"kind": "RND", "type": "(cfg * list (step * sobs) * bool)", "eval": "check_case", "per_shard": 50},
    ],
    "classes": {},
    "n_quick": 2000, "n_thorough": 60000,
    "level": "proof",
}


def run(tier, seed, replay=None):
    return c.run_standard(SPEC, tier, seed, replay)

"""C28 — DataLoader delivers correct batched results under every interleaving."""
import common as c

SPEC = {
    "pid": "C28",
    "facts": [],
    "bin": "c28",
    "requires": "From AG Require Import Loader.",
    "def_type": "unit",
    "streams": [
        {"kind": "EXH", "type": "(cfg * list (step * sobs) * bool)", "eval": "check_case", "per_shard": 32},
        {"kind": "RND", "type": "(cfg * list (step * sobs) * bool)", "eval": "check_case", "per_shard": 32},
    ],
    "classes": {},
    "n_quick": 1000, "n_thorough": 4000,
    "level": "proof",
    "what_violation": "a load completes with other values than the loader/cache gave for its keys (missing, extra or foreign), a key not served from the cache was not in the batch handed to the loader, a batch repeats a key or exceeds the bound, or a load never completes",
    "rule": ("stream EXH: EVERY schedule (order of the requests' critical sections, timer firings, loader answers, at most one "
             "cancellation) of small configurations drawn in seed order from 4 cache kinds x max_batch_size 1..3 x cache disabled or "
             "not x 9 request sets (<= 3 requests over 3 keys, duplicates, overlaps) x {plain, pre-fed cache, failing call + key not "
             "found, one cancelled waiter}, each schedule run on a fresh real DataLoader (capped per configuration in the quick tier); "
             "stream RND: random histories of 3-17 steps + draining (up to 9 requests, 2-5 keys, batch 1-5, NoCache/HashMap/LRU 1-3, "
             "feeds, cancellations, loader errors, omitted and foreign keys, steps naming nothing live); distinct by (configuration, "
             "schedule); non-trivial = some load completed with values"),
    "trusted": ["harness adapters: hand-polled spawner (task id = spawn order), timer and loader parked on oneshots, noop waker; "
                "new tasks are polled once right after the request that spawned them",
                "differential sampling: Loader.v (mstep) = DataLoader critical sections on this run's schedules; independently of it every observed trace is judged by the trace specification (tstep/trace_ok: reference cache of C29 fed from the trace, open batches, per-request cache snapshot)",
                "the scc entry lock makes load_many's block, Requests::take and do_load's update + fan-out atomic (read from the source)"],
    "assumptions": [
        "one key type per machine; the cache-disable flags are constant during a schedule (C29 covers enable/disable sequences)",
        "max_batch_size >= 1 and LruCache capacity >= 1",
        "spawned tasks and timers run (the spawner does not drop tasks; the loader does not panic): otherwise rx.await.unwrap() panics",
    ],
}


MANIFEST = {
    "category": "proof",
    "technique": "Coq proof (invariants of a state machine whose steps are the DataLoader's critical sections, by induction over "
                 "arbitrary step sequences) + exhaustive small-configuration and random schedule correspondence against the real DataLoader",
    "text": ("Coq theorems over every sequence of request / timer / loader-answer / cancel / feed steps: no batch handed to the loader "
             "repeats a key; a batch is smaller than max_batch_size plus the largest request; every requested key is served from the "
             "cache or sits in the pending key set (fewer than max_batch_size keys, a timer task armed that takes all of them) or in a "
             "batch handed to the loader; every completed load holds exactly its request's cached values plus the loader's values for "
             "its remaining keys from the batch containing them, or that batch's error; every waiting load is covered by an armed "
             "timer or a task awaiting the loader, whose answer reaches every sender not cancelled; every trace of the machine is accepted by the machine-independent trace specification (exact values per requested key, uncached keys contained in the answered batch). The machine is tied to the real "
             "DataLoader by replaying every schedule of small configurations and random larger histories with a hand-driven spawner, "
             "timer and loader."),
    "note": ("trusted: Coq kernel, harness adapters, sampled agreement machine vs code, atomicity of the sections under the scc "
             "entry lock; theorems closed under the global context (no axioms)"),
}


def run(tier, seed, replay=None):
    return c.run_standard(SPEC, tier, seed, replay)

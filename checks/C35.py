"""C35 — HTTP GET requests never execute mutations."""
import common as c

SPEC = {
    "pid": "C35",
    "facts": ["getguard"],
    "bin": "c35",
    "requires": "From AG Require Import GetGuard.",
    "def_type": "document",
    "streams": [
        {"kind": "CASE", "type": "(integ * document * option name * gresult)",
         "eval": "fun c => let '(i, d, n, r) := c in check_case i d n r", "per_shard": 400},
    ],
    "classes": {1: "get-executes-mutation"},
    "n_quick": 200, "n_thorough": 5000,
    "level": "proof",
    "what_violation": "a mutation sent over HTTP GET is executed / GET handling differs from the model",
    "rule": ("generated GET query strings (single anonymous and named operations, documents mixing 2-4 named query and mutation operations "
             "selected by operation name under both wire keys, selected wrongly or not at all, with and without variables) decoded and executed "
             "exactly as each integration's GET branch does it: async_graphql::http::parse_query_string + Schema::execute for axum, actix-web, "
             "poem and warp, Request::new(query).operation_name(operationName).variables(..) + Schema::execute for rocket (GET always yields a "
             "single request, never a batch). EXECUTED: decoder + executor of the library. MODELLED FROM SOURCE TEXT (re-read on every run by "
             "tools/factsgen/getguard.py): that each integration's GET branch is this chain and whether an operation-type test lies on it; the "
             "frameworks' routing and rocket's form parser are not executed. distinct by (integration, query string); non-trivial = a resolver ran"),
    "trusted": ["tools/factsgen/getguard.py (GET branches of the five integrations -> GetGuardGen.v: decoder, guard flags)",
                "the web frameworks' own extraction of the raw query string; rocket's FromForm derive",
                "differential agreement of GetGuard.v (operation choice of prepare_request, mutation execution) with the library on this run's cases"],
    "assumptions": [
        "an integration's GET branch is the chain read from its source text: decoder -> Request -> Executor::execute/execute_batch",
        "an operation-type test, once present on that path, rejects every request whose selected operation is a mutation (what `guarded` means in the model)",
    ],
}

MANIFEST = {
    "category": "proof",
    "technique": "thin Coq model over source-extracted facts (per integration: is there an operation-type test between the GET handler and the executor) + differential correspondence of decoder+executor",
    "text": ("Per integration, the GET branch is re-extracted from the crate's source on every run and translated into a Coq fact: which decoder it "
             "calls and whether an operation-type test lies between it and the executor. Coq theorems, for any value of these facts: with such a test "
             "no mutation resolver runs for any request; without it every request whose selected operation is a mutation runs its resolvers "
             "(refutation for each of the five integrations today: recorded finding). The executor side of the model (operation choice by name, "
             "mutation execution) is tied to the library by decoding and executing generated GET query strings exactly as the branches do."),
    "note": ("thin by design: the logic owned by the repository on this path is small; trusted: Coq kernel, the source-text extraction, "
             "the frameworks' query-string extraction (not executed), sampled agreement model vs code; no axioms"),
}


def run(tier, seed, replay=None):
    return c.run_standard(SPEC, tier, seed, replay)

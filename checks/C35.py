"""C35 — HTTP GET requests never execute mutations."""
import common as c

SPEC = {
    "pid": "C35",
    "facts": ["getguard"],
    "bin": "c35",
    "requires": "From AG Require Import GetGuard.",
    "def_type": "document",
    "streams": [
        {"kind": "CASE", "type": "(integ * bytes * option document * nametab * dreq * gresult)",
         "eval": "fun c => let '(i, raw, d, t, dd, r) := c in check_case i raw d t dd r", "per_shard": 250},
    ],
    "classes": {1: "get-executes-mutation"},
    "n_quick": 200, "n_thorough": 800,
    "level": "proof",
    "what_violation": "a mutation sent over HTTP GET is executed where the executor's operation selection answers with an error / GET decoding or handling differs from the model",
    "rule": ("generated RAW GET query strings: documents with a single named or anonymous mutation or query, 2-4 named query and mutation operations, "
             "batch shapes (JSON array as query, repeated query parameter, bare JSON array); the operation name absent / empty (`operationName=`, key "
             "without '=') / blank (+, %20, %09, %0A) / non-matching (other name, wrong case, name plus space, null, non-ASCII) / matching / sent twice "
             "(same key, rename and alias key), under both wire keys and percent-encoded keys, values in five urlencoded spellings (form, %20, every byte "
             "%xx, minimal, mixed), with variables, extensions, unknown parameters, empty pieces, shuffled order; decoded and executed exactly as each "
             "integration's GET branch does it: async_graphql::http::parse_query_string + Schema::execute for axum, actix-web, poem and warp, "
             "Request::new(query).operation_name(operationName).variables(..) + Schema::execute for rocket (GET always yields a single request, never a "
             "batch). The Coq model decodes the raw bytes itself (pairs, percent-decoding, one slot per field, duplicate = error, operation name "
             "VERBATIM: Some \"\" stays Some \"\") and selects the operation as prepare_request does (single-operation shortcut only for an absent name); "
             "compared with the library: the decoded query and operation name byte for byte, error / resolver runs. EXECUTED: decoder + executor of the "
             "library. MODELLED FROM SOURCE TEXT (re-read on every run by tools/factsgen/getguard.py): that each integration's GET branch is this chain, "
             "whether an operation-type test lies on it, the wire keys of the decoder's fields and that the decoded operation name goes into the Request "
             "unchanged; the frameworks' routing and rocket's form parser are not executed. distinct by (integration, query string); non-trivial = a "
             "resolver ran or the document holds a mutation operation"),
    "trusted": ["tools/factsgen/getguard.py (GET branches of the five integrations -> GetGuardGen.v: decoder, guard flags)",
                "the web frameworks' own extraction of the raw query string; rocket's FromForm derive",
                "differential agreement of GetGuard.v (query-string decoding, operation choice of prepare_request, mutation execution) with the library on this run's cases",
                "the GraphQL parser (the document handed to the model is the real parser's output for the query the library decoded); generated documents are valid for the harness schema, generated variables / extensions are valid JSON objects, decoded values are valid UTF-8"],
    "assumptions": [
        "an integration's GET branch is the chain read from its source text: decoder -> Request -> Executor::execute/execute_batch",
        "an operation-type test, once present on that path, rejects every request whose selected operation is a mutation (what `guarded` means in the model)",
        "known class get-executes-mutation = inputs on which the model itself selects and executes a mutation operation (name absent and single operation, or name spelled exactly like a named mutation); theorem C35_known_sound; everything else (empty / blank / non-matching name, duplicate parameters, syntax errors) is outside it, a mutation resolver running there is verdict 4 (C35_violation_verdict)",
    ],
}

MANIFEST = {
    "category": "proof",
    "technique": "thin Coq model over source-extracted facts (per integration: is there an operation-type test between the GET handler and the executor) + differential correspondence of decoder+executor",
    "text": ("Per integration, the GET branch is re-extracted from the crate's source on every run and translated into a Coq fact: which decoder it "
             "calls and whether an operation-type test lies between it and the executor. Coq theorems, for any value of these facts: with such a test "
             "no mutation resolver runs for any request; without it every request whose selected operation is a mutation runs its resolvers "
             "(refutation for each of the five integrations today: recorded finding). The decoder is modelled on the raw query string and proved to "
             "carry the operation name verbatim (an empty `operationName=` stays Some \"\"), the executor's selection is proved to take the single-operation "
             "shortcut only for an absent name and never to select anything for an empty or unspelled name; the known class is proved to contain only "
             "inputs where the model itself runs the mutation. Decoder and executor side of the model are tied to the library by decoding and executing "
             "generated raw GET query strings exactly as the branches do."),
    "note": ("thin by design: the logic owned by the repository on this path is small; trusted: Coq kernel, the source-text extraction, "
             "the frameworks' query-string extraction (not executed), sampled agreement model vs code; no axioms"),
}


def run(tier, seed, replay=None):
    return c.run_standard(SPEC, tier, seed, replay)

"""C05 — responses do not depend on the order in which concurrent resolvers complete
(also carries the serial-mutation half of C04: theorems C04_serial* in props/C05.v)."""
import common as c

CASE_T = "(sdef * sdef * list path * list nat * sresp)"
SPEC = {
    "pid": "C05",
    "facts": [],
    "bin": "c05",
    "requires": "From AG Require Import Sched.\nFrom AG Require Import SchedCheck.",
    "def_type": "sdef",
    "streams": [
        {"kind": "CASE", "type": CASE_T,
         "eval": "fun c => let '(s, k, g, sc, r) := c in check_c05 s k 300 g sc r", "per_shard": 120},
        # dynamic executor (and derive schema, fault-free): data independent of the completion order, lists of 3-4 object items included
        {"kind": "DSCHED", "type": "dcase", "eval": "check_dsched", "per_shard": 150},
    ],
    "extra_bins": [{"bin": "c04d", "extra_args": ["4", "30", "500"], "n_factor": 0.6}],
    "classes": {1: "uncaught-race", 2: "uncaught-error-drops-sibling-errors"},
    "n_quick": 70, "n_thorough": 280,
    "extra_args": [],
    "level": "proof",
    "what_violation": "response data, error multiset or serial mutation order depends on the order in which resolvers complete",
    "rule": ("derive-built schema family with gated data-driven resolvers; fixed corpus of witnesses first, then generated queries and mutations "
             "(aliases, repeated keys, inline and named fragments, lists, failing resolvers at nullable and non-null positions, 0-20% faults); "
             "a set of <= 5 (thorough 6) gated response paths per tree, biased to siblings; EVERY order of gate openings when there are <= 125 "
             "(thorough 800) of them, random orders otherwise; schema.execute is polled by hand with a no-op waker; one case per (tree, order); "
             "lists of 3-4 distinct object items whose item fields are all gated (every completion order of the items, the reverse included; nullable items "
             "with a failing item, non-null items); distinct by (document, faults, gates, order); non-trivial = at least one gate opened and a non-empty response. "
             "Stream DSCHED (c04d.rs): fault-free queries and mutations on a dynamic::Schema (objects, nested objects, lists of 3 and 4 objects) and on the derive "
             "schema under every order of <= 4 gates: data equals the all-ready run's"),
    "trusted": ["harness scheduler (manual polling, oneshot gates) and event log of harness/src/family.rs",
                "differential sampling: Sched.v run = real executor on data, error list (in order) and Start/End event log, per schedule",
                "futures-util TryJoinAll small variant as transcribed in Sched.v (joins of more than 30 children are excluded)"],
    "assumptions": ["resolvers are the data-driven resolvers of harness/src/family.rs (deterministic functions of node id and field)",
                    "a completion order is the order in which the scheduler opens gates, the root future being polled after every opening",
                    "every try_join_all has at most 30 children (larger ones use FuturesOrdered, which is not modelled)"],
}

MANIFEST = {
    "category": "proof",
    "technique": "Coq small-step model of the executor's future tree (try_join_all / serial loop / Option catch / gated resolvers) with theorems for all trees and all schedules + exhaustive-schedule differential correspondence",
    "text": ("Coq (Sched.v): the future tree the static executor builds (try_join_all over fields and list items exactly as futures-util's small "
             "TryJoinAll polls: index order, first error seen wins, the rest dropped; Option<T> catch appending to the shared error list in completion "
             "order; the serial loop of the mutation root; resolvers as gates) and run : schedule -> tree -> response. Theorems for all trees and all "
             "schedules that let the request complete (such a schedule exists for every tree): the response data never depends on the schedule; the "
             "multiset of error paths does not depend on it when no try_join_all has a failing child next to another child that raises any error; both "
             "equal the run with every resolver ready; in a mutation, after any schedule prefix, every event of root field j or beneath it comes after "
             "every event of root field i<j or beneath it (C04, second half). Refuted today (two recorded findings, witnesses replayed on the real code): two failing "
             "non-null siblings report whichever error is polled first; an uncaught error drops siblings whose errors would otherwise be reported. "
             "The model is compared with the real library for every order of gate openings (exhaustive up to 5-6 gates) on data, error order and event log."),
    "note": "trusted: Coq kernel, harness scheduler, sampled agreement model vs code, transcription of futures-util TryJoinAll; no axioms",
}


def run(tier, seed, replay=None):
    spec = dict(SPEC)
    spec["extra_args"] = ["5", "125", "900"] if tier == "quick" else ["6", "800", "40000"]
    return c.run_standard(spec, tier, seed, replay)

"""C30 — extensions are transparent and run their hooks in lifecycle order."""
import common as c

CASE_T = "(schema * world * option document * option name * list (name * value) * cfg * impl)"
SPEC = {
    "pid": "C30",
    "facts": [],
    "bin": "c30",
    "requires": "From AG Require Import Ext.",
    "def_type": "schema",
    "streams": [
        {"kind": "CASE", "type": CASE_T,
         "eval": "fun c => let '(s, w, d, op, v, cf, im) := c in check_c30 s w d op v cf 300 im", "per_shard": 30},
        {"kind": "VAR", "type": "(N * bool * list ev)",
         "eval": "fun c => let '(k, same, hooks) := c in check_var k same hooks", "per_shard": 200},
        {"kind": "INTRO", "type": "(N * bool * bool * list ev * list path)",
         "eval": "fun c => let '(k, same, dyn, hooks, tree) := c in check_tree k same dyn hooks tree", "per_shard": 12,
         "what_violation": "resolve-hook invocations differ from the response tree (one per resolved field and list item, introspection fields included)"},
    ],
    "classes": {1: "static-type-name-not-registered", 2: "unvalidated-field-not-in-registry",
                3: "dynamic-introspection-root-unhooked"},
    "n_quick": 400, "n_thorough": 1600,
    "level": "proof",
    "what_violation": "response with pass-through extensions differs from the response without, or hooks not nested / not in lifecycle order",
    "rule": ("derive-built schema family executed with stacks of 0..3 recording pass-through extensions (strict and fast validation, "
             "normal and introspection-only execution); generated queries and mutations with data worlds (faults in half of the worlds), "
             "truncated documents (failing parse), unknown fields (failing validation), unknown operation names, failing resolvers; "
             "fixed corpus of cut-off cases and finding witnesses first; plus a variant schema (MergedObject roots, #[graphql(flatten)] on a SimpleObject field "
             "and on an #[Object] method, generic object with concrete names, union, interface) on 16 fixed documents, judged by the lifecycle checker "
             "and response equality only; plus an introspection stream (sub-fields of __schema / __type(name:) incl. types, fields, args, enumValues, "
             "possibleTypes, nested ofType chains, alone and mixed with data fields, static family schema and a dynamic schema, 1..3 extensions) where "
             "every object key and list element of the response must correspond path-wise to exactly one resolve-hook invocation per extension; "
             "per document one case per stack size, comparing the full JSON "
             "response, cache policy and headers with the run without extensions and the recorded hook trace (every enter/exit with "
             "arguments) with the model's; non-trivial = extensions attached and data or errors produced"),
    "trusted": ["harness recording extension, world/registry dump and document printer",
                "differential sampling: Ext.v (runners, request phases, extension branch of field/list resolution) = real library "
                "on responses, resolver trace and hook trace"],
    "assumptions": ["resolvers are the data-driven resolvers of harness/src/family.rs; futures are always ready (hook order is the sequential order)",
                    "parser and validator outcomes are inputs of the request model (read from the hooks of the first extension)",
                    "subscriptions (subscribe hook) and dynamic schemas are modelled (runner) but not run by the harness"],
}

MANIFEST = {
    "category": "proof",
    "technique": "Coq proof (chain runners as folds; request phase trace; extension branch of field resolution vs fast path by induction on fuel) + differential correspondence with recording extensions",
    "text": ("Coq: the seven Next* runners as folds over the extension chain; for every chain of pass-through extensions the chain computes "
             "exactly the base function and the events are enter_1..enter_n base exit_n..exit_1; the hook trace of a request is request( prepare, "
             "parse, validation, execute( resolve* ) ) cut at the first failing phase, each at most once; resolve hooks = resolver invocations + list "
             "items; the executor with extensions returns the same data, errors and resolver invocations as without unless the extension branch's "
             "registry lookup by static type name fails (recorded finding: introspection-only mutations run on EmptyMutation). The model is compared "
             "with the real library (responses and recorded hook traces) on every generated case."),
    "note": "trusted: Coq kernel, harness, sampled agreement model vs code; no axioms",
}


def run(tier, seed, replay=None):
    return c.run_standard(SPEC, tier, seed, replay)

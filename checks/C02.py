"""C02 — query results follow spec field collection and completion (dynamic schemas)."""
import common as c

CASE_T = "(schema * world * document * option name * list (name * value) * bool * response)"
CLASSES = {1: "skip-include-ignores-variable-default", 2: "type-condition-only-object-name-or-implements",
           3: "error-never-caught-below-root", 4: "repeated-key-resolved-per-occurrence",
           5: "null-value-at-non-null-passed-through", 6: "builtin-scalar-result-unchecked",
           7: "null-value-not-completed-to-null", 9: "several-deviations-jointly"}
SPEC = {
    "pid": "C02",
    "facts": [],
    "bin": "c02",
    "requires": "From AG Require Import DynExecCheck.",
    "def_type": "schema",
    "streams": [
        {"kind": "CASE", "type": CASE_T,
         "eval": "fun c => let '(s, w, d, op, v, nv, r) := c in check_c02 s w d op v nv 300 r", "per_shard": 20},
    ],
    "classes": CLASSES,
    "n_quick": 240, "n_thorough": 960,
    "level": "proof",
    "what_violation": "response data of a dynamic schema differs from the specification's execution algorithm",
    "rule": ("schemas built with the dynamic-schema API: the type system of harness/src/family.rs (5 objects x 18 fields, interfaces Node/Named, "
             "union Pair, enum Kind, every list/nullability wrapper), a fixed interface hierarchy (P <- Ch <- G with objects implementing {P}, {Ch,P}, {G,Ch,P}, {}; "
             "union of all) plus generated type systems (2-5 objects, 0-3 interfaces with interface-implements-interface and objects implementing "
             "various subsets, 0-2 unions, an enum, nested list wrappers, fields typed by every object/interface/union), dumped from the library's registry; "
             "type conditions range over every overlapping object/interface/union (incl. ones that do not apply to the runtime object) and, without "
             "validation (fast mode), over every composite type; data-driven resolvers returning None / FieldValue::NULL / values / lists / "
             "owned_any(+with_type); generated documents (aliases, repeated keys, named/inline fragments on object/interface/union conditions, "
             "@skip/@include with literals, variables and variable defaults), variables and worlds (3% resolver faults in a quarter of the worlds, "
             "wrong-kind leaves / non-member references in 40%, null as value in a third); fixed corpus of finding witnesses first; "
             "distinct by case text (includes a hash of the world); non-trivial = data non-null or errors"),
    "trusted": ["harness type-system builder, registry dump, world and document printers",
                "differential sampling: DynExec.v model (today's deviations on) = real dynamic executor on data, error paths and resolver trace"],
    "assumptions": ["resolvers are the data-driven resolvers of harness/src/bin/c02.rs (pure functions of node id and field); the conversion of a world outcome "
                    "into a FieldValue is part of the resolver and mirrored by hfails in DynExec.v",
                    "documents accepted by the real validator (rejected ones are counted, not judged)",
                    "no custom scalars with validators, input objects or introspection fields in the generated cases; objects implementing an interface list its "
                    "parent interfaces explicitly (as the specification requires); "
                    "floats are finite; strings returned for enum-typed fields are never member names",
                    "the specification is Exec.spec_exec: an outcome that does not conform to the declared field type is a field error of that field"],
}

MANIFEST = {
    "category": "proof",
    "technique": "Coq refinement proof (dynamic executor model with all deviation flags off = spec algorithm on data, lockstep induction on fuel) + quirk-parametric model of today's dynamic executor tied to the code by differential correspondence",
    "text": ("Coq: a model of src/dynamic/resolve.rs + execute_once (per-occurrence collection with its own type-condition test, serial containers, "
             "resolve over TypeRef, resolve_value's scalar/enum/interface/union checks, resolve_list, no error catch, create_value_object merge) "
             "parametrised by eight deviation flags. Theorem C02_corrected_data: with all flags off the model's data equals the GraphQL section-6 "
             "specification (Exec.spec_exec) for ALL schemas, worlds, documents, variables; non-null theorems for every flag combination with the "
             "null check on; the per-case verdict is proved sound (code 0 => real data = spec data; gap code impossible). Seven deviations have "
             "refutation witnesses replayed on the real library and recorded findings. Today's model is compared with the real library on data, "
             "error paths and resolver trace on every generated case."),
    "note": "trusted: Coq kernel, harness, sampled agreement model vs code; no axioms",
}


def run(tier, seed, replay=None):
    return c.run_standard(SPEC, tier, seed, replay)

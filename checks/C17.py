"""C17 — exported SDL is valid and describes exactly the schema."""
import common as c

SPEC = {
    "pid": "C17",
    "facts": ["quoted", "sdlesc"],
    "bin": "c17",
    "requires": "From AG Require Import Sdl.",
    "def_type": "registry",
    "streams": [
        {"kind": "CASE", "type": "(registry * opts * str * option (list r_def))",
         "eval": "check_case", "per_shard": 12},
    ],
    "classes": {1: "deprecation-reason-unescaped", 2: "default-control-decimal",
                3: "interface-directive-before-implements", 4: "block-description-lossy",
                5: "single-line-description-backslash", 6: "directive-argument-description-dropped",
                7: "specified-by-url-backslash"},
    "n_quick": 270, "n_thorough": 960,
    "level": "proof",
    "what_violation": "exported SDL does not read back as a description of the registry",
    "rule": ("registries injected from generated descriptions (all six kinds, descriptions, deprecations with reasons, "
             "defaults of every value shape, directive definitions and invocations, interfaces implementing interfaces) "
             "+ a fixed corpus of boundary texts + one derive-built schema, each under 3-8 option sets "
             "(sorted fields/arguments/enum values, single-line descriptions, specifiedBy, space indentation widths); "
             "distinct by (schema, options, exported text); non-trivial = exported text longer than 200 bytes"),
    "trusted": ["tools/factsgen/sdlesc.py (escape_string arms, write_description / write_deprecated shapes -> SdlEscGen.v)",
                "tools/factsgen/quoted.py (write_quoted -> QuotedGen.v)",
                "harness registry dump (defaults: value side table), crate parse_schema tree printer",
                "differential sampling: Sdl.export_sdl = Registry::export_sdl character for character on this run's cases"],
    "assumptions": [
        "federation, compose_directive options off; `visible` functions ignored (the exporter ignores them too)",
        "registry defaults are the Display text of a ConstValue (what the derive macros store)",
        "the Gallina exporter (Sdl.v) is Registry::export_sdl: checked character for character on this run's cases only",
    ],
}

MANIFEST = {
    "category": "proof",
    "technique": ("Coq model of export_sdl (escape table regenerated from source) + independent Coq reader for the "
                  "type-system grammar + abstraction to a plain type-system record; token-level round-trip lemmas per printer; "
                  "character-exact differential correspondence with Schema::sdl_with_options; cross-check with the crate's parse_schema"),
    "text": ("Coq theorems, for all inputs outside six narrow known classes: deprecation reasons (escape_string, table regenerated "
             "from source) and @deprecated with/without reason, single-line descriptions at any indentation, names, type references "
             "and the `implements` clause read back with a reader written from the GraphQL type-system grammar; block descriptions "
             "are proved on a bounded domain (all strings up to 5 characters over 7 critical characters); the whole-document round trip "
             "parse_sdl(export R) ~ abs_registry R is evaluated inside Coq on every generated case, not proved in general (partial). "
             "Six refutations with witnesses replayed on the real exporter; the deprecation-reason class is repaired (escape_string proved to carry every reason). The exporter model agrees character for character with "
             "Schema::sdl_with_options on generated (injected) registries and two derive-built schemas under varied options; "
             "the crate's parse_schema is run on every exported text as a second reader."),
    "note": ("trusted: Coq kernel, facts translators, harness dump, sampled agreement model vs code; "
             "theorems closed under the global context (no axioms)"),
}


def run(tier, seed, replay=None):
    return c.run_standard(SPEC, tier, seed, replay)

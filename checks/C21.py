"""C21 — secret arguments never appear in logged or traced query text."""
import common as c

SPEC = {
    "pid": "C21",
    "facts": [],
    "bin": "c21",
    "requires": "From AG Require Import Secret.",
    "def_type": "cdef",
    "streams": [
        {"kind": "PAIR", "type": "pcase", "eval": "check_case", "per_shard": 40},
    ],
    "classes": {1: "secret-in-list", 2: "secret-under-untyped-inline-fragment", 3: "secret-as-variable-default"},
    "n_quick": 600, "n_thorough": 2400,
    "level": "proof",
    "what_violation": "a secret value changes (appears in) the query text produced for logging/tracing",
    "rule": ("pairs of requests identical except for the values supplied at secret positions (sentinels in every "
             "syntactic position: literals, variables, nested input objects, lists, typed/untyped inline fragments, "
             "named fragments, variable defaults), against a derive-built schema with #[graphql(secret)] and generated "
             "injected registries; printed through ExtensionContext::stringify_execute_doc in an extension; distinct by "
             "(schema, document, variables); non-trivial = the pair carries at least one sentinel secret"),
    "trusted": ["harness registry dump + document printer (real hash-map iteration order)",
                "differential sampling: Secret.v impl_doc = Registry::stringify_exec_doc on this run's cases"],
    "assumptions": [
        "the Gallina printer (Secret.v impl_doc) is Registry::stringify_exec_doc: checked by correspondence on this run's cases only",
        "float formatting and name texts are parameters of the model (theorems hold for all of them)",
    ],
}

MANIFEST = {
    "category": "proof",
    "technique": "Coq proof of non-interference of the faithful printer model outside three narrow known classes (by equality with a spec-typed reference printer) + refutation witnesses + differential correspondence on sentinel pairs",
    "text": ("Coq theorems: for every schema, every pair of (document, variables) that differ only at secret positions "
             "(by spec typing) and lie outside three narrow classes, the model of stringify_exec_doc prints the same text; "
             "the three classes (secret inside a list, below an inline fragment without type condition, as a variable default) "
             "are refuted with witnesses replayed on the real code.  The model is tied to the real printer by running "
             "ExtensionContext::stringify_execute_doc on generated sentinel pairs."),
    "note": ("trusted: Coq kernel, harness registry dump/document printer, sampled agreement model vs code; "
             "theorems closed under the global context (no axioms)"),
}


def run(tier, seed, replay=None):
    return c.run_standard(SPEC, tier, seed, replay)

"""C15 — values print as GraphQL literals and convert to JSON without loss."""
import common as c

SPEC = {
    "pid": "C15",
    "facts": ["quoted"],
    "bin": "c15",
    "requires": "From AG Require Import ValueText.",
    "def_type": "unit",
    "streams": [
        {"kind": "PP", "type": "(cval * str * option cval * list (str * str))", "eval": "check_pp", "per_shard": 150},
        {"kind": "JSON", "type": "(cval * json * option cval * option cval * list (str * str))", "eval": "check_json", "per_shard": 150},
    ],
    "classes": {1: "control-char-decimal-escape", 2: "enum-keyword-prefix", 3: "float-text-inexact"},
    "n_quick": 2000, "n_thorough": 8000,
    "level": "proof",
    "what_violation": "printed literal does not read back as the value / JSON conversion loses the value",
    "rule": ("random nested ConstValues (depth <= 3): strings over C0/C1 controls, quotes, backslashes, BOM, separators, "
             "non-BMP and BMP-edge characters; integers over the whole i64/u64 range; floats from fixed boundary values and random "
             "bit patterns; enum names incl. those beginning with true/false/null; lists and objects; plus a fixed corpus "
             "(every control character, the witnesses of the known findings). 3 of 4 cases: Display -> real parse_query "
             "and Coq reader; 1 of 4: serde_json value tree and JSON text round trip; non-trivial = not null/boolean"),
    "trusted": ["tools/factsgen/quoted.py (write_quoted arms and \\u format, write_list/write_object/Display shapes -> QuotedGen.v)",
                "serde_json/ryu float printing and str::parse::<Number>() are external: floats travel as their printed digits, "
                "what the number reader returns for them is observed per case (oracle table)",
                "differential sampling: ValueText.display = Display, ValueText.read_impl = parse_query on printed text, to_json/from_json = serde impls"],
    "assumptions": [
        "Rust's integer formatting prints i64/u64 in decimal without leading zeros (Decimal.Z.to_int in the model)",
        "char::is_control is the general category Cc = U+0000..U+001F, U+007F..U+009F",
        "the real parser on printed text behaves like the grammar-derived reader with the keyword-prefix switch: correspondence only",
        "reading back the digits printed for a float yields the same float: FALSE of serde_json without float_roundtrip (known finding), assumed as a hypothesis of the round-trip theorems",
    ],
}

MANIFEST = {
    "category": "proof",
    "technique": "Coq proof (print/read round trip of string literals, integers and whole values against a reader written from the GraphQL grammar; JSON tree round trip) + translated escape table + differential correspondence",
    "text": ("Coq theorems over the escape table and \\u format regenerated from value/src/lib.rs on every run: every string without a control "
             "character >= U+000A (other than \\t \\n \\r) reads back from its printed literal, every integer reads back from its decimal text, "
             "and the JSON conversion returns an equal value (enum as string) for every well-formed value; the control-character witness "
             "refutes the full statement (known finding). Display, the real parser on Display's output and the serde impls are compared "
             "with the model on generated values."),
    "note": ("trusted: Coq kernel, tools/factsgen/quoted.py, float text conversion (external, observed), sampled agreement model vs code; "
             "theorems closed under the global context (no axioms)"),
}


def run(tier, seed, replay=None):
    return c.run_standard(SPEC, tier, seed, replay)

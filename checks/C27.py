"""C27 — each subscription response holds exactly its own event's data and errors."""
import common as c

CLASSES = {1: "shared-error-list-across-overlapping-events"}
SPEC = {
    "pid": "C27",
    "facts": [],
    "bin": "c27",
    "requires": "From AG Require Import SubEvents.",
    "def_type": "fixture",
    "streams": [
        {"kind": "CASE", "type": "(fixture * fixture * list action * list (list obs) * list (N * name))",
         "eval": "fun c => let '(s, sc, a, o, t) := c in check_c27 s sc a o t", "per_shard": 150},
        {"kind": "QS", "type": "(fixture * world * document * list (name * value) * list (list obs) * obs)",
         "eval": "fun c => let '(s, w, d, v, p, r) := c in check_qs s w d v p r", "per_shard": 25},
    ],
    "classes": CLASSES,
    "n_quick": 1600, "n_thorough": 6400,
    "level": "proof",
    "what_violation": "a subscription response carries errors of another event / loses its own / a streamed query does not yield exactly execute's response",
    "rule": ("derive-built #[Subscription] root (5 root fields: non-null and nullable object items, a leaf item) over the schema family of "
             "harness/src/family.rs; events pushed through futures_channel::mpsc; resolvers directly under the event gated, nested resolvers "
             "failing at nullable and non-null positions; the real execute_stream polled by hand under schedules of push/close/open-gate/poll: "
             "a fixed corpus (finding witness, root fragments, failing creator, stream end, nullable items, try_join_all abort), ALL order-preserving merges "
             "of the event life cycles (push, open gate) of 2-3 root fields with errors recorded at nullable positions before and after the suspension "
             "point on every stream (one and two events per stream; polls after every subset of actions / after every action: executions overlap in "
             "both nestings and partially), all schedules "
             "over 5 actions up to the length the budget allows on three scenarios, then random documents/worlds/gates/schedules; plus queries "
             "and mutations sent through execute_stream and execute; distinct by case text; non-trivial = at least one response delivered"),
    "trusted": ["harness world/registry dump, document printer, schedule driver (noop waker, drain until 3 consecutive Pending)",
                "differential sampling: SubEvents.v machine = real execute_stream (responses per poll step, error paths, resolver trace)",
                "Exec.v impl model for everything below the event's top-level fields (tied to the code by C01/C03)"],
    "assumptions": [
        "resolvers suspend only directly under the event value (one gate per response path), everything below is ready",
        "at most 30 fields directly under an event (try_join_all's Small variant)",
        "documents accepted by the real validator (rejected ones are counted, not judged)",
    ],
}

MANIFEST = {
    "category": "proof",
    "technique": "Coq invariant proof over an explicit-schedule state machine of execute_stream (select_all ready queue, per-stream `then`, try_join_all, request-wide error list) + differential correspondence against the real stream under bounded-exhaustive and random schedules",
    "text": ("Coq: a state machine of Schema::execute_stream for subscriptions (one stream per root field, FIFO wake order of select_all, one event "
             "at a time per stream, the event's top-level fields joined by try_join_all with gated resolvers, errors pushed to the request-wide list "
             "and taken when an event completes), instrumented with the errors each event raised itself. Theorems for ALL schedules and plans: if no "
             "event execution runs while another root field's execution is in progress (in particular with one root field, or with ready resolvers) "
             "every response carries exactly its own errors; a query or mutation through execute_stream yields exactly execute's response and the end "
             "(that theorem is a transcription of the non-subscription branch, tied to the code by the QS cases). That each response's data is its "
             "own event's field is built into the machine (data is computed from the event's own plan) and is checked by correspondence, not a separate theorem. The full statement is refuted by a two-field witness "
             "(recorded finding, replayed on the real code). The machine is compared with the real stream per poll step on every generated schedule."),
    "note": "trusted: Coq kernel, harness, sampled agreement machine vs code; theorems closed under the global context",
}


def run(tier, seed, replay=None):
    return c.run_standard(SPEC, tier, seed, replay)

"""C08 — built-in input validators accept exactly the values satisfying their predicate."""
import common as c

SPEC = {
    "pid": "C08",
    "facts": ["validators"],
    "bin": "c08",
    "requires": "From AG Require Import Validators.",
    "def_type": "unit",
    "streams": [
        {"kind": "REQ", "type": "(list (N * str * bool) * bool * list slot * N)", "eval": "check_case", "per_shard": 700},
        {"kind": "FN", "type": "(list (N * str * bool) * bool * list slot * N)", "eval": "check_case", "per_shard": 700},
    ],
    "classes": {1: "unsigned-above-i64-max", 2: "float-value-integer-bound", 3: "integer-value-float-bound",
                4: "multiple-of-zero-value", 5: "multiple-of-zero-bound-panics"},
    "n_quick": 1500, "n_thorough": 6000,
    "allowed_axioms": c.FLOCQ_AXIOMS,
    "level": "proof",
    "what_violation": "a validated argument reached the resolver without satisfying its validators, or was refused although it satisfies them",
    "rule": ("derive-built schemas: every numeric validator with integer and float bounds on i8..i64, isize, u8..u64, usize, f32, f64; "
             "string, list, Option/MaybeUndefined/Box wrappers, an input object and a two-argument field; values at/below/above every bound "
             "and the finding witnesses first, then random; strict and fast mode, literal and variable; plus direct calls of "
             "async_graphql::validators::* with random bounds (negative, NaN, infinite included). distinct by (mode, feed, validator, query, variables); "
             "non-trivial = the value was not accepted"),
    "trusted": ["tools/factsgen/validators.py (operators, measures, zero guard, order/grouping -> ValidatorGen.v)",
                "harness: the typed value is obtained with the real InputType::parse; regex answers come from the regex crate",
                "differential sampling: Validators.v = validator functions + generated invocation code on this run's cases",
                "IEEE-754: comparison and fmod of doubles are exact on the denoted values; `as` casts as described in the Rust reference"],
    "assumptions": [
        "regex::Regex::is_match is a function of (pattern, text) (Section variable `matches`)",
        "the casts performed by num_traits::AsPrimitive are Rust `as` casts (wrap for integers, truncate-saturate float->int, nearest-even int->float): checked by correspondence only",
    ],
}

MANIFEST = {
    "category": "proof",
    "technique": "Coq proof (exactness of every validator outside five narrow computable classes, for all integers / bit patterns / strings / lists; refutations by witness inside each class) + operators, measures and invocation order translated from the source on every run + differential correspondence through derive-built schemas and direct calls",
    "text": ("Coq theorems over all values: with an integer bound, maximum/minimum/multiple_of are exact for every integer value inside the i64 range and for every "
             "float value that is an integer inside that range; with a float bound they are exact for every float value and for every integer of magnitude below 2^53; "
             "string length (UTF-8 bytes / scalar values), item count, regex and list mode are exact; a request is accepted iff every predicate holds, for any list of "
             "validated arguments outside the known classes. Refuted with witnesses (all replayed on the real code): unsigned values above i64::MAX wrap, float values "
             "are truncated against integer bounds, integers above 2^53 are rounded against float bounds, multiple_of rejects 0, multiple_of = 0 panics."),
    "note": ("trusted: Coq kernel, tools/factsgen/validators.py, harness value extraction, sampled agreement model vs code; integer/string/list theorems closed under the "
             "global context (no axioms)"),
}


def run(tier, seed, replay=None):
    return c.run_standard(SPEC, tier, seed, replay)

"""C09 — strict validation rejects exactly the documents the GraphQL spec calls invalid.

PARTIAL by design (DESIGN §6 C09): a Coq-written specification of validity
(`spec_valid`, GraphQL Oct 2021 §5 + the Upload restriction) is the oracle of a
differential run against the real strict validator; Coq theorems cover the
rule composition (method lists translated from visitor.rs / mod.rs on every
run) and the rules where the composition goes wrong.  The other strict rules
are tied to the code by the differential run only.
"""
import common as c

CASE_T = "(schema * document * list (name * value) * option name * N)"
SPEC = {
    "pid": "C09",
    "facts": ["visitor"],
    "bin": "c09",
    "requires": "From AG Require Import Validation.",
    "def_type": "schema",
    "streams": [
        {"kind": "CASE", "type": CASE_T,
         "eval": "fun c => let '(s, d, v, o, i) := c in check_c09 s d v o 200 i", "per_shard": 40},
    ],
    "classes": {1: "variable-position-not-checked", 2: "overlapping-fields-partial", 3: "argument-values-partial",
                4: "subscription-single-root-not-checked", 5: "typename-field-unvisited"},
    "n_quick": 500, "n_thorough": 2000,
    "level": "other",
    "what_violation": "strict validation accepts/rejects differently from the specification of validity (or rejects without a located error / after a resolver ran)",
    "rule": ("per generated schema (injected registry: objects, interfaces, unions, enum, input objects incl. oneOf, custom scalar, Upload, "
             "argument defaults, a repeatable custom directive, optional mutation and subscription roots): a fixed corpus of 35 witnesses and "
             "boundary documents on every 4th schema; 8 documents with 2-4 operations sharing fragments (direct/transitive spreads, fragments on "
             "two types, variables used only inside fragments; valid, or ONE of: definition dropped in one operation, unused definition, wrong "
             "declared type, unused fragment), each validated 8 times (the rules' per-operation hash maps are randomly seeded; any acceptance "
             "counts); then valid documents generated from the schema (1/4 kept valid, 3/4 with ONE of 36 "
             "rule-targeted mutations), run through Schema::execute in strict mode with an extension around the validation step and counting "
             "root resolvers; oracle spec_valid; distinct by (schema, mutation, variables, text); non-trivial = mutated or longer than 20 bytes"),
    "trusted": ["tools/factsgen/visitor.py (method lists of trait Visitor / VisitorCons, .with chains -> VisitorGen.v)",
                "harness registry dump (from ExtensionContext::schema_env.registry) and document printer",
                "spec_valid is a hand transcription of GraphQL Oct 2021 section 5 (reviewed against the text, not derived from it)",
                "19 of the 22 strict rules have no Gallina model: for them the modelled validator IS the spec clause and agreement with the code is sampled only"],
    "assumptions": [
        "uniqueness of operation / fragment names and the single anonymous operation are enforced by the parser (C13), not re-tested here",
        "variables are supplied with values of their declared type (coercion of variable values is execution, not validation)",
        "the clause 'an accepted document never fails later for a reason validation must catch' is not checked (the resolvers of the generated schemas return null)",
        "static (injected registry) schemas only; the dynamic-schema path shares check_rules and is not exercised",
    ],
}

MANIFEST = {
    "category": "other",
    "technique": ("differential run of the real strict validator against a Coq-written executable specification of document validity "
                  "(generated schemas, valid documents + one rule-targeted mutation each), plus Coq proofs about the rule composition "
                  "(method lists re-translated from visitor.rs/mod.rs on every run) and about the three rules where it goes wrong"),
    "text": ("Partial proof. Coq theorems: VisitorCons forwards every Visitor callback except at most the two input-value callbacks "
             "(re-checked against the source on every run); without that forwarding VariableInAllowedPosition reports nothing for any "
             "schema and document; on one recorded usage it decides exactly as the specification's IsVariableUsageAllowed outside three "
             "narrow computable classes and never allows what the specification forbids; a silent run of OverlappingFieldsCanBeMerged "
             "guarantees that fields collected under the same (type condition, response key) are the same field with the same number of "
             "arguments, and the full merge rule is refuted with witnesses in both directions; outside five computable known classes the "
             "modelled validator equals the specification. Everything else of the property (the other 19 rules, i.e. that rejection "
             "coincides with spec-invalidity, before any resolver, with a located error) is decided by running the real validator "
             "against the Coq specification on generated documents; five confirmed deviations are recorded as known findings."),
    "note": ("level 'other': proved core is only part of the property; trusted: Coq kernel, facts translator, harness dump/printers, the "
             "hand-written specification, sampled agreement for the unmodelled rules; theorems closed under the global context (no axioms)"),
}


def run(tier, seed, replay=None):
    return c.run_standard(SPEC, tier, seed, replay)

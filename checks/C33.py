"""C33 — dynamic schemas build exactly when the type system is valid."""
import common as c

SPEC = {
    "pid": "C33",
    "facts": [],
    "bin": "c33",
    "requires": "From AG Require Import DynCheck.",
    "def_type": "tsys",
    "streams": [
        {"kind": "CASE", "type": "(tsys * impl_res)", "eval": "check_case", "per_shard": 150},
    ],
    "classes": {
        1: "covariance-direction",
        2: "covariance-named-types",
        3: "argument-type-subtype",
        4: "extra-required-argument",
        5: "missing-nullable-argument",
        6: "fieldless-interface-unchecked",
        7: "interface-implements-unregistered",
        8: "transitive-interface-undeclared",
        9: "subscription-root-unregistered",
        10: "subscription-fields-unchecked",
    },
    "n_quick": 2500, "n_thorough": 10000,
    "level": "proof",
    "what_violation": "SchemaBuilder::finish disagrees with the type-validation rules (or a built schema panicked later)",
    "rule": ("a fixed corpus (witness of every known deviation, the unit tests of check.rs, boundary cases) followed by random "
             "small type systems built through the dynamic API: 30% valid by construction (incl. spec-valid covariant "
             "implementations), 60% one rule-targeted mutation out of 34 operators, 10% two mutations; registration order "
             "shuffled; every accepted schema is run through the full introspection query, three SDL exports, generated "
             "queries/mutations and subscriptions under catch_unwind; distinct by printed type system; non-trivial = more "
             "than one registered type"),
    "trusted": ["harness builder (AST -> dynamic API calls) and error-message classification (harness/src/bin/c33.rs)",
                "differential sampling: DynCheck.finish = SchemaBuilder::finish (result and error kind) on this run's cases",
                "post-build robustness (introspection, SDL, queries never panic) is exercised on the accepted cases, not proved"],
    "assumptions": [
        "type systems without federation entity keys and without registered type names beginning with \"__\"; names inside one IndexMap are unique (the builder API asserts or replaces)",
        "the Gallina check (DynCheck.v) is SchemaInner::check: tied by correspondence on this run's cases only",
    ],
}

MANIFEST = {
    "category": "proof",
    "technique": "Coq proof (model of SchemaInner::check in source order = transcription of the named GraphQL type-validation rules for every type system outside ten computable deviation classes; path-DFS of input-object references = reachability) + differential correspondence through SchemaBuilder::finish",
    "text": ("Coq theorems over all type systems: outside ten narrow, computable deviation classes finish() = Ok implies the named "
             "rules (roots, output/input types, interface implementation, union members, no required input cycle), and those rules "
             "plus the other enforced spec rules imply finish() = Ok; every class has a refutation witness replayed on the real "
             "builder; accepted schemas have all referenced type names resolved. The model is tied to the real builder by "
             "running both on generated type systems (result and error kind), and every accepted schema is introspected, "
             "exported and queried under catch_unwind."),
    "note": ("trusted: Coq kernel, harness builder/classifier, sampled agreement model vs code; theorems closed under the global "
             "context; post-build no-panic is tested, not proved"),
}


def run(tier, seed, replay=None):
    return c.run_standard(SPEC, tier, seed, replay)

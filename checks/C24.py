"""C24 — multipart uploads bind files exactly as mapped and respect limits."""
import common as c

SPEC = {
    "pid": "C24",
    "facts": ["requestserde"],
    "bin": "c24",
    "requires": "From AG Require Import Upload.",
    "def_type": "unit",
    "streams": [
        {"kind": "CASE", "type": "(mopts * N * list part * outcome result)",
         "eval": "fun c => let '(o, b, ps, i) := c in check_case o b ps i", "per_shard": 100},
        {"kind": "SET", "type": "(request * list str * ureq)",
         "eval": "fun c => let '(r, ps, i) := c in check_set r ps i", "per_shard": 200},
    ],
    "classes": {1: "file-count-not-enforced"},
    "n_quick": 500, "n_thorough": 2000,
    "level": "proof",
    "what_violation": "upload bound to a different place / map entry without file accepted / size or count limit not enforced / crash",
    "rule": ("generated multipart/form-data bodies through receive_batch_body: single and batch operations with nested "
             "variable trees, 0-3 map entries with 0-3 paths each drawn from resolvable paths, odd spellings (leading zeros, "
             "+ sign, empty segments, out-of-range and overflowing indices, wrong prefix) and batch prefixes, files in any part "
             "order, missing/duplicate/extra files, ignored parts, malformed or missing operations/map parts, file sizes at "
             "limit-1/limit/limit+1 under generated max_file_size/max_num_files; plus Request::set_upload alone on path lists; "
             "distinct by text; non-trivial = accepted body / at least one upload bound"),
    "trusted": ["multer part framing and its size accounting (whole stream = body length for bodies below one 2048-byte read, per field = part length)",
                "serde_json (operations / map text -> tree), harness JSON printer and part builder",
                "differential sampling: Upload.v = receive_batch_multipart + set_upload on this run's cases"],
    "assumptions": [
        "multer enforces the two byte limits it is given as modelled (checked by correspondence with sizes around the limits)",
        "max_file_size * max_num_files does not overflow usize (the product is computed unchecked in the code)",
        "the Gallina binding loop (Upload.v) is the code's: checked by correspondence on this run's cases only",
    ],
}

MANIFEST = {
    "category": "proof",
    "technique": "Coq proof over the binding glue (write-then-read on variable paths by induction over path and value; map consumption; limit propagation) + differential correspondence through the real multipart receiver",
    "text": ("Coq theorems: a resolvable variable path is bound to the marker of exactly the pushed upload and an unresolvable one "
             "changes nothing (any depth); after the binding loop exactly the map entries without a file part remain, so such a body "
             "is rejected; a file over max_file_size is never accepted; max_num_files is refuted as a count limit (alone it has no "
             "effect, with max_file_size it is a byte budget). The model is tied to receive_batch_multipart/set_upload by generated "
             "bodies with permuted parts, odd paths, batch prefixes, missing/extra files and sizes around the limits."),
    "note": ("trusted: Coq kernel, multer framing/size accounting, serde_json, sampled agreement model vs code; frame property "
             "proved for top-level variables only (C24_bind_partial); theorems closed under the global context"),
}


def run(tier, seed, replay=None):
    return c.run_standard(SPEC, tier, seed, replay)

"""C29 — DataLoader cache operations behave like the documented cache."""
import common as c

SPEC = {
    "pid": "C29",
    "facts": [],
    "bin": "c29",
    "requires": "From AG Require Import DLCache.",
    "def_type": "unit",
    "streams": [
        {"kind": "CASE", "type": "(kind * list (op * obs))", "eval": "check_case", "per_shard": 25},
        {"kind": "CFG", "type": "(kind * list (op * obs))", "eval": "check_cfg", "per_shard": 25},
    ],
    "classes": {1: "enable-cache-before-first-use-panics"},
    "n_quick": 700, "n_thorough": 2800,
    "level": "proof",
    "what_violation": "a cache operation panics / a load does not return the cached-or-loader value the reference cache prescribes",
    "rule": ("operation histories (1-40 operations: load_many with duplicate/empty key lists and loader answers that omit keys, "
             "add foreign keys or fail; feed_many; clear; clear_one; enable_cache; enable_all_cache; get_cached_values) over two key "
             "types, 2-6 keys, NoCache / HashMapCache / LruCache(1..4), max_batch_size 1, 2, 3 and 1000, run to completion on the real "
             "DataLoader with a hand-polled spawner and an immediate timer; a fixed corpus (enable_cache before first use for every "
             "cache kind, eviction and promotion orders, disabled caches) comes first; distinct by (kind, batch size, history); "
             "non-trivial = some load returned a value or some cache listing was non-empty"),
    "trusted": ["harness loader/spawner/timer adapters; the loader reports the iteration order of the map it returns, which is "
                "the order do_load inserts into the cache",
                "differential sampling: DLCache.v (istep) = DataLoader API run to completion, on this run's histories",
                "lru 0.16.4 (external crate) is modelled as a recency list, tied by the same sampling"],
    "assumptions": [
        "operations run one after the other, each to completion (interleavings are C28's subject)",
        "LruCache capacity >= 1 (LruCache::new(0) panics at the first use of a key type: a configuration error, modelled and "
        "compared in the CFG stream, outside the property's quantifier)",
        "the loader's returned map and the spawner/timer behave as the DataLoader documentation requires (spawned tasks and timers run)",
    ],
}


MANIFEST = {
    "category": "proof",
    "technique": "Coq proof (refinement of the NoCache / HashMap / LRU storages behind the DataLoader API to one reference "
                 "recency-ordered map, by induction over arbitrary operation histories) + differential correspondence of the model",
    "text": ("Coq theorems: for every cache kind (LRU capacity >= 1), every history of load / feed / clear / clear_one / enable_cache / "
             "enable_all_cache / get_cached_values of any length over any keys and key types, the DataLoader model returns exactly what "
             "the reference cache returns (cached value iff caching is enabled and the key is held, honouring capacity and recency; "
             "the loader's value otherwise; the loader is asked exactly for the other keys), holds at most cap entries and never "
             "panics - except in the recorded known class (enable_cache on a key type before its first use panics today), for which "
             "the class is proved tight and the corrected enable_cache is proved correct without exception. The model is tied to the "
             "real DataLoader by running generated histories on both."),
    "note": ("trusted: Coq kernel, harness adapters, sampled agreement model vs code (sequential histories); "
             "theorems closed under the global context (no axioms)"),
}


def run(tier, seed, replay=None):
    return c.run_standard(SPEC, tier, seed, replay)

"""C26 — multipart/mixed subscription bodies are well framed."""
import common as c

SPEC = {
    "pid": "C26",
    "facts": ["multipart"],
    "bin": "c26",
    "requires": "From AG Require Import Multipart.",
    "def_type": "unit",
    "streams": [
        {"kind": "SCHED", "type": "(list (action * obs))", "eval": "check_case", "per_shard": 150},
    ],
    "classes": {},
    "n_quick": 600, "n_thorough": 20000,
    "level": "proof",
}
MANIFEST = {}


def run(tier, seed, replay=None):
    spec = dict(SPEC)
    spec["extra_args"] = ["7" if tier == "thorough" else "5"]
    return c.run_standard(spec, tier, seed, replay)

"""C26 — multipart/mixed subscription bodies are well framed."""
import common as c

SPEC = {
    "pid": "C26",
    "facts": ["multipart"],
    "bin": "c26",
    "requires": "From AG Require Import Multipart.",
    "def_type": "unit",
    "streams": [
        {"kind": "SCHED", "type": "(list (action * obs))", "eval": "check_case", "per_shard": 150},
    ],
    "classes": {},
    "n_quick": 500, "n_thorough": 2000,
    "level": "proof",
    "what_violation": ("the multipart/mixed body is not a well-formed multipart stream of the arrived responses in order "
                       "(heartbeats as {} parts, closing delimiter once and last, nothing after the end)"),
    "rule": ("the real create_multipart_mixed_stream with a manual Timer (a flag raised by the schedule) and an unbounded "
             "channel as input, polled one poll_next at a time with a no-op waker: ALL schedules over "
             "{arrive, fire, poll, close} up to length 5 (quick) / 7 (thorough), each completed by closing the input and "
             "polling to the end, plus random schedules of 4-64 actions with hostile response contents (CR LF, "
             "'--graphql--' and full part headers inside strings, quotes, control and non-BMP characters, errors with "
             "paths, extensions); per poll the returned chunk / Pending / None is compared with the model, whose "
             "select! choice (both branches ready) is read off the next chunk; the received bytes are re-read by the Coq "
             "RFC 2046 reader; distinct by (schedule, responses); non-trivial = at least one response and one heartbeat"),
    "trusted": ["tools/factsgen/multipart.py (byte-string statics and yield order -> MultipartGen.v; control skeleton "
                "checked by regular expressions)",
                "harness manual Timer / channel / single-poll driver; serde_json::to_vec = serde_json::to_writer",
                "differential sampling: Multipart.v step = the generator on this run's schedules",
                "futures_util::select! picks among ready branches only, in no fixed order (modelled as an explicit choice)"],
    "assumptions": [
        "a serialised Response contains no raw CR byte (serde_json escapes control characters); exercised with CR/LF inside strings",
        "the reader accepts a body with zero parts ('--graphql--' immediately): RFC 2046 asks for at least one part; "
        "a subscription that ends before its first event produces exactly that",
        "serialisation failure of a Response (`continue`, the response is skipped) is modelled (EBad) but cannot be "
        "produced through the public API and is not exercised",
        "the consumer polls to the end; a body dropped half-way is truncated (out of scope)",
    ],
}


MANIFEST = {
    "category": "proof",
    "technique": ("Coq proof by induction over all event sequences and all schedules (state machine with explicit select! "
                  "choice, invariant: delivered ++ buffered = chunks of the selections; FIFO conservation) against an RFC 2046 "
                  "reader written in Coq + byte strings and yield order translated from the source on every run + "
                  "exhaustive small-schedule and random differential correspondence on the real function"),
    "text": ("Coq theorems: for every sequence of select! outcomes the concatenated output re-reads (RFC 2046 reader, boundary "
             "graphql) as exactly the responses in order with heartbeats as {} parts, all application/json, followed by the "
             "closing delimiter and CRLF only; the closing-delimiter chunk is yielded exactly once, last, and never before the "
             "input ended; nothing is yielded after the end. For every schedule of arrivals, timer firings, polls, select! "
             "choices and close: delivered plus buffered chunks are the chunks of the selections, responses are selected in "
             "arrival order without loss or duplication, at most one heartbeat per firing, and a drained closed stream re-reads "
             "as above; afterwards every poll answers None. The constants and yield order are regenerated from "
             "multipart_subscribe.rs on every run; the step model is tied to the real function by all schedules up to length "
             "5/7 and random schedules with hostile payloads."),
    "note": ("trusted: Coq kernel, tools/factsgen/multipart.py, harness driver, sampled agreement model vs code; "
             "theorems closed under the global context (no axioms)"),
}


def run(tier, seed, replay=None):
    spec = dict(SPEC)
    spec["extra_args"] = ["7" if tier == "thorough" else "5"]
    return c.run_standard(spec, tier, seed, replay)

"""C07 — built-in scalar types accept exactly their domain and round-trip."""
import common as c

SPEC = {
    "pid": "C07",
    "facts": ["intscalar"],
    "bin": "c07",
    "requires": "From AG Require Import Scalars.",
    "def_type": "scalar",
    "streams": [
        {"kind": "PARSE", "type": "(scalar * option gv * outcome rv)",
         "eval": "fun c => let '(s, v, i) := c in check_parse s v i", "per_shard": 700},
        {"kind": "TV", "type": "(scalar * rv * outcome gv * outcome rv)",
         "eval": "fun c => let '(s, x, v, b) := c in check_tv s x v b", "per_shard": 700},
        {"kind": "E2E", "type": "(scalar * N * option gv * outcome gv)",
         "eval": "fun c => let '(s, r, v, i) := c in check_e2e s r v i", "per_shard": 700},
        {"kind": "SWEEP", "type": "(N * Z * list (N * outcome Z))",
         "eval": "fun c => let '(i, lo, r) := c in check_sweep i lo r", "per_shard": 9},
        {"kind": "SWEEPTV", "type": "(N * Z * list (N * (outcome Z * outcome Z)))",
         "eval": "fun c => let '(i, lo, r) := c in check_sweeptv i lo r", "per_shard": 3},
    ],
    "classes": {1: "f32-overflow-accepted-as-infinity", 2: "id-rejects-integer-above-i64-max",
                3: "float-nonfinite-not-roundtrip", 4: "u64-above-i64-max-rejected-by-validation"},
    "allowed_axioms": frozenset(),
    "n_quick": 1600, "n_thorough": 6400,
    "level": "proof",
    "what_violation": "a built-in scalar accepts a value outside its domain, rejects one inside it, or does not round-trip",
    "rule": ("every value kind (absent, null, boundary integers, float classes, strings, booleans, binary, enum names, lists, "
             "objects) offered to each of the 30 scalar mappings through InputType::parse (the non-numeric mappings see a thinned "
             "selection of the boundary numbers); every ASCII char alone and doubled for char; to_value + parse back for fixed and "
             "random Rust values; SWEEP lines each stand for every integer of a window (all of [-70000,70000], i.e. every "
             "8/16-bit value and its surroundings, plus windows at the 32/63/64-bit boundaries) offered to one of the 20 "
             "integer mappings, SWEEPTV lines for every value of the 8/16-bit types and their NonZero forms; one evaluation "
             "is counted per line; E2E lines run the same value corpora through Schema::execute on a static echo schema "
             "(one field per scalar mapping; inline literal, variable, variable default), judged by the same specification; distinct by (stream, scalar, value); non-trivial = the real library accepted the value"),
    "trusted": ["tools/factsgen/intscalar.py (impl bodies of integers.rs / non_zero_integers.rs -> IntScalarGen.v)",
                "harness printers (Value -> gv, Rust value -> rv)", "hand-written model of the registered is_valid closures (valid_registered), tied by the E2E stream",
                "differential sampling: Scalars.v = InputType::parse / to_value on this run's cases (floats, char, ID, enums, strings: hand-written model)"],
    "assumptions": [
        "isize/usize are 64 bits wide (asserted by the harness)",
        "a serde_json Number holds an integer in [-2^63, 2^64) or a finite f64 (no arbitrary_precision feature)",
        "derived enums: EnumType::items() lists distinct names (checked per run: the table is printed from the real items())",
    ],
}


MANIFEST = {
    "category": "proof",
    "technique": ("Coq proof over the integer scalar table regenerated from integers.rs / non_zero_integers.rs on every run "
                  "(exact acceptance set, no panic, round trip: all integers), structural proofs for bool/String/char/ID/enums, "
                  "pure-integer model of f64/f32 conversion with round-trip proofs; differential correspondence through "
                  "InputType::parse / to_value, exhaustive for 8/16-bit integer types, and end to end through Schema::execute "
                  "(static echo schema; literal, variable, variable default) against the same specification"),
    "text": ("Coq theorems: for each of the 20 integer mappings (table translated from the source on every run) parse accepts "
             "exactly the integer Numbers in the Rust type's range (non-zero for NonZero types), never panics, and "
             "parse(to_value x) = x for every x of the type; the same two shapes for bool, String, char, ID and derived enums; "
             "finite floats round-trip; known findings (f32 accepts out-of-range numbers as infinity, non-finite floats serialise to null; "
             "repaired: ID accepts every integer) are refuted theorems with the property proved outside those classes."),
    "note": ("trusted: Coq kernel, intscalar translator, harness printers, sampled agreement model vs code; "
             "all theorems closed under the global context (no axioms, no Flocq)"),
}


def run(tier, seed, replay=None):
    return c.run_standard(SPEC, tier, seed, replay)

"""C16 — serde values convert to GraphQL values and back without loss."""
import common as c

SPEC = {
    "pid": "C16",
    "facts": [],
    "bin": "c16",
    "requires": "From AG Require Import SerdeRT.",
    "def_type": "sty",
    "streams": [
        {"kind": "RT", "type": "(bool * sty * sval * outcome gval * outcome sval)",
         "eval": "fun c => let '(q, t, v, ig, ir) := c in check_rt q t v ig ir", "per_shard": 120},
        {"kind": "DE", "type": "(bool * sty * gval * outcome sval)",
         "eval": "fun c => let '(q, t, g, ir) := c in check_de q t g ir", "per_shard": 150},
    ],
    "classes": {1: "some-of-null", 2: "non-finite-float", 3: "empty-tuple-variant", 4: "int128-unsupported"},
    "n_quick": 1600, "n_thorough": 6400,
    "level": "proof",
    "what_violation": "to_value followed by from_value does not return the value",
    "rule": ("71 compiled serde types (serde-derive structs/enums of every variant form, options, string-keyed maps, "
             "sequences, tuples, arrays, every integer width, floats, bool, string, bytes, unit, char; nested up to 4 levels) "
             "with random boundary-biased values through the real to_value/from_value (RT), plus mutated and hand-made "
             "GraphQL values given to from_value::<T> (DE) and float rounding boundaries; distinct by (type, value); "
             "non-trivial = the GraphQL value is not null (RT) / from_value succeeded (DE)"),
    "trusted": ["harness printers of types/values (trait Shape in c16.rs)",
                "differential sampling: SerdeRT.ser = to_value and SerdeRT.de = from_value::<T> on this run's cases",
                "serde / serde-derive visitor protocol as modelled in SerdeRT.de (checked only by that sampling)"],
    "assumptions": [
        "types are serde-derive defaults (externally tagged enums, no field attributes), BTreeMap<String,_> maps, no recursive types",
        "well-typed values: integers in range, f32 values exactly representable, map keys strictly increasing (BTreeMap order)",
        "equality is bitwise on floats (stronger than Rust's ==)",
    ],
}


MANIFEST = {
    "category": "proof",
    "technique": "Coq proof by induction on serde type descriptors (custom nested induction principle) + differential correspondence of serializer/deserializer models",
    "text": ("Coq theorem: for every well-formed serde type descriptor and every well-typed value outside four narrow computable "
             "classes (Some(x) with x serialised as null; non-finite floats; field-less tuple variants; 128-bit integers), "
             "the model of from_value applied to the model of to_value returns the value; every root instance of each excluded "
             "class provably fails and each class has a witness that also fails on the real code (recorded known findings). "
             "The field-less tuple variant class is governed by a quirk flag inferred from the real code, so its repair is accepted "
             "silently. The models are tied to the real to_value/from_value by running both on a compiled family of serde types "
             "with random and mutated values."),
    "note": ("trusted: Coq kernel, harness printers, sampled agreement model vs code, serde-derive visitor protocol as modelled; "
             "theorems closed under the global context (no axioms)"),
}


def run(tier, seed, replay=None):
    return c.run_standard(SPEC, tier, seed, replay)

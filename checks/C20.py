"""C20 — the response cache policy is never looser than the data it contains."""
import common as c

SPEC = {
    "pid": "C20",
    "facts": ["cache"],
    "bin": "c20",
    "requires": "From AG Require Import Cache.",
    "def_type": "schema",
    "streams": [
        {"kind": "CASE", "type": "(schema * document * outcome cc)",
         "eval": "fun c => let '(s, d, i) := c in check_case s d 400 i", "per_shard": 60},
        # the hints written in the derive attributes of the harness schema vs the registry the macros produced
        {"kind": "DECL", "requires": "From AG Require Import CacheDecl.", "type": "(schema * list (name * cc * list (name * cc)))",
         "eval": "check_decl", "per_shard": 10,
         "what_violation": "a cache_control attribute written on a derive-built type or field does not reach the registry (the policy computed from the registry is then looser than the declared data)"},
        {"kind": "LAW", "type": "(list cc * cc * (Z * bool))",
         "eval": "fun c => let '(l, r, h) := c in check_law l r h", "per_shard": 1000},
    ],
    "classes": {1: "abstract-policy-ignored"},
    "n_quick": 400, "n_thorough": 1600,
    "level": "proof",
    "what_violation": "cache policy looser than contained data / differs from the verified combination",
    "rule": ("documents generated from generated (injected registry) and derive-built schemas, strict and fast "
             "validation mode, plus all pairs over 18 boundary policies and random tuples for the merge/header laws; "
             "distinct by (schema, text, mode); non-trivial = computed policy differs from the default policy"),
    "trusted": ["tools/facts.py (merge/value arms -> CacheGen.v)", "harness registry dump + document printer", "the hand-written table of declared hints of the derive-built schema (fixed::declared in c20.rs)",
                "differential sampling: Cache.v walk = CacheControlCalculate on this run's cases"],
    "assumptions": [
        "registry hints satisfy max_age >= -1 (values the macro attributes can produce)",
        "the Gallina walk (Cache.v) is the CacheControlCalculate visitor: checked by correspondence on this run's cases only",
    ],
}


MANIFEST = {
    "category": "proof",
    "technique": "Coq proof (merge laws for all integers; walk = reachable-data combination by induction on fuel) + translated merge/value arms + differential correspondence of the walk model",
    "text": ("Coq theorems: the policy combination (regenerated from cache_control.rs on every run) is commutative, associative, "
             "idempotent with unit, for all integers; for selections only on object types the visitor's policy equals the "
             "combination over every reachable object/field policy and is never looser than any of them (any schema, document, depth); "
             "the faithful model refutes the full statement behind interface/union fields (recorded known finding). "
             "The walk model is tied to the real validator by running both on generated schemas and documents; the registry is tied to the "
             "attributes written on a derive-built schema (Object, SimpleObject, concrete generic SimpleObject, ComplexObject) by a declared-hints table."),
    "note": ("trusted: Coq kernel, tools/facts.py, harness registry dump/document printer, sampled agreement model vs code; "
             "theorems closed under the global context (no axioms)"),
}


def run(tier, seed, replay=None):
    return c.run_standard(SPEC, tier, seed, replay)

"""C10 — depth, complexity, recursion and directive limits are enforced exactly."""
import common as c

CASE_T = "(schema * document * list (name * value) * limits * bool * obs)"
SPEC = {
    "pid": "C10",
    "facts": [],
    "bin": "c10",
    "requires": "From AG Require Import LimitsCheck.",
    "def_type": "schema",
    "streams": [
        {"kind": "CASE", "type": CASE_T,
         "eval": "fun c => let '(s, d, v, l, f, o) := c in check_c10 s d v l 600 o", "per_shard": 40},
    ],
    "classes": {1: "complexity-spread-outer-type"},
    "n_quick": 500, "n_thorough": 2000,
    "level": "proof",
    "what_violation": "limit decision / computed depth or complexity differs from the reference measure of the inlined document",
    "rule": ("documents generated from generated (injected registry with complexity rules) and derive-built schemas, strict and "
             "fast mode, with limits drawn at value-1, value, value+1 and beyond of each measured quantity; distinct by full case text; "
             "non-trivial = rejected by a limit, or complexity > 1 or depth > 1"),
    "trusted": ["harness registry dump (complexity rules taken from the generated description), document printer",
                "differential sampling: Limits.v walkers = DepthCalculate/ComplexityCalculate/check_recursive_depth/check_max_directives on this run's cases",
                "complexity arithmetic modelled on unbounded N (usize overflow not modelled)"],
    "assumptions": [
        "reference measures are those of the whole document (all operations: depth = max, complexity = sum), __typename counts for neither depth nor complexity",
        "custom complexity rules are limited to the shapes of Limits.crule",
    ],
}

MANIFEST = {
    "category": "proof",
    "technique": "Coq proof (walkers = plain measures of the inlined document, by induction on fuel; decision = threshold test) + differential correspondence incl. Analyzer values",
    "text": ("Coq theorems: for every document, fragment table and fuel, the depth visitor, the nesting and directive walkers compute exactly the "
             "plain measure of the document with every spread replaced by the inline fragment it denotes; the recursion/directive walkers report "
             "'exceeded' exactly when that measure is greater than the limit; the complexity visitor equals the reference whenever every spread's "
             "fragment is conditioned on the enclosing type, and is refuted otherwise (recorded finding); the request is rejected by a limit exactly "
             "when a reference measure exceeds its limit. The models are tied to the code by running both on generated requests with limits at the boundary."),
    "note": "trusted: Coq kernel, harness dump/printers, sampled agreement model vs code; no axioms",
}


def run(tier, seed, replay=None):
    return c.run_standard(SPEC, tier, seed, replay)

"""C14 — reported source positions are exact line and column numbers."""
import common as c

_T = "(str * list (N * (N * N)))"

SPEC = {
    "pid": "C14",
    "facts": ["pos"],
    "bin": "c14",
    "requires": "From AG Require Import SrcPos.",
    "def_type": "unit",
    "streams": [
        {"kind": "AST", "type": _T, "eval": "check_ast", "per_shard": 40},
        {"kind": "SYN", "type": _T, "eval": "check_syntax", "per_shard": 40},
    ],
    "classes": {1: "lone-cr-line"},
    "n_quick": 700, "n_thorough": 2800,
    "level": "proof",
    "what_violation": "reported line/column differs from the line/column of the token",
    "rule": ("executable and type-system documents printed token by token with random ignored text (LF, CRLF, lone CR, tab, "
             "comma, BOM, comments with non-ASCII text, block strings spanning lines) between every two tokens; every "
             "Positioned.pos of the parsed tree, positions inside duplicate-definition/root errors, validation and execution "
             "error locations (one injected fault per document), and syntax error positions (illegal character inserted before "
             "a token / input truncated before a token), each paired with the character index of the token; distinct by text; "
             "non-trivial = the document contains a line terminator"),
    "trusted": ["tools/factsgen/pos.py (match arms of PositionCalculator::step -> PosGen.v)",
                "harness token-index bookkeeping (generator marks zipped with the tree walk; shape mismatches are dropped and counted)",
                "differential sampling: pest::Position::line_col = SrcPos.pest_from on this run's syntax errors"],
    "assumptions": [
        "a pair (token) never starts at the LF of a CR LF pair (LF is ignored text in the grammar)",
        "PositionCalculator::step is called with non-decreasing offsets (pre-order of the pest pairs); exercised by every parsed document",
        "validation and execution errors copy tree positions (RuleError / into_server_error): checked by correspondence only",
        "syntax error positions come from pest::Position::line_col (external crate, hand-modelled): correspondence only",
    ],
}

MANIFEST = {
    "category": "proof",
    "technique": "Coq proof (fold of the translated step arms = line/column specification, by induction on the text; incremental calculator = fold over the prefix) + translated match arms + differential correspondence on generated documents",
    "text": ("Coq theorems, for every text and every character index: the position computed by PositionCalculator (its per-character "
             "arms are regenerated from parser/src/pos.rs on every run) has exactly the specified column, and its line lags the specified "
             "line by the number of lone carriage returns before the index; hence it is exact when no lone CR precedes the token; "
             "the stateful incremental calculator returns the same as a fold over the prefix for every non-decreasing offset sequence; "
             "pest's line_col (syntax errors) is exact outside the same class; the lone-CR witness refutes the full statement "
             "(recorded known finding). Every position of generated documents (tree nodes, parser/validation/execution/syntax errors) "
             "is compared with model and spec."),
    "note": ("trusted: Coq kernel, tools/factsgen/pos.py, harness token bookkeeping, sampled agreement model vs code; "
             "theorems closed under the global context (no axioms)"),
}


def run(tier, seed, replay=None):
    return c.run_standard(SPEC, tier, seed, replay)

"""C25 — WebSocket sessions follow the graphql-ws and graphql-transport-ws protocols."""
import common as c

SPEC = {
    "pid": "C25",
    "facts": [],
    "bin": "c25",
    "requires": "From AG Require Import Ws.",
    "def_type": "unit",
    "streams": [
        {"kind": "CASE", "type": "(proto * bool * list (action * obs))",
         "eval": "check_case", "per_shard": 250},
    ],
    "classes": {1: "dup-id-replaces", 2: "subscribe-before-ack-1011", 3: "bad-frame-1002"},
    "n_quick": 4500, "n_thorough": 18000,
    "level": "proof",
    "what_violation": "websocket session deviates from the protocol / from the verified state machine",
    "rule": ("scripts of client frames (init, start/subscribe with ids a,b,c incl. duplicates, stop/complete, ping, pong, "
             "terminate, unreadable frames, EOF), init/ping callback answers, stream items/ends and keep-alive expiries, "
             "for both protocols with and without keep-alive: a fixed corpus (witnesses of the three findings, boundary "
             "conversations), all scripts over a 15-symbol alphabet up to length 2 (thorough 3) polled to quiescence after "
             "every event, all continuations of an acknowledged handshake over a 10-symbol alphabet of length 2-3 "
             "(thorough 3-4, every second one injected without intermediate polls), all sequences of length 2-4 (thorough 2-5) over "
             "{item a, item b, end a, stop a, stop b, ONE poll_next} after a handshake with operations a and b running (several "
             "streams ready in the same poll, client frames between single polls), and random scripts of 3-40 events "
             "with random batching and single-step polling (incl. 'stop the operation the last frame did not carry'); every poll_next call of the real WebSocket is one observation (frames taken from "
             "the client stream + message/end/pending); distinct by script text; non-trivial = the server sent at least one message"),
    "trusted": ["harness/src/bin/c25.rs: channel-backed client stream with a counting wrapper, gate-driven on_connection_init/on_ping, "
                "manual runtime::Timer, subscription source streams taken from a registry, flag waker, decoding of outgoing frames",
                "differential sampling: Ws.v poll = WebSocket::poll_next on this run's scripts",
                "HashMap iteration order enters as the observed choice of each poll (checked admissible by the model)"],
    "assumptions": [
        "the consumer stops polling after Ready(None) (all integrations do: `while let Some(item) = stream.next().await`)",
        "the Gallina state machine (Ws.v) is WebSocket::poll_next: checked by correspondence on this run's scripts only",
        "messages of the other protocol (connection_terminate under graphql-transport-ws, ping/pong under graphql-ws) and the "
        "legacy protocol's unspecified close codes are not judged by the monitor",
    ],
}


MANIFEST = {
    "category": "proof",
    "technique": ("Coq proof (simulation between an executable transcription of WebSocket::poll_next and a protocol monitor, "
                  "by induction over arbitrary action lists) + differential correspondence of the state machine against the real WebSocket"),
    "text": ("Coq theorems, for every list of client frames, callback answers, stream events, timer expiries, polls and stream "
             "choices, both protocols: the session is accepted by a protocol monitor written from the two protocol documents that "
             "tolerates exactly three recorded deviations; outside those classes (and always under subscriptions-transport-ws) the strict "
             "monitor accepts (close codes 4429/4401/4409/4400, data only for the live operation of its id and in stream order, complete "
             "only for stopped or ended operations); nothing is sent or read after a close/connection_error/end; data/next/complete only "
             "after connection_ack; connection_ack at most once; a second connection_init closes with 4429/connection_error. "
             "The three deviations are proved of the faithful model and replayed on the real code on every run. The state machine is "
             "tied to the real WebSocket by driving it poll by poll with bounded-exhaustive and random scripts."),
    "note": ("trusted: Coq kernel, the harness adapters (channels, gates, manual timer, frame decoding), sampled agreement model vs code; "
             "theorems closed under the global context (no axioms)"),
}


def run(tier, seed, replay=None):
    return c.run_standard(SPEC, tier, seed, replay)

"""C25 — WebSocket sessions follow the graphql-ws and graphql-transport-ws protocols."""
import common as c

SPEC = {
    "pid": "C25",
    "facts": [],
    "bin": "c25",
    "requires": "From AG Require Import Ws.",
    "def_type": "unit",
    "streams": [
        {"kind": "CASE", "type": "(proto * bool * list (action * obs))",
         "eval": "check_case", "per_shard": 250},
    ],
    "classes": {1: "dup-id-replaces", 2: "subscribe-before-ack-1011", 3: "bad-frame-1002"},
    "n_quick": 4000, "n_thorough": 40000,
    "level": "proof",
    "what_violation": "websocket session deviates from the protocol / from the verified state machine",
}


MANIFEST = {
    "category": "proof",
    "technique": "Coq proof",
    "text": "",
    "note": "",
}


def run(tier, seed, replay=None):
    return c.run_standard(SPEC, tier, seed, replay)

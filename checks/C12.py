"""C12 — no client input can crash, overflow or hang the server (PARTIAL: proof for the modelled
decoders, crash exploration for everything else)."""
import common as c

SPEC = {
    "pid": "C12",
    "facts": ["crashconst"],
    "bin": "c12",
    "requires": "From AG Require Import Crash.",
    "def_type": "unit",
    "streams": [
        {"kind": "USZ", "type": "(str * option Z)", "eval": "check_usz", "per_shard": 400},
        {"kind": "UPARSE", "type": "(option uval * outcome Z)", "eval": "check_uparse", "per_shard": 400},
        {"kind": "UEXEC", "type": "(Z * uval * N)", "eval": "check_uexec", "per_shard": 400},
        {"kind": "SETUP", "type": "(list (str * vv) * list str * outcome (list (str * vv) * Z))", "eval": "check_setup", "per_shard": 200},
        {"kind": "LIM", "type": "(bool * Z * Z * N)", "eval": "check_lim", "per_shard": 400},
        {"kind": "STR", "type": "(str * outcome str)", "eval": "check_str", "per_shard": 400},
        {"kind": "TY", "type": "(str * outcome gty)", "eval": "check_ty", "per_shard": 400},
        {"kind": "DEEP", "type": "(N * Z * N)", "eval": "check_deep", "per_shard": 400},
        {"kind": "FRAG", "type": "(document * N * N)", "eval": "check_frag", "per_shard": 60,
         "requires": "From AG Require Import CrashRec."},
        {"kind": "EXPL", "type": "(N * N)", "eval": "check_expl", "per_shard": 4000},
    ],
    "classes": {1: "upload-marker-not-a-number", 2: "upload-index-out-of-range", 3: "parser-stack-overflow-deep-nesting"},
    "n_quick": 300, "n_thorough": 1200,
    "level": "other",
    "explanation": "partial by design: Coq proofs (no panic outside the stated conditions, for all inputs) for the modelled decoders with unwrap/index/arithmetic on client data; every other entry point and the parser's stack depth are covered by a crash-oracle exploration only (catch_unwind, child process with time budget)",
    "what_violation": "a client-controlled input makes the library panic / overflow the stack / stop answering",
    "rule": ("modelled decoders: Upload::parse and Schema::execute of mutations with Upload arguments over marker strings "
             "(prefix + boundary / malformed / huge suffixes, near-prefixes, non-strings; 0-3 attached files; variable, literal, "
             "list, input-object and optional positions), Request::set_upload over generated variable trees and mutated paths, "
             "str::parse::<usize>, MultipartOptions limit products around 2^64, string literals (escape-heavy alphabet) through "
             "parse_query, Type::new over generated/mutated type strings, deeply nested documents (4 families, depth 200 and "
             "200 000 plus a bisection) each parsed in a child process under a 30 s budget. EXPLORATION (no model; oracle = "
             "no panic): grammar-aware and byte-level mutations of documents through parse_query / parse_schema / "
             "Schema::execute against a derive-built schema with every built-in input type incl. Upload, mutated variables / "
             "extensions / operation names through Request deserialisation and execution, query strings, JSON bodies, "
             "multipart bodies (forged maps, missing files, truncation, limits), websocket frames of both protocols. "
             "distinct by case text; non-trivial = outcome other than a plain error"),
    "trusted": ["tools/factsgen/crashconst.py (PREFIX, marker literal, panicking forms present, escape arms, grammar rule texts -> CrashConstGen.v)",
                "Cursor.parse_int is core::num's from_str_radix (stream USZ compares it with str::parse::<usize> on this run's cases)",
                "differential sampling: Crash.v decoders = the Rust functions on this run's cases",
                "catch_unwind observes every panic of the calling thread; stack overflow is observed as the child's signal",
                "EXPL streams are exploration only: absence of a panic on the sampled inputs, nothing more"],
    "assumptions": [
        "PARTIAL by design: theorems cover Upload::parse/Upload::value/set_upload, the limit product, string_value behind rule "
        "string_content, Type::new behind rule type_, exactly_one; pest's recursion depth, serde_json, multer, the executor and "
        "the websocket layer are only explored (crash oracle), hangs are only measured (per-case wall clock, child budget)",
        "the multipart limit product overflows only for a server configuration with max_file_size * max_num_files >= 2^64 "
        "(not client input; a panic there is allowed by the specification used here)",
        "UploadValue::try_clone failing (file descriptor exhaustion) is not modelled",
    ],
}

MANIFEST = {
    "category": "other",
    "technique": ("Coq proof for the modelled decoders (outcome Ok|Err|Panic models of every unwrap/index/arithmetic site on client data; "
                  "panic-freedom for all inputs outside a computable known class; grammar-guarded unwraps shown unreachable) + "
                  "constants/escape arms/grammar rules re-read from source on every run + differential correspondence + "
                  "crash exploration (catch_unwind, child processes for stack overflow) of the unmodelled entry points"),
    "text": ("PARTIAL. Coq theorems, for all inputs: a mutation argument of type Upload panics exactly when the string carries the "
             "internal marker prefix and the rest is not a usize, or is an index with no uploaded file (two recorded findings, both "
             "refuted with witnesses that also panic in the real library); markers written by Request::set_upload never panic; "
             "set_upload, the multipart limit product (for configurations below 2^64), string_value on every string matched by "
             "grammar rule string_content, Type::new(..).unwrap() on every string of rule type_, and exactly_one on one-element "
             "iterators never panic. The third recorded finding (deep nesting overflows the stack inside the generated parser) is "
             "exhibited in a child process; Coq cannot show stack exhaustion. Everything else in the statement (serde_json, multer, "
             "executor, websocket, hangs) is EXPLORATION only: mutated documents, variables, extensions, query strings, JSON and "
             "multipart bodies and websocket frames are run under catch_unwind and must not panic."),
    "note": ("trusted: Coq kernel, tools/factsgen/crashconst.py, harness generators/adapters, sampled agreement model vs code; "
             "theorems closed under the global context (no axioms); exploration is not proof"),
}


def run(tier, seed, replay=None):
    return c.run_standard(SPEC, tier, seed, replay)

"""C22 — look-ahead and selection views list every sub-field that will be resolved."""
import common as c

CASE_T = ("(lschema * document * option name * list (name * value) * "
          "option (list selection * list (name * fragment)) * list tnode * bool)")
SPEC = {
    "pid": "C22",
    "facts": [],
    "bin": "c22",
    "requires": "From AG Require Import Lookahead.",
    "def_type": "lschema",
    "streams": [
        {"kind": "CASE", "type": CASE_T,
         "eval": "fun c => let '(s, d, o, v, p, r, e) := c in check_c22 s d o v p r e 300", "per_shard": 20},
    ],
    "classes": {},
    "n_quick": 400, "n_thorough": 1600,
    "level": "proof",
    "what_violation": ("a resolver's selection/look-ahead view misses a sub-field that was resolved beneath it, lists a field "
                       "removed by @skip/@include, or reports different arguments"),
    "rule": ("documents generated from a derive-built schema (objects, interface, union, list and nullable fields, raw and typed "
             "arguments with schema defaults): aliases, repeated fields, inline fragments and fragment spreads with every "
             "admissible type condition, @skip/@include with literals and variables (provided, defaulted, omitted), arguments with "
             "nested variables, a custom field directive, the query and the mutation root, with and without an extension installed; "
             "one stream in Fast validation mode with repeated/malformed @skip/@include, unknown directives, undeclared variables "
             "in conditions and fragments on unrelated types; every resolver records its views and the invocation tree is compared "
             "together with the pruned operation/fragments held by QueryEnv; distinct by full case text; "
             "non-trivial = more than one resolver ran and the document has a fragment or a directive"),
    "trusted": ["harness: event log -> invocation tree (events are nested in time because every resolver is immediately ready), "
                "registry dump (field types, implements, argument defaults), document/value printers",
                "differential sampling: Lookahead.v (prune, flat, filter, riv, collect) = remove_skipped_selection, "
                "SelectionFieldsIter, look_ahead::filter, resolve_input_value, Fields::add_set on this run's cases"],
    "assumptions": [
        "views are specified relative to the implementation's own pruning (is_skipped reads request variables only; "
        "the @skip-with-variable-default deviation belongs to C01)",
        "the executor does not re-evaluate @skip/@include after prepare_request (checked by correspondence of the invocation tree)",
        "typed arguments: InputType::parse returns the resolved value unchanged for well-typed values (Int, String)",
    ],
}

MANIFEST = {
    "category": "proof",
    "technique": ("Coq proof (executor collection is a subsequence of the selection view and is found by look-ahead, for every "
                  "type-condition table; pruning commutes with the view; argument views = resolver parameters) + differential "
                  "correspondence on recorded resolver views"),
    "text": ("Coq theorems, for every document, fragment table, variables, interface table and fuel: the fields Fields::add_set "
             "turns into resolver calls beneath a field are, in order, a subsequence of that field's selection_set() view, each is "
             "returned by look_ahead().field(name) (exists() true), and chains of look-ahead follow every resolution path; "
             "arguments() of the viewed field equals what get_param_value resolves for the resolver; the views of the pruned "
             "document equal the views of the original document restricted to selections not removed by @skip/@include as the "
             "implementation evaluates them, so a removed field occurs in no view. The models are tied to the code by a "
             "derive-built schema whose every resolver records its views and by comparing the invocation tree."),
    "note": "trusted: Coq kernel, harness (event nesting, printers), sampled agreement model vs code; no axioms",
}


def run(tier, seed, replay=None):
    return c.run_standard(SPEC, tier, seed, replay)

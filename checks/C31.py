"""C31 — persisted queries execute only the document registered under the hash."""
import common as c

SPEC = {
    "pid": "C31",
    "facts": [],
    "bin": "c31",
    "requires": "From AG Require Import Apq.",
    "def_type": "unit",
    "streams": [
        {"kind": "HIST", "type": "(table * backend * list istep)",
         "eval": "fun c => let '(t, b, s) := c in check_case t b s", "per_shard": 30},
        {"kind": "DEC", "type": "(jv * bool)",
         "eval": "fun c => let '(v, g) := c in check_decode v g", "per_shard": 500},
    ],
    "classes": {},
    "n_quick": 480, "n_thorough": 1920,
    "level": "proof",
    "what_violation": ("a document ran that is not registered under the supplied hash, or a refused request "
                       "(hash mismatch / unsupported version / malformed payload) changed the cache or executed something"),
    "rule": ("random request histories of 3-40 steps (every 40th: 300-500 steps over 90-170 texts so that the real "
             "LRU evicts) mixing registrations, hash-only lookups, unknown/upper-cased/truncated hashes, hashes of other "
             "texts, versions 0/2/-1/10/i32 bounds, 24 malformed/odd payload shapes and plain requests, over pools of "
             "valid, whitespace-variant, validation-failing, unparseable and multi-operation texts; run on the real "
             "extension with LruCacheStorage(1..4) and with a harness CacheStorage (replace / keep-old, generator-driven "
             "evictions announced to the model); the executed document is observed through a logging resolver and the "
             "full response; distinct by (back end, history); non-trivial = a hash-only lookup executed a document and "
             "at least three kinds of answer occur; DEC stream: the real deserialiser on every payload shape"),
    "trusted": ["harness: own SHA-256 (checked against the library's test vector), outcome interning, classification of "
                "the four extension error messages",
                "differential sampling: Apq.v step = ApolloPersistedQueriesExtension::prepare_request on this run's cases",
                "LruCacheStorage evictions are not observable: a PersistedQueryNotFound answer is read as an eviction "
                "(the harness CacheStorage announces evictions, there a wrong miss is a mismatch)"],
    "assumptions": [
        "SHA-256 enters the theorems only as a function H : text -> hash (any function; collisions allowed)",
        "documents are compared by the outcome of executing them (response + resolver log) on the same schema without the extension",
        "the caller does not pre-set Request::set_parsed_query (the extension overwrites it on hash-carrying requests, not on plain ones)",
        "requests are processed one after another (no concurrent requests on one storage)",
    ],
}


MANIFEST = {
    "category": "proof",
    "technique": ("Coq proof by induction over request histories (cache invariant, refinement of a trace specification, "
                  "for every hash function, parser, put policy and eviction oracle) + differential correspondence of the "
                  "step model against the real extension with two storage back ends"),
    "text": ("Coq theorems over all request histories and all eviction oracles: every cached (hash, document) pair is the parse of a "
             "text with that hash and was stored by a registering request of the history; every executed document of a "
             "hash-carrying request is the parse of a text whose hash is the supplied one; a hash-only request leaves the cache "
             "untouched and runs exactly the cached document or answers PersistedQueryNotFound; hash mismatch, unsupported "
             "version and malformed payload answer an error, execute nothing and can be deleted from any history without "
             "changing the final cache or any other answer; without evictions a registered hash is found. The model is tied "
             "to the real extension by running random histories on LruCacheStorage(1-4) and on a harness CacheStorage."),
    "note": ("trusted: Coq kernel, harness (own SHA-256, outcome comparison), sampled agreement model vs code; "
             "theorems closed under the global context (no axioms)"),
}


def run(tier, seed, replay=None):
    return c.run_standard(SPEC, tier, seed, replay)

"""C32 — connection cursors round-trip and pagination arguments are checked."""
import common as c

SPEC = {
    "pid": "C32",
    "facts": ["cursor"],
    "bin": "c32",
    "requires": "From AG Require Import Cursor.",
    "def_type": "unit",
    "streams": [
        {"kind": "ENC", "type": "(cval * str)", "eval": "check_enc", "per_shard": 400},
        {"kind": "DEC", "type": "(ckind * str * option cval)", "eval": "check_dec", "per_shard": 400},
        {"kind": "B64E", "type": "(list N * str)", "eval": "check_b64e", "per_shard": 300},
        {"kind": "B64D", "type": "(str * option (list N))", "eval": "check_b64d", "per_shard": 300},
        {"kind": "OPQE", "type": "(option (list N) * bool * N * str * bool)", "eval": "check_opqe", "per_shard": 200},
        {"kind": "OPQD", "type": "(str * option (list N) * option (list N) * option (list N))", "eval": "check_opqd",
         "per_shard": 200},
        {"kind": "FLT", "type": "(N * bool * option (N * bool))", "eval": "check_flt", "per_shard": 1000},
        {"kind": "QW", "type": "(ckind * option str * option str * option Z * option Z * bool * qimpl * option (list str))",
         "eval": "check_qw", "per_shard": 300},
        {"kind": "PI", "type": "(list cval * option str * option str * list str)", "eval": "check_pi", "per_shard": 200},
    ],
    "classes": {1: "opaque-nonfinite-float", 2: "opaque-unserializable-value", 3: "opaque-lossy-json-float"},
    "n_quick": 1200, "n_thorough": 4800,
    "level": "proof",
    "what_violation": "cursor does not round-trip / pagination arguments not checked as specified",
    "rule": ("every CursorType impl (12 integer types, f32, f64, bool, char, String, ID, OpaqueCursor over a nested serde enum): "
             "boundary values first (MIN, MAX, 0, powers of ten), then random values of every magnitude; decode of the encodings, "
             "of sign/leading-zero/overflow/garbage mutations and of a fixed corpus of hostile strings; base64 crate vs model on "
             "random byte strings and on mutated/padded/foreign-alphabet strings; query_with over the full decision table "
             "(first/last negative, zero, MAX; decodable and undecodable after/before) for six real cursor types plus a "
             "recording cursor type whose decode calls are traced; executed connection fields for seven cursor types; "
             "distinct by (stream, text); non-trivial = accepted input / non-empty value"),
    "trusted": ["harness adapters (value -> Gallina term, error message -> error code)",
                "differential sampling: Cursor.v = the CursorType impls, base64 0.22 URL_SAFE_NO_PAD and query_with on this run's cases",
                "Rust float to_string/parse and serde_json are exercised, not modelled (FLT and OPQ streams)"],
    "assumptions": [
        "float cursors: Rust's f32/f64 Display/FromStr round trip (same bits, NaN to NaN) is tested on samples, not proved",
        "OpaqueCursor: serde_json enters as a Section variable; the theorem says the cursor round-trips exactly when the JSON layer does",
        "the Gallina codecs (Cursor.v) are the Rust code: checked by correspondence on this run's cases only",
    ],
}

MANIFEST = {
    "category": "proof",
    "technique": ("Coq proof (decimal print/parse round trip for all integers of every width by induction; base64url-no-pad "
                  "decode is the exact inverse of encode for all byte strings; query_with decision table for all arguments and "
                  "all closures) + differential correspondence of every codec and of query_with against the real library"),
    "text": ("Coq theorems: for every integer type (any width, signed or unsigned) and every value in range, parsing the printed "
             "decimal gives the value back, and the parser accepts exactly [+-]?[0-9]+ in range; bool, char, String and ID cursors "
             "round-trip; base64url without padding decodes every encoding to the original bytes, accepts only encodings "
             "(non-alphabet symbols, padding, length 1 mod 4 and non-zero trailing bits are rejected), so OpaqueCursor round-trips "
             "exactly when its JSON layer does; query_with returns an error without calling the closure when first or last is "
             "negative or a cursor does not decode, and otherwise calls it once with the decoded values and returns its result; "
             "page info's start/end cursors are the first/last edge cursors' encodings. The models are tied to the code by running "
             "the real CursorType impls, the real base64 crate, query_with with a recording closure and executed connection fields."),
    "note": ("trusted: Coq kernel, harness adapters, sampled agreement model vs code; float<->text and serde_json are tested, not "
             "modelled; theorems closed under the global context (no axioms)"),
}


def run(tier, seed, replay=None):
    return c.run_standard(SPEC, tier, seed, replay)

"""C06 — resolvers receive exactly the spec-coerced argument values."""
import common as c

CASE_T = "(flds * list (name * ival) * list vdef * list (name * xv) * bool * outcome (list (name * tv)))"
DYN_CASE_T = "(flds * list (name * ival) * list vdef * list (name * xv) * bool * outcome (list (name * option xv)))"
SPEC = {
    "pid": "C06",
    "facts": [],
    "bin": "c06",
    "requires": "From AG Require Import Base ArgCoerce.",
    "def_type": "flds",
    "streams": [
        {"kind": "CASE", "type": CASE_T,
         "eval": "fun c => let '(s, a, d, v, m, i) := c in check_c06 s a d v m i", "per_shard": 120},
        # dynamic schemas (harness c06d): ctx.args of a dynamic resolver against CoerceArgumentValues
        {"kind": "DYN_CASE", "requires": "From AG Require Import ArgCoerceDyn.", "def_type": "flds",
         "type": DYN_CASE_T,
         "eval": "fun c => let '(s, a, d, v, m, i) := c in check_c06d s a d v m i", "per_shard": 120,
         "classes": {1: "dynamic-raw-value-not-coerced", 2: "dynamic-invalid-request-executed"},
         "what_violation": "a dynamic resolver's ctx.args differ from the specified argument coercion (presence, default or value)"},
    ],
    "extra_bins": [{"bin": "c06d", "kind_prefix": "DYN_", "n_factor": 0.5}],
    "classes": {1: "arg-default-omitted-variable",  # fixed in /repo d9e053e: the model no longer produces class 1
                2: "enum-string-literal", 3: "nonnull-list-null-becomes-list-of-null",
                4: "unknown-input-field-ignored", 5: "oneof-extra-omitted-member", 6: "variable-declared-type-unchecked"},
    "n_quick": 1000, "n_thorough": 4000,
    "level": "proof",
    "what_violation": "resolver received argument values other than the specified coercion result (or the request failed although coercion succeeds)",
    "rule": ("derive-built schema with 27 echo resolvers over Int, Int!, String, Boolean, enum, [Int], [Int!]!, [Int]!, [[Int]], [[Int!]!]!, "
             "[[Color]!], MaybeUndefined, input objects with defaults / nested objects / MaybeUndefined fields, oneOf objects, argument "
             "defaults, a four-argument field; values supplied as literals, whole-argument variables, variables nested in list and object "
             "literals, omitted variables, explicit nulls, variable defaults, wrong shapes; strict and fast validation mode; fixed corpus of "
             "230 boundary cases and witnesses first; distinct by (mode, document, variables); non-trivial = the resolver ran or a "
             "variable was involved"),
    "trusted": ["harness c06d: dynamic schema builder from the same descriptors (checked against the dynamic schema's SDL), ctx.args recorder",
                "harness: echo resolvers (Echo trait), case printer (arguments/variable definitions are read back from the real parser's AST), "
                "signature descriptors (checked against the SDL the macros registered on every run)",
                "differential sampling: ArgCoerce.v parse/erase/strict_ok = InputType::parse family / resolve_input_value / strict rules on this run's cases"],
    "assumptions": [
        "specification = GraphQL Oct 2021 §6.1.2, §6.4.1, §3.5-§3.12, §5.8.5 plus the oneOf rule (exactly one member, non-null); list coercion follows the "
        "normative text (a non-list item is wrapped recursively), an omitted variable in a list slot is null",
        "a variable's coerced value is identified with the coercion of its raw value at the position type (equal whenever the usage is allowed and the "
        "variable coerces at its declared type)",
        "requests whose variable usages are not allowed (§5.8.5; strict validation does not reject them today, a C09 matter) are only required to fail "
        "or to pass values of the declared types",
        "Int, String, Boolean, enum, list, input object, oneOf, Option, MaybeUndefined; no Float/ID/custom scalars (C07), no recursive input types, "
        "no duplicate keys, every defined variable is used",
        "dynamic schemas (stream DYN_CASE): what is compared is ctx.args per declared argument (absent / raw value) with the raw form of the specified "
        "coercion result; objects compared as maps, an enum value spelled as a string equals the enum value (ValueAccessor::enum_name accepts both); "
        "error kinds are not compared on the dynamic path",
    ],
}

MANIFEST = {
    "category": "proof",
    "technique": "Coq proof (implementation parse after variable resolution = specified coercion, for every input type descriptor and every value, by mutual induction on types) + differential correspondence through echo resolvers",
    "text": ("Coq theorems: for every input type (scalars, enums, lists, Option, MaybeUndefined, input objects with defaults, oneOf objects, nested arbitrarily) "
             "and every supplied value (literals, variables, omitted variables, nulls, defaults), the model of resolve_input_value + InputType::parse + "
             "get_param_value yields exactly the specified coercion result or both fail, outside six narrow computable classes; every value that "
             "reaches a resolver has the declared type (no exclusion); each class is refuted by a witness that also fails on the real code (recorded findings). "
             "The model is tied to the code by echo resolvers on a derive-built schema in strict and fast mode."),
    "note": "trusted: Coq kernel, harness echo/printers/descriptors (SDL-checked), sampled agreement model vs code; no axioms",
}


def run(tier, seed, replay=None):
    return c.run_standard(SPEC, tier, seed, replay)

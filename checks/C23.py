"""C23 — all HTTP request encodings decode to the same request; batches keep order."""
import common as c

SPEC = {
    "pid": "C23",
    "facts": ["requestserde"],
    "bin": "c23",
    "requires": "From AG Require Import Http.",
    "def_type": "unit",
    "streams": [
        {"kind": "JSON", "type": "(option jv * outcome batch)",
         "eval": "fun c => let '(t, i) := c in check_json t i", "per_shard": 150},
        {"kind": "JSON1", "type": "(option jv * outcome request)",
         "eval": "fun c => let '(t, i) := c in check_json_single t i", "per_shard": 150},
        {"kind": "GET", "type": "(list (str * str) * list (str * option jv) * outcome request)",
         "eval": "fun c => let '(p, o, i) := c in check_get p o i", "per_shard": 150},
        {"kind": "DISP", "type": "(ctype * option jv * outcome batch)",
         "eval": "fun c => let '(ct, t, i) := c in check_dispatch ct t i", "per_shard": 150},
        {"kind": "MP", "type": "(ctype * option jv * outcome batch)",
         "eval": "fun c => let '(ct, t, i) := c in check_mp ct t i", "per_shard": 150},
        {"kind": "SAME", "type": "(request * list (str * option jv) * str * str * outcome batch * outcome request * outcome batch)",
         "eval": "fun c => let '(r, o, v, x, ij, ig, im) := c in check_same r o v x ij ig im", "per_shard": 100},
        {"kind": "ORD", "type": "(nat * list nat * list nat)",
         "eval": "fun c => let '(n, s, i) := c in check_order n s i", "per_shard": 400},
    ],
    "classes": {1: "get-operation-name-ignored", 2: "positional-array-accepted", 3: "operations-part-multipart-type-panics"},
    "n_quick": 400, "n_thorough": 1600,
    "level": "proof",
    "what_violation": "a transport encoding decodes to a different request / a malformed encoding is accepted or panics / batch responses out of order",
    "rule": ("random requests (queries, operation names, variable and extension trees with arbitrary characters incl. control, "
             "astral and URL/JSON metacharacters, duplicate members, boundary numbers) printed with random whitespace/escape "
             "choices as JSON bodies, batches, query strings (own percent-encoder and serde_urlencoded) and multipart operations "
             "parts, plus malformed variants (broken JSON, wrong member types, duplicate members, arrays in place of objects, "
             "content types), plus batches of 1-7 gated requests completed in a random order; distinct by text; "
             "non-trivial = the decoder accepted / batch longer than one"),
    "trusted": ["tools/factsgen/requestserde.py (serde attributes -> RequestSerdeGen.v)",
                "codecs: serde_json (text->tree), serde_urlencoded/form_urlencoded (text->pairs), mime, multer part framing",
                "serde-derive: derived struct visitor = one slot per member, duplicate -> error, unknown skipped, sequence form positional",
                "futures-util FuturesOrdered = index heap as modelled (Http.v Section Ordered)",
                "harness JSON printer / tree oracle; differential sampling of the glue model on this run's cases"],
    "assumptions": [
        "codec laws (Section variables of the theorems): serde_json parses what a client printed back to the same tree; "
        "serde_urlencoded splits/percent-decodes what a client encoded back to the same pairs",
        "the Gallina decoders (Http.v) are the serde-derived visitors + glue: checked by correspondence on this run's cases only",
        "request execution is a function of the request (batch order theorem is about placement of responses, not about resolver side effects)",
    ],
}

MANIFEST = {
    "category": "proof",
    "technique": "Coq proof over the decoding glue (serde key tables regenerated from source; codecs as Section variables with decode-after-encode laws) + invariant proof of the ordered-completion buffer for all schedules + differential correspondence through the real decoders",
    "text": ("Coq theorems: for every well-formed request the JSON body, the batch element, the multipart operations part and the "
             "GET query string decode to that request (GET: for every key table that lists operationName; refuted for today's table, "
             "proved whenever no operation name is sent); a batch decodes to its requests in order; every tree the protocol calls "
             "malformed is rejected outside the recorded positional-array class; execute_batch's ordered buffer returns the responses "
             "in request order for every completion schedule. The key tables are re-read from the serde attributes on every run; the "
             "glue model is tied to the real decoders by generated requests in every encoding and malformed variants."),
    "note": ("trusted: Coq kernel, facts plugin, codecs (serde_json, serde_urlencoded, mime, multer), serde-derive protocol, "
             "FuturesOrdered semantics, sampled agreement model vs code; theorems closed under the global context"),
}


def run(tier, seed, replay=None):
    return c.run_standard(SPEC, tier, seed, replay)

"""C34 — the GraphiQL page embeds its configuration verbatim and safely."""
import common as c

SPEC = {
    "pid": "C34",
    "facts": ["graphiql"],
    "bin": "c34",
    "requires": "From AG Require Import Graphiql.",
    "def_type": "str",
    "streams": [
        {"kind": "CASE", "type": "(config * str * str)", "eval": "check_case", "per_shard": 8},
        {"kind": "SYN", "type": "(str * bool)", "eval": "check_syn", "per_shard": 8},
        {"kind": "ESC", "type": "(str * str)", "eval": "check_esc", "per_shard": 400},
    ],
    "classes": {1: "script-string-html-escaped", 2: "headers-and-ws-params-missing-comma",
                3: "script-string-backslash-or-line-terminator"},
    "n_quick": 120, "n_thorough": 480,
    "level": "proof",
    "what_violation": "a configured string does not reach the GraphiQL script/title verbatim, or ends its context",
    "rule": ("configurations built with GraphiQLSource::build()...finish(): the three configurations of the repository's tests, the "
             "witnesses of the known findings, endpoints / subscription endpoints / header and connection-parameter strings / titles "
             "with a query string followed by each dangerous class (/graphql?a=1&b='x, /g?q=</script><script>alert(1)</script>, "
             "/ws?token=it's, ?', ?\\, ?LF ...), then random endpoint / subscription endpoint / title / 0-2 headers / 0-2 connection "
             "parameters / version / credentials with strings from ten classes (plain URLs, ampersands, single quotes, double quotes, "
             "angle brackets and </script> </title> <!--, backslashes, line terminators incl. U+2028/2029, non-ASCII, template/JS "
             "metacharacters, query strings with a dangerous tail), their concatenations, and url?query=<value of any class>; "
             "two judgements per case: VERBATIM - the whole page is compared with the model's page and walked hole by hole by the "
             "specification (JS literal evaluation, RCDATA decoding); CONTEXT - the lexical skeleton (title text dropped, every string "
             "literal of the module script collapsed, comments dropped) of the real page must equal the skeleton of the real page of the "
             "neutral configuration of the same shape (all strings x): this uses no template model, and a context break on the real "
             "page outside the backslash / line-terminator class is a violation with the configuration as replay whatever other known "
             "class the configuration is in; the escaper alone on 6n strings through the title hole; node --check on up to 24 pages; "
             "distinct by configuration; non-trivial = at least one optional setting present"),
    "trusted": ["tools/factsgen/graphiql.py (jinja -> TemplateGen.v, HTML/JS context scanner)",
                "harness adapters (configuration -> Gallina record, map order read back from the page)",
                "the Coq JS string-literal evaluator, the JS skeleton lexer and the RCDATA decoder (Graphiql.v) stand for the browser",
                "harness: the neutral page handed to a case is GraphiQLSource::finish on the all-x configuration of the same shape",
                "differential sampling: Graphiql.v render = askama's generated code on this run's cases"],
    "assumptions": [
        "a browser evaluates '...' in a module script as Graphiql.js_sq_f does and decodes <title> text as rcdata_f does",
        "two real pages with the same lexical skeleton (Graphiql.page_skel: string literals collapsed, comments and title text dropped) "
        "have the same script / HTML structure; the module script uses no regular-expression literals and no ${} template substitutions",
        "when the translator rejects the template, coq/gen.baseline/TemplateGen.v (python3 tools/facts.py --save-baseline; its header "
        "carries the sha256 of the .jinja it was made from) stands in as the model ONLY to search for a failing input; the context "
        "judgement does not use it",
        "{{ version }} and {{ credentials }} are rendered and compared but are not part of the property",
        "the Gallina renderer (Graphiql.v over the translated template) is askama's output: checked by correspondence on this run's cases only",
    ],
}

MANIFEST = {
    "category": "proof",
    "technique": ("Coq proof over the template translated from the .jinja on every run (HTML escaper, ECMAScript single-quoted "
                  "literal evaluator, RCDATA decoder, </script detector) + whole-page differential correspondence with "
                  "GraphiQLSource::finish + model-free lexical-skeleton comparison of the real page with the real neutral page "
                  "+ node --check on sampled pages"),
    "text": ("Coq theorems: for all strings the title text decodes to exactly the configured title and cannot close <title>; for all "
             "strings without & < > \" ' \\ LF CR the single-quoted literal of every script hole evaluates to exactly the configured "
             "value and ends at the template's quote; for all strings without \\ LF CR (quotes, ampersands, angle brackets, </script> "
             "included) the rendered literal ends exactly at the template's closing quote and the page skeleton is that of the neutral "
             "value (context-safe); for all strings the escaped text contains no < > ' \"; refuted for the full statement: "
             "entity-escaped text is shown verbatim to the script (a&b becomes a&#38;b; context-safe), a trailing backslash swallows "
             "the closing quote and a raw line terminator cuts the literal (the value ends its context), and headers together with "
             "connection parameters render two object members without a comma (the module does not parse). Every hole of the "
             "translated template is shown to sit in the context the theorems assume. Per case the context judgement is made on the "
             "real pages alone (no template model), so it still decides when the template leaves the translated subset."),
    "note": ("trusted: Coq kernel, template translator, the Coq model of JS/HTML lexing, sampled agreement model vs code; theorems "
             "closed under the global context (no axioms)"),
}


def run(tier, seed, replay=None):
    return c.run_standard(SPEC, tier, seed, replay)

"""C34 — the GraphiQL page embeds its configuration verbatim and safely."""
import common as c

SPEC = {
    "pid": "C34",
    "facts": ["graphiql"],
    "bin": "c34",
    "requires": "From AG Require Import Graphiql.",
    "def_type": "unit",
    "streams": [
        {"kind": "CASE", "type": "(config * str)", "eval": "check_case", "per_shard": 8},
        {"kind": "SYN", "type": "(str * bool)", "eval": "check_syn", "per_shard": 8},
        {"kind": "ESC", "type": "(str * str)", "eval": "check_esc", "per_shard": 400},
    ],
    "classes": {1: "script-string-html-escaped", 2: "headers-and-ws-params-missing-comma"},
    "n_quick": 120, "n_thorough": 2500,
    "level": "proof",
    "what_violation": "a configured string does not reach the GraphiQL script/title verbatim, or ends its context",
    "rule": ("configurations built with GraphiQLSource::build()...finish(): the three configurations of the repository's tests, the "
             "witnesses of the known findings, then random endpoint / subscription endpoint / title / 0-2 headers / 0-2 connection "
             "parameters / version / credentials with strings from nine classes (plain URLs, ampersands, single quotes, double quotes, "
             "angle brackets and </script> </title> <!--, backslashes, line terminators incl. U+2028/2029, non-ASCII, template/JS "
             "metacharacters) and their concatenations; the whole page is compared with the model's page and walked by the "
             "specification; the escaper alone on 6n strings through the title hole; node --check on up to 24 pages; "
             "distinct by configuration; non-trivial = at least one optional setting present"),
    "trusted": ["tools/factsgen/graphiql.py (jinja -> TemplateGen.v, HTML/JS context scanner)",
                "harness adapters (configuration -> Gallina record, map order read back from the page)",
                "the Coq JS string-literal evaluator and RCDATA decoder (Graphiql.v) stand for the browser",
                "differential sampling: Graphiql.v render = askama's generated code on this run's cases"],
    "assumptions": [
        "a browser evaluates '...' in a module script as Graphiql.js_sq_f does and decodes <title> text as rcdata_f does",
        "{{ version }} and {{ credentials }} are rendered and compared but are not part of the property",
        "the Gallina renderer (Graphiql.v over the translated template) is askama's output: checked by correspondence on this run's cases only",
    ],
}

MANIFEST = {
    "category": "proof",
    "technique": ("Coq proof over the template translated from the .jinja on every run (HTML escaper, ECMAScript single-quoted "
                  "literal evaluator, RCDATA decoder, </script detector) + whole-page differential correspondence with "
                  "GraphiQLSource::finish + node --check on sampled pages"),
    "text": ("Coq theorems: for all strings the title text decodes to exactly the configured title and cannot close <title>; for all "
             "strings without & < > \" ' \\ LF CR the single-quoted literal of every script hole evaluates to exactly the configured "
             "value and ends at the template's quote; for all strings the escaped text contains no < > ' \" so it cannot leave the "
             "script or HTML context by itself; refuted for the full statement: entity-escaped text is shown verbatim to the script "
             "(a&b becomes a&#38;b), a trailing backslash swallows the closing quote, a raw line terminator breaks the literal, and "
             "headers together with connection parameters render two object members without a comma (the module does not parse). "
             "Every hole of the translated template is shown to sit in the context the theorems assume."),
    "note": ("trusted: Coq kernel, template translator, the Coq model of JS/HTML lexing, sampled agreement model vs code; theorems "
             "closed under the global context (no axioms)"),
}


def run(tier, seed, replay=None):
    return c.run_standard(SPEC, tier, seed, replay)

"""C03 — a field error nulls only the nearest nullable position and is reported once."""
import common as c
from checks.C01 import CASE_T, CLASSES
from checks import C02, C27

SPEC = {
    "pid": "C03",
    "facts": [],
    "bin": "c01",
    "extra_args": ["c03"],
    "requires": "From AG Require Import ExecCheck.",
    "def_type": "schema",
    "streams": [
        {"kind": "CASE", "type": CASE_T,
         "eval": "fun c => let '(s, w, d, op, v, r) := c in check_c03 s w d op v 300 r", "per_shard": 25},
        # "each subscription event": every response of the real execute_stream must hold exactly the data and the
        # errors of its own event (SubEvents.v; events whose root field fails as a whole after a caught error included)
        {"kind": "SUB_CASE", "requires": "From AG Require Import SubEvents.", "def_type": "fixture",
         "type": C27.SPEC["streams"][0]["type"], "eval": C27.SPEC["streams"][0]["eval"], "per_shard": 150,
         "classes": {1: "shared-error-list-across-overlapping-events"},
         "what_violation": "a subscription event's response does not carry exactly the errors raised while resolving that event"},
        # "dynamic schemas": fault-injected worlds on schemas built with the dynamic API (DynExecCheck.v)
        {"kind": "DYN_CASE", "requires": "From AG Require Import DynExecCheck.", "def_type": "schema",
         "type": C02.CASE_T, "eval": C02.SPEC["streams"][0]["eval"], "per_shard": 20,
         "classes": C02.CLASSES,
         "what_violation": "a failing field of a dynamic schema does not null exactly the nearest nullable position (response differs from the specification's execution algorithm)"},
    ],
    "extra_bins": [
        {"bin": "c27", "kind_prefix": "SUB_", "n_factor": 1.5},   # subscription events (harness and machine of check C27)
        {"bin": "c02", "kind_prefix": "DYN_", "n_factor": 0.4},   # dynamic schemas (harness and model of check C02)
    ],
    "classes": CLASSES,
    "n_quick": 400, "n_thorough": 1600,
    "level": "proof",
    "what_violation": "a failing field does not null exactly the nearest nullable position / is not reported exactly once with its path",
    "rule": ("same generator as C01 with fault injection: worlds with 0%, 4%, 8% or 15% failing resolvers (resolver error, value invalid for its type, "
             "null at a non-null position), so single faults, pairs and multiple faults occur at every nullability/list wrapping; queries and mutations; "
             "distinct by case text; non-trivial = data non-null or errors"),
    "trusted": ["harness world/registry dump and document printer", "differential sampling: Exec.v impl model = real executor (data, error paths, resolver trace)"],
    "assumptions": ["the first stream is the static (derive-built) schema family; subscription events are judged by the event machine of check C27 "
                    "(stream SUB_CASE) and dynamic schemas by the dynamic executor model of check C02 on fault-injected worlds (stream DYN_CASE: data "
                    "against the specification, data and errors against the model)",
                    "error locations are not compared (paths are)",
                    "when several faults occur the specification may report more errors than the implementation (siblings dropped by try_join_all): "
                    "inclusion is required, equality for a single fault"],
}

MANIFEST = {
    "category": "proof",
    "technique": "Coq models of spec error propagation and of the implementation's Option-catch / try_join_all propagation, refinement with deviations as flags, fault-injected differential correspondence",
    "text": ("Same Coq models as C01; the verdict compares data AND error paths with the specification's CompleteValue/null-propagation rules for worlds "
             "with injected faults at every wrapping. Four deviations are recorded findings (resolver error at a nullable field nulls the parent; list "
             "item error path overwritten; interface-dispatched error without path; per-occurrence resolution keeps a partial object). "
             "Subscription events: the streams of check C27 (each response = its own event's data and errors, under sequential and interleaved schedules) "
             "and dynamic schemas: the fault-injected stream of check C02 are evaluated here as well, with their own known classes listed under C03."),
    "note": "trusted: Coq kernel, harness, sampled agreement model vs code; no axioms",
}


def run(tier, seed, replay=None):
    return c.run_standard(SPEC, tier, seed, replay)

"""C03 — a field error nulls only the nearest nullable position and is reported once."""
import common as c
from checks.C01 import CASE_T, CLASSES

SPEC = {
    "pid": "C03",
    "facts": [],
    "bin": "c01",
    "extra_args": ["c03"],
    "requires": "From AG Require Import ExecCheck.",
    "def_type": "schema",
    "streams": [
        {"kind": "CASE", "type": CASE_T,
         "eval": "fun c => let '(s, w, d, op, v, r) := c in check_c03 s w d op v 300 r", "per_shard": 25},
    ],
    "classes": CLASSES,
    "n_quick": 400, "n_thorough": 8000,
    "level": "proof",
    "what_violation": "a failing field does not null exactly the nearest nullable position / is not reported exactly once with its path",
    "rule": ("same generator as C01 with fault injection: worlds with 0%, 4%, 8% or 15% failing resolvers (resolver error, value invalid for its type, "
             "null at a non-null position), so single faults, pairs and multiple faults occur at every nullability/list wrapping; queries and mutations; "
             "distinct by case text; non-trivial = data non-null or errors"),
    "trusted": ["harness world/registry dump and document printer", "differential sampling: Exec.v impl model = real executor (data, error paths, resolver trace)"],
    "assumptions": ["static (derive-built) schema family only; dynamic schemas and subscription events are not covered by this check",
                    "error locations are not compared (paths are)",
                    "when several faults occur the specification may report more errors than the implementation (siblings dropped by try_join_all): "
                    "inclusion is required, equality for a single fault"],
}

MANIFEST = {
    "category": "proof",
    "technique": "Coq models of spec error propagation and of the implementation's Option-catch / try_join_all propagation, refinement with deviations as flags, fault-injected differential correspondence",
    "text": ("Same Coq models as C01; the verdict compares data AND error paths with the specification's CompleteValue/null-propagation rules for worlds "
             "with injected faults at every wrapping. Four deviations are recorded findings (resolver error at a nullable field nulls the parent; list "
             "item error path overwritten; interface-dispatched error without path; per-occurrence resolution keeps a partial object). "
             "Partial: static schemas and queries/mutations only; dynamic flavour and subscription events are not claimed here."),
    "note": "trusted: Coq kernel, harness, sampled agreement model vs code; no axioms",
}


def run(tier, seed, replay=None):
    return c.run_standard(SPEC, tier, seed, replay)

"""C04 — merged fields resolve once; mutation root fields run one at a time in order."""
import common as c
from checks.C01 import CASE_T

SPEC = {
    "pid": "C04",
    "facts": [],
    "bin": "c01",
    "requires": "From AG Require Import ExecCheck.\nFrom AG Require Import SchedCheck.",
    "def_type": "schema",
    "streams": [
        {"kind": "CASE", "type": CASE_T,
         "eval": "fun c => let '(s, w, d, op, v, r) := c in check_c04 s w d op v 300 r", "per_shard": 25},
        # second half (serial mutation roots) on the DYNAMIC executor and on the derive schema: gated runs of c04d.rs
        {"kind": "DSCHED", "type": "dcase", "eval": "check_dsched", "per_shard": 150},
    ],
    "extra_bins": [{"bin": "c04d", "extra_args": ["4", "30", "1500"], "n_factor": 0.25}],
    "classes": {7: "repeated-key-resolved-per-occurrence"},
    "n_quick": 400, "n_thorough": 1600,
    "level": "proof",
    "what_violation": ("a resolver ran more often than once per collected response key of its parent object (stream CASE), or the root fields of a "
                       "mutation overlapped / left document order in the Start/End log, or the data changed with the completion order (stream DSCHED)"),
    "rule": ("C01 generator (repeated response keys directly, through aliases and through fragments, queries and mutations); the resolver invocation "
             "trace (node, field) recorded by the data-driven resolvers is compared with the model's and with the specification's one-invocation-per-group trace; "
             "distinct by case text. Stream DSCHED (c04d.rs): generated mutations (2-4 root fields, aliases, repeated keys, inline/named fragments on the root, "
             "nested sub-selections and lists) and queries on a dynamic::Schema with gated logging resolvers and on the derive family schema, driven by manual "
             "polling under every order of gate openings (<= 30 per document, random beyond); verdict: the Start/End log splits into consecutive segments "
             "per root-field occurrence in document order (queries may overlap) and the data equals the all-ready run's"),
    "trusted": ["harness trace recording", "differential sampling: Exec.v impl model = real executor",
                "c04d scheduler (manual polling, oneshot gates), root response keys computed from the parsed document"],
    "assumptions": ["resolvers complete immediately (completion-order dependence of the serial mutation order is the subject of the gated runs, not of this stream)"],
}

MANIFEST = {
    "category": "proof",
    "technique": "Coq trace models (spec: one resolver call per grouped key; impl: one per occurrence) + differential correspondence of resolver traces",
    "text": ("The executor models of C01 also produce the resolver invocation trace. Verdict: the real trace equals the model's, and no (node, field) is "
             "invoked more often than the specification's grouped execution invokes it. Refuted today (recorded finding): repeated response keys run the "
             "resolver once per occurrence, e.g. mutation { a{id} a{id} } runs Mutation.a twice. Second half: C04_serial / C04_serial_order (scheduler model "
             "Sched.v): for every completion schedule the event log of a mutation splits into consecutive per-root-field segments; the scheduler "
             "model is tied to the code by the gated, exhaustively scheduled runs of check C05 (which include mutations), and the serial order itself is judged on "
             "the real event logs of the dynamic executor (src/dynamic/resolve.rs, schema.rs) and of the derive schema by SchedCheck.check_dsched, a test that "
             "every log of the model's serial loop passes (serial_model_passes_check)."),
    "note": "trusted: Coq kernel, harness, sampled agreement; no axioms. The serial-order theorems are about Sched.v, whose correspondence runs live in check C05.",
}


def run(tier, seed, replay=None):
    return c.run_standard(SPEC, tier, seed, replay)

"""C04 — merged fields resolve once; mutation root fields run one at a time in order."""
import common as c
from checks.C01 import CASE_T

SPEC = {
    "pid": "C04",
    "facts": [],
    "bin": "c01",
    "requires": "From AG Require Import ExecCheck.",
    "def_type": "schema",
    "streams": [
        {"kind": "CASE", "type": CASE_T,
         "eval": "fun c => let '(s, w, d, op, v, r) := c in check_c04 s w d op v 300 r", "per_shard": 25},
    ],
    "classes": {7: "repeated-key-resolved-per-occurrence"},
    "n_quick": 400, "n_thorough": 8000,
    "level": "proof",
    "what_violation": "a resolver ran more often than once per collected response key of its parent object",
    "rule": ("C01 generator (repeated response keys directly, through aliases and through fragments, queries and mutations); the resolver invocation "
             "trace (node, field) recorded by the data-driven resolvers is compared with the model's and with the specification's one-invocation-per-group trace; "
             "distinct by case text"),
    "trusted": ["harness trace recording", "differential sampling: Exec.v impl model = real executor"],
    "assumptions": ["resolvers complete immediately (completion-order dependence of the serial mutation order is the subject of the gated runs, not of this stream)"],
}

MANIFEST = {
    "category": "proof",
    "technique": "Coq trace models (spec: one resolver call per grouped key; impl: one per occurrence) + differential correspondence of resolver traces",
    "text": ("The executor models of C01 also produce the resolver invocation trace. Verdict: the real trace equals the model's, and no (node, field) is "
             "invoked more often than the specification's grouped execution invokes it. Refuted today (recorded finding): repeated response keys run the "
             "resolver once per occurrence, e.g. mutation { a{id} a{id} } runs Mutation.a twice. Second half: C04_serial / C04_serial_order (scheduler model "
             "Sched.v): for every completion schedule the event log of a mutation splits into consecutive per-root-field segments; the scheduler "
             "model is tied to the code by the gated, exhaustively scheduled runs of check C05 (which include mutations)."),
    "note": "trusted: Coq kernel, harness, sampled agreement; no axioms. The serial-order theorems are about Sched.v, whose correspondence runs live in check C05.",
}


def run(tier, seed, replay=None):
    return c.run_standard(SPEC, tier, seed, replay)

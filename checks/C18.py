"""C18 — introspection is consistent and matches the schema actually served."""
import common as c

CASE_T = "((registry * list (name * list name)) * N * bool * bool * outcome result)"
SPEC = {
    "pid": "C18",
    "facts": [],
    "bin": "c18",
    "requires": "From AG Require Import Introspect.",
    "def_type": "(registry * list (name * list name))",
    "streams": [
        {"kind": "CASE", "type": CASE_T,
         "eval": "fun c => let '(s, x, fe, ai, i) := c in check_c18 s x fe ai i", "per_shard": 12},
    ],
    "classes": {1: "hidden-type-still-referenced", 2: "directive-visibility-ignored",
                3: "interface-implements-interface", 4: "interface-pass-order"},
    "n_quick": 220, "n_thorough": 880,
    "level": "proof",
    "what_violation": "introspection answer is inconsistent / shows a hidden element / differs from the served registry",
    "rule": ("full introspection query (three includeDeprecated settings) + aliased __type(name:) queries on a fixed corpus, generated "
             "injected registries (all six kinds, directives, interface inheritance, visibility predicates reading request data), one "
             "derive-built schema and two dynamic schemas, under every visibility context (8); distinct by (schema, context, flags, "
             "queried names); non-trivial = an introspection answer (not an error) was produced"),
    "trusted": ["harness registry dump (visibility functions tabulated by calling them under every context) and JSON -> Gallina printer",
                "differential sampling: Introspect.v = find_visible_types + src/model resolvers on this run's cases",
                "type strings abstracted to token lists (a name is one token)"],
    "assumptions": [
        "descriptions, deprecation reasons, specifiedByURL, isOneOf, directive locations are not compared",
        "registries are keyed by the type's own name (wf_registry) and system types name only system types (wf_system): both are evaluated on every dumped registry (verdict 9 = broken)",
        "theorems are conditional on the traversal answering within the fuel (fuel sufficiency of |types|+2 is not proved; an OutOfFuel of the model would show as a correspondence break)",
    ],
}

MANIFEST = {
    "category": "proof",
    "technique": "Coq proof (DFS visible-set invariants and closure, wrapper-chain round trip, filter characterisations) + differential correspondence of the introspection model under every visibility context",
    "text": ("Coq theorems, for every registry, visibility context, includeDeprecated choice and fuel for which the traversal answers: no type "
             "hidden by a visibility rule is listed, linked or named as a root, every field / argument / enum value / input field shown is visible; "
             "every type referenced through interfaces / possibleTypes / roots is listed and, by the closure of the depth-first traversal of "
             "find_visible_types, outside the recorded class of visible members naming a hidden type every member type is listed and not hidden; "
             "the ofType chain built from any registry type string equals the wrapper chain of the declared type (any nesting depth); possibleTypes / "
             "interfaces are exactly the listed registered members / implemented interfaces. The faithful model refutes the full statement in "
             "four narrow classes (recorded findings, each with a machine-checked witness). The model is tied to the code by running the real "
             "introspection on generated injected registries, a derive-built and two dynamic schemas under every visibility context."),
    "note": "trusted: Coq kernel, harness dump/printers, sampled agreement model vs code; no axioms",
}


def run(tier, seed, replay=None):
    return c.run_standard(SPEC, tier, seed, replay)

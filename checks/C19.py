"""C19 — introspection modes gate schema metadata and user resolvers."""
import common as c

SPEC = {
    "pid": "C19",
    "facts": [],
    "bin": "c19",
    "requires": "From AG Require Import IntroModes.",
    "def_type": "document",
    "streams": [
        {"kind": "CASE", "type": "(cfg * document * obs)",
         "eval": "fun c => let '(g, d, o) := c in check_case g d 200 o", "per_shard": 800},
    ],
    "classes": {1: "static-service-sdl-when-disabled", 2: "dynamic-entities-under-introspection-only",
                3: "dynamic-subscription-under-introspection-only", 4: "static-mutation-typename-under-introspection-only"},
    # n = number of RANDOM documents (each on 12 random configurations) added to the fixed exhaustive family;
    # n >= 500 also switches the fixed family to "every document on all 108 configurations"
    "n_quick": 60, "n_thorough": 240,
    "search_factor": 9,
    "level": "proof",
    "what_violation": "metadata served while introspection is disabled / user resolver ran under introspection-only / __typename not answered with the root type name / response differs from the verified mode table",
    "rule": ("EXHAUSTIVE over the configuration matrix (run_standard has no `exhaustive` coverage flag, so it is stated here): "
             "flavour {static, dynamic} x federation {off, enable_federation() only, entity type + resolver} x schema mode {enabled, disabled, "
             "introspection-only} x request mode {same three} x transport {execute, execute_stream} = 108 configurations, each crossed with "
             "query, mutation and subscription documents: every single-field document of the seven field classes (__typename, __schema, __type, "
             "_service, _entities, the root's user field, an unknown field) on all 108 configurations; all pairs "
             "of classes, all-classes documents in both orders, five inline-fragment/fragment-spread shapes around every class, repeated response "
             "keys and fragments on foreign types: in the quick tier on the 54 configurations of the `execute` transport for queries and mutations "
             "(execute_stream hands them to the same execute_once) and on the 54 of `execute_stream` for subscriptions (`execute` refuses every "
             "subscription), in the thorough tier on all 108 (ordered pairs there); plus n random documents (up to 3 "
             "fragments, nesting 3) on 12 random configurations each.  Observed per case: which response keys carry which class of value "
             "(null / type name / metadata object / SDL / entity list / user value), whether data and errors were returned, and how often each "
             "user resolver (Query.q, Mutation.m, Subscription.s, entity resolver) ran.  distinct by (configuration, document text); "
             "non-trivial = a resolver ran or a non-null value was returned"),
    "trusted": ["harness schemas (one user field per root, all three roots configured), value classifier and resolver counters",
                "differential agreement of IntroModes.v (mode table, root walks, validation of root fields) with the library on this run's cases",
                "validation is modelled only as far as root fields and root type conditions go (unknown root field, foreign type condition)"],
    "assumptions": [
        "documents carry no @skip/@include (prepare_request removes skipped selections before the modelled code runs) and no conflicting response keys",
        "query, mutation and subscription roots are all configured; root types implement no interface",
        "__typename on a subscription root is rejected by validation (GraphQL forbids an introspection field as the single subscription root field); the __typename clause is judged on query and mutation roots",
        "resolvers below a root field run only if the root field's resolver ran (the gate is modelled at the root selection set, where the code places it)",
    ],
}

MANIFEST = {
    "category": "proof",
    "technique": "Coq proof (finite mode table by vm_compute over 2268 points lifted with forallb_forall; classification of all field names; refinement root walk = table over CollectFields and lifting to whole requests by induction on fuel/selection lists) + exhaustive differential matrix against the library",
    "text": ("Coq theorems over a model transcribed from QueryRoot::resolve_field, execute_once/execute_stream, Fields::add_set, "
             "collect_subscription_streams and the dynamic collect_fields/collect_streams: for every configuration (static/dynamic, federation set-up, "
             "schema mode, request mode, transport), operation type and field name, the executing root treats the field as the 7-class mode table says; "
             "the table serves no __schema/__type/SDL metadata when introspection is disabled, runs no query/mutation/subscription/entity resolver under "
             "introspection-only and answers __typename with the root type's name, except in four narrow classes, each proved to fail (recorded findings: "
             "static _service SDL while disabled; dynamic _entities and dynamic subscriptions run under introspection-only; static mutation __typename "
             "answered by the EmptyMutation stand-in). The three clauses are lifted to every document (any nesting of fragments) and every request. "
             "The model is tied to the library by running the whole configuration matrix against documents mixing the field classes."),
    "note": ("trusted: Coq kernel, harness schemas/value classifier/resolver counters, sampled-exhaustive agreement model vs code; "
             "theorems closed under the global context (no axioms)"),
}


def run(tier, seed, replay=None):
    return c.run_standard(SPEC, tier, seed, replay)

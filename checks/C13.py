"""C13 — the parser accepts exactly GraphQL documents and builds the tree they denote."""
import common as c

SPEC = {
    "pid": "C13",
    "facts": ["grammar"],
    "bin": "c13",
    "requires": "From AG Require Import ParserCheck.",
    "def_type": "unit",
    "streams": [
        {"kind": "DOC", "type": "(N * str * outcome (list pdef))", "eval": "check_doc", "per_shard": 40},
        {"kind": "TNEW", "type": "(str * option ptype)", "eval": "check_tnew", "per_shard": 400},
        {"kind": "SDL", "type": "(str * outcome (list sdef))", "eval": "check_sdl", "per_shard": 40},
    ],
    "classes": {1: "block-string-escaped-triple-quote-kept", 2: "block-string-short-blank-line-kept",
                3: "type-inner-ignored-rejected", 4: "token-boundary-missing", 5: "float-out-of-range-rejected",
                6: "directive-always-repeatable", 7: "variable-directives-before-default"},
    "n_quick": 120, "n_thorough": 480,
    "level": "proof",
    "what_violation": "parse result (accept/reject or tree) differs from what the document denotes",
    "rule": ("fixed corpus (witnesses of the findings, nesting 63..70, duplicate/anonymous operation rules, number range boundaries) + "
             "grammar-generated executable documents with random ignored tokens/comments/BOMs/escapes, 10% with glued tokens, "
             "10% byte-mutated; string contents, block-string contents, type texts and value texts placed in a fixed frame; "
             "Type::new on arbitrary text; generated and mutated service documents; distinct by text"),
    "trusted": ["tools/factsgen/grammar.py (graphql.pest -> GrammarGen.v) and Peg.v's reading of pest's generated code",
                "harness AST printer (definitions ordered by source position)",
                "differential sampling: PEG interpreter on the regenerated grammar + builder model = parse_query on this run's cases",
                "f64 conversion of number lexemes (serde_json) is not modelled: floats compare equal whatever their digits"],
    "assumptions": [
        "proved for all inputs: string escapes, Type::new / type printing, block strings outside the two recorded classes (see theorems)",
        "whole documents and values: the generic PEG interpreter on the regenerated grammar is tied to the code by sampling only; "
        "the specification parser covers string / block-string / type / value parts, not whole documents",
        "service documents: grammar level only (accept/reject and definition names)",
    ],
}

MANIFEST = {
    "category": "proof",
    "technique": ("graphql.pest re-translated to a Gallina PEG on every run and interpreted with pest's implicit-skip/atomic semantics; "
                  "builders modelled; Coq proofs for the lexical layer (escapes, block strings, type strings); independent lexer/parser "
                  "for strings, types and values; differential run on generated, glued and mutated documents"),
    "text": ("Coq theorems: decoding any escaped form of any string gives the string back; Type::new inverts the printer for every type; "
             "the block-string builder equals the specification's BlockStringValue outside two recorded classes, which are refuted with "
             "witnesses; `[ Int ]`, `[00]`, `[trueish]`, `1e309` are refuted against the regenerated grammar. Whole documents: the PEG "
             "interpreter running the regenerated grammar plus the builder model must return exactly the tree/error of parse_query on "
             "every generated case (partial: no proof that every document round-trips)."),
    "note": "trusted: Coq kernel, grammar translator, harness printers, sampled agreement model vs code; no axioms",
}


def run(tier, seed, replay=None):
    return c.run_standard(SPEC, tier, seed, replay)

"""C11 — request checking work is polynomial in the document size."""
import common as c

CASE_T = "(schema * document * list (name * value) * limits * bool * obs)"
SPEC = {
    "pid": "C11",
    "facts": [],
    "bin": "c10",
    "extra_args": ["c11"],
    "requires": "From AG Require Import LimitsCheck.",
    "def_type": "schema",
    "streams": [
        {"kind": "CASE", "type": CASE_T,
         "eval": "fun c => let '(s, d, v, l, f, o) := c in check_c11 s d 600 l f o", "per_shard": 30},
    ],
    "classes": {1: "fragment-fanout-exponential"},
    "n_quick": 300, "n_thorough": 3000,
    "level": "proof",
    "coqc_timeout": 1500,
    "what_violation": "checking work (selection visits counted by the cfg hook) exceeds 4*(size+1)^2 or differs from the cost model",
    "rule": ("random documents plus adversarial families (fragment fan-out chains up to 2^13 / 2^17 visits, wide overlapping selections, deep inline "
             "nesting, many operations); the three hook counters (validation visitor, recursion walker, directive walker) are compared for EQUALITY "
             "with the model; distinct by case text; non-trivial = decision != accept or complexity/depth > 1"),
    "trusted": ["cfg(async_graphql_verif) visit counters (hook commit in MANIFEST.hooks)", "harness printers",
                "cost of pest parsing and of the individual validation rules' own loops is not modelled (only selection visits)"],
    "assumptions": ["work = selection visits of validation::visitor::visit_selection + the two schema.rs walkers",
                    "polynomial bound tested: 4*(size+1)^2 visits, size = selections written in the document"],
}

MANIFEST = {
    "category": "proof",
    "technique": "Coq proof over a cost model (visits = size of the inlined document; closed-form exponential family by induction) tied to the code by exact equality with cfg-hook counters",
    "text": ("Coq theorems: the Inline-mode pass visits exactly the selections of the inlined document; for every L a document of 2L+2 selections "
             "within nesting L+1 costs 3*2^L-1 visits (induction on L) — the property is refuted as stated and recorded as a known finding; "
             "the cost model is tied to the code by comparing the hook counters for equality on random and adversarial documents. Partial: parsing cost "
             "and per-rule inner loops (e.g. OverlappingFieldsCanBeMerged) are not in the cost model."),
    "note": "trusted: Coq kernel, hook counters, harness; no axioms. Partial cost model (selection visits only).",
}


def run(tier, seed, replay=None):
    return c.run_standard(SPEC, tier, seed, replay)

"""C11 — request checking work is polynomial in the document size."""
import common as c

CASE_T = "(schema * document * list (name * value) * limits * bool * obs)"
# second stream: the five verif_hooks::RULE_STEPS counters of one request
RULE_T = "(schema * document * limits * bool * list N)"
SPEC = {
    "pid": "C11",
    "facts": [],
    "bin": "c10",
    "extra_args": ["c11"],
    "extra_bins": [{"bin": "c11r", "extra_args": [], "n_factor": 0.4}],
    "requires": "From AG Require Import LimitsCheck RuleCost.",
    "def_type": "schema",
    "streams": [
        {"kind": "CASE", "type": CASE_T,
         "eval": "fun c => let '(s, d, v, l, f, o) := c in check_c11 s d 600 l f o", "per_shard": 30},
        {"kind": "RULE", "type": RULE_T,
         "eval": "fun c => let '(s, d, l, f, st) := c in check_c11r s d 2000 (rule_fuel d) l f st", "per_shard": 40},
    ],
    "classes": {1: "fragment-fanout-exponential"},
    "n_quick": 300, "n_thorough": 1200,
    "level": "proof",
    "coqc_timeout": 1500,
    "what_violation": ("checking work exceeds its proved/tested polynomial or differs from the cost model (CASE: selection visits counted by the first cfg hook "
                       "vs 4*(size+1)^2; RULE: the five rule-step counters of the second cfg hook vs [2s^2, s, o(1+s), o(1+s), o+(o+1)s])"),
    "rule": ("random documents plus adversarial families (fragment fan-out chains up to 2^13 / 2^17 visits, wide overlapping selections, deep inline "
             "nesting, many operations); stream CASE: the three visit counters (validation visitor, recursion walker, directive walker) are compared for "
             "EQUALITY with the model; stream RULE (every c10 document again + bin c11r: UNUSED fan-out chains up to k=14, nested-spread chains, used chains, "
             "25-40 operations sharing fragments directly/transitively, unused and used fragment cycles, self-spreads, undefined spreads, inline nesting to 60, "
             "wide sets with repeated spreads, duplicate spreads in nested fields, operations without a root type, __typename sub-selections, random fragment "
             "graphs (5/6 acyclic), strict and fast mode): the five rule-step counters (FindConflicts::find iterations, CycleDetector::detect_from iterations, "
             "find_undef_vars / find_used_vars / find_reachable_fragments calls) are compared for EQUALITY with RuleCost.rule_steps and against the proved "
             "polynomial bounds; each c11r request runs under a 25 s watchdog (a hang is reported with the counters reached); distinct by case text; "
             "non-trivial = decision != accept or complexity/depth > 1 (CASE), some counter > 1 (RULE)"),
    "trusted": ["cfg(async_graphql_verif) visit counters and rule-step counters (both hook commits in MANIFEST.hooks)", "harness printers",
                "not modelled: cost of pest parsing, of the rules' hash-map/hash-set operations and error formatting per step (each step is O(1) amortised "
                "plus add_output's scan of one field's arguments), and of the rules without a fragment-graph walk (one callback per visited node)"],
    "assumptions": ["work = selection visits of validation::visitor::visit_selection + the two schema.rs walkers + steps of the five rules that walk the fragment graph themselves",
                    "polynomial bound tested for visits: 4*(size+1)^2, size = selections written in the document (fragment definitions included)",
                    "rule steps: proved for every document <= [2*size^2, size, ops*(1+size), ops*(1+size), ops+(ops+1)*size]; theorems exclude fuel exhaustion of the model "
                    "(the check evaluates with rule_fuel d and reports exhaustion as an unexpected code)",
                    "the counters do not depend on hash-map iteration order (memoised walks: calls = roots + out-degrees of the scopes reached), so the model walks in document order"],
}

MANIFEST = {
    "category": "proof",
    "technique": ("Coq proofs over a cost model tied to the code by exact equality with two sets of cfg-hook counters: selection visits (= size of the inlined document; "
                  "closed-form exponential family by induction) and the steps of the validation rules' own memoised fragment-graph walks (polynomial bounds for every "
                  "document by a NoDup/visited invariant)"),
    "text": ("Coq theorems: the Inline-mode pass visits exactly the selections of the inlined document; for every L a document of 2L+2 selections "
             "within nesting L+1 costs 3*2^L-1 visits (induction on L) — the property is refuted as stated and recorded as a known finding. "
             "The five rules that walk the fragment graph themselves (OverlappingFieldsCanBeMerged, NoFragmentCycles, NoUndefinedVariables, NoUnusedVariables, "
             "NoUnusedFragments) are modelled with their memo sets; each walk costs exactly items + out-degrees of the nodes entered for the first time, hence "
             "<= 2*size^2, size, ops*(1+size), ops*(1+size), ops+(ops+1)*size steps for EVERY document (ops+spreads for NoUnusedFragments when operation names are distinct). "
             "Both cost models are tied to the code by comparing the hook counters for equality on random and adversarial documents (unused fan-out chains, cycles, "
             "shared fragments, deep inline nesting...). Partial: pest parsing cost and the per-step hash-map operations of the rules are not in the cost model; "
             "model termination (fuel sufficiency) is checked per case, not proved."),
    "note": "trusted: Coq kernel, hook counters, harness; no axioms. Cost model = selection visits + rule steps; parsing and hash operations unmodelled.",
}


def run(tier, seed, replay=None):
    return c.run_standard(SPEC, tier, seed, replay)

"""C01 — query results follow spec field collection and completion (static schemas)."""
import common as c

CASE_T = "(schema * world * document * option name * list (name * value) * response)"
CLASSES = {1: "skip-include-ignores-variable-default", 2: "union-condition-on-non-union-static-type",
           3: "non-finite-float-null", 4: "nullable-field-error-nulls-parent", 5: "list-item-error-path-overwritten",
           6: "interface-field-error-without-path", 7: "repeated-key-resolved-per-occurrence", 8: "several-quirks-jointly"}
SPEC = {
    "pid": "C01",
    "facts": [],
    "bin": "c01",
    "requires": "From AG Require Import ExecCheck.",
    "def_type": "schema",
    "streams": [
        {"kind": "CASE", "type": CASE_T,
         "eval": "fun c => let '(s, w, d, op, v, r) := c in check_c01 s w d op v 300 r", "per_shard": 25},
    ],
    "classes": CLASSES,
    "n_quick": 400, "n_thorough": 1600,
    "level": "proof",
    "what_violation": "response data differs from the specification's execution algorithm",
    "rule": ("derive-built schema family (objects, 2 interfaces, union, enum, every list/nullability wrapper) with data-driven resolvers; "
             "generated documents (aliases, repeated keys with different sub-selections, named/inline fragments on object/interface/union "
             "conditions, @skip/@include with literals, variables and variable defaults), variables and data worlds (3% faults in a quarter of the worlds, "
             "non-finite floats in a quarter); fixed corpus of finding witnesses first; distinct by case text; non-trivial = data non-null or errors"),
    "trusted": ["harness world/registry dump and document printer", "differential sampling: Exec.v impl model = real executor (data, error paths, resolver trace)"],
    "assumptions": ["resolvers are the data-driven resolvers of harness/src/family.rs (pure functions of node id and field)",
                    "documents accepted by the real validator (rejected ones are counted, not judged)"],
}

MANIFEST = {
    "category": "proof",
    "technique": "Coq refinement proof (corrected executor model = spec algorithm, induction on fuel) + quirk-parametric impl model tied to the code by differential correspondence",
    "text": ("Coq: the GraphQL §6 algorithm (CollectFields/ExecuteSelectionSet/CompleteValue) and a model of async-graphql's executor "
             "(per-occurrence futures, its own type-condition test, pruning of @skip/@include, Option catch, try_join_all order, insert_value merging) "
             "parametrised by seven confirmed deviations. Theorems relate the model with all deviations switched off to the specification for all schemas, "
             "documents, variables and worlds; each deviation has a refutation witness and a recorded finding. The impl model (deviations on) is compared "
             "with the real library on data, error paths and resolver trace for every generated case."),
    "note": "trusted: Coq kernel, harness, sampled agreement model vs code; no axioms",
}


def run(tier, seed, replay=None):
    return c.run_standard(SPEC, tier, seed, replay)

#!/usr/bin/env python3
"""cb.py <target.vo>... — build Coq targets and print the tail of the log."""
import sys, os
sys.path.insert(0, os.path.dirname(os.path.abspath(__file__)))
import common as c
ok, log = c.coq_build(sys.argv[1:])
print("OK" if ok else "FAIL")
print(log[-3000:])

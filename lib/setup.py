"""setup — build the framework from files on disk only (offline)."""
import glob
import os
import sys

import common as c


def main():
    rc = 0
    ok, log = c.run_facts([])
    print(log.strip())
    if not ok:
        print("setup: facts translator reported unsupported source (checks will report it)")
    c.coq_project()
    vos = [os.path.relpath(p, c.COQ) + "o" for d in ("theories", "gen", "props") for p in sorted(glob.glob(os.path.join(c.COQ, d, "*.v")))]
    ok, log = c.coq_build(vos, timeout=3000)
    print("setup: coq build", "ok" if ok else "FAILED")
    if not ok:
        print(log[-3000:])
        rc = 1
    ok, log = c.harness_build(None, timeout=3000)
    print("setup: harness build", "ok" if ok else "FAILED")
    if not ok:
        print(log[-3000:])
        rc = 1
    return rc


if __name__ == "__main__":
    sys.exit(main())

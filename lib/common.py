"""common.py — orchestration shared by every property check.

Engines: facts (tools/facts.py), coq (make in /verif/coq), harness (cargo crate
in /verif/harness built against /repo's working tree), cases (coqc evaluating
the model on the cases the harness ran on the real library).
"""
import fcntl
import glob
import hashlib
import json
import os
import re
import shutil
import subprocess
import sys
import time
from concurrent.futures import ThreadPoolExecutor

ROOT = os.path.dirname(os.path.dirname(os.path.abspath(__file__)))
REPO = os.environ.get("VERIF_REPO", "/repo")
COQ = os.path.join(ROOT, "coq")
HARNESS = os.path.join(ROOT, "harness")
WORK = os.path.join(ROOT, ".work")
EVID = os.path.join(ROOT, "evidence")
REPLAYS = os.path.join(ROOT, "replays")

ENV = dict(os.environ)
ENV.update({"CARGO_NET_OFFLINE": "true", "CARGO_TERM_COLOR": "never"})

FORBIDDEN = re.compile(
    r"\b(Admitted|admit|Axiom|Axioms|Parameter|Parameters|Conjecture|Conjectures|Admit Obligations)\b|"
    r"Unset\s+Guard|bypass_check|type-in-type|impredicative-set|Unset\s+Universe\s+Checking|Unset\s+Positivity")

# Axioms that the standard library / Flocq declare and that we allow per file.
FLOCQ_AXIOMS = {
    "ClassicalDedekindReals.sig_forall_dec", "ClassicalDedekindReals.sig_not_dec",
    "FunctionalExtensionality.functional_extensionality_dep", "Classical_Prop.classic",
}


class Lock:
    def __init__(self, name):
        os.makedirs(WORK, exist_ok=True)
        self.path = os.path.join(WORK, name + ".lock")

    def __enter__(self):
        self.f = open(self.path, "w")
        fcntl.flock(self.f, fcntl.LOCK_EX)
        return self

    def __exit__(self, *a):
        fcntl.flock(self.f, fcntl.LOCK_UN)
        self.f.close()


def sh(cmd, cwd=None, timeout=1800, env=None, check=False, input=None):
    p = subprocess.run(cmd, cwd=cwd, shell=isinstance(cmd, str), stdout=subprocess.PIPE,
                       stderr=subprocess.STDOUT, text=True, timeout=timeout, env=env or ENV, input=input)
    if check and p.returncode != 0:
        raise RuntimeError(f"command failed ({p.returncode}): {cmd}\n{p.stdout[-4000:]}")
    return p.returncode, p.stdout


# ------------------------------------------------------------------ facts ---
def run_facts(which):
    """Regenerate coq/gen/*.v from /repo.  Returns (ok, log)."""
    rc, out = sh([sys.executable, os.path.join(ROOT, "tools", "facts.py")] + list(which), timeout=120)
    return rc == 0, out


# -------------------------------------------------------------------- coq ---
def coq_project():
    """(Re)write _CoqProject and Makefile when the file set changed."""
    files = []
    for d in ("theories", "gen", "props"):
        files += sorted(os.path.relpath(p, COQ) for p in glob.glob(os.path.join(COQ, d, "*.v")))
    text = "-Q theories AG\n-Q gen AGgen\n-Q props AGprops\n-arg -w -arg -notation-overridden,-deprecated-hint-without-locality,-deprecated-instance-without-locality\n" + "\n".join(files) + "\n"
    p = os.path.join(COQ, "_CoqProject")
    old = open(p).read() if os.path.exists(p) else None
    if old != text or not os.path.exists(os.path.join(COQ, "Makefile")):
        with open(p, "w") as f:
            f.write(text)
        sh("coq_makefile -f _CoqProject -o Makefile", cwd=COQ, check=True)


def coq_build(targets, force=(), timeout=1500):
    """make the given .vo targets (paths relative to coq/).  `force` lists .v
    files whose .vo is removed first so that their Print Assumptions output is
    produced again.  Returns (ok, log)."""
    # Dependency-driven build with plain coqc (full .vo files) and one lock per
    # FILE, so that checks and builders working on different files never wait
    # for each other (a single `make` lock used to serialise everybody).
    with Lock("coq-project"):
        coq_project()
    args = ["-Q", "theories", "AG", "-Q", "gen", "AGgen", "-Q", "props", "AGprops"]
    files = []
    for d in ("theories", "gen", "props"):
        files += sorted(os.path.relpath(p, COQ) for p in glob.glob(os.path.join(COQ, d, "*.v")))
    rc, depout = sh(["coqdep"] + args + files, cwd=COQ, timeout=120)
    deps = {}
    for ln in depout.splitlines():
        if ":" not in ln or ln.startswith("***") or ln.startswith("Warning"):
            continue
        lhs, rhs = ln.split(":", 1)
        outs = [x for x in lhs.split() if x.endswith(".vo")]
        if not outs:
            continue
        deps[outs[0]] = [x for x in rhs.split() if x.endswith(".vo")]
    order, seen = [], set()

    def visit(t):
        if t in seen:
            return
        seen.add(t)
        for dpd in deps.get(t, []):
            visit(dpd)
        order.append(t)

    for t in targets:
        visit(t)
    log = []
    deadline = time.time() + timeout
    rebuilt = set()
    force_vo = {f[:-2] + ".vo" for f in force}
    for vo in order:
        src = vo[:-1]
        psrc, pvo = os.path.join(COQ, src), os.path.join(COQ, vo)
        if not os.path.exists(psrc):
            return False, "\n".join(log) + f"\nmissing source {src}"
        with Lock("coq-" + vo.replace("/", "_")):
            need = (vo in force_vo) or not os.path.exists(pvo) or os.path.getmtime(psrc) > os.path.getmtime(pvo)
            if not need:
                for dpd in deps.get(vo, []):
                    pd = os.path.join(COQ, dpd)
                    if dpd in rebuilt or (os.path.exists(pd) and os.path.getmtime(pd) > os.path.getmtime(pvo)):
                        need = True
                        break
            if not need:
                continue
            left = max(30, int(deadline - time.time()))
            log.append(f"COQC {src}")
            rc, out = sh(["timeout", str(left), "coqc", "-q", "-w",
                          "-notation-overridden,-deprecated-hint-without-locality,-deprecated-instance-without-locality"]
                         + args + [src], cwd=COQ, timeout=left + 30)
            log.append(out)
            if rc != 0:
                try:
                    os.remove(pvo)
                except FileNotFoundError:
                    pass
                return False, "\n".join(log) + (f"\n(coqc exit {rc}" + (", timeout)" if rc == 124 else ")"))
            rebuilt.add(vo)
    return True, "\n".join(log)


def forbidden_tokens():
    """grep the whole development for forbidden declarations."""
    hits = []
    for p in glob.glob(os.path.join(COQ, "*", "*.v")):
        src = open(p, encoding="utf-8").read()
        src_nc = strip_coq_comments(src)
        for m in FORBIDDEN.finditer(src_nc):
            hits.append(f"{os.path.relpath(p, ROOT)}: {m.group(0)}")
    return hits


def strip_coq_comments(s):
    out = []
    depth = 0
    i = 0
    in_str = False
    while i < len(s):
        if depth == 0 and s[i] == '"':
            in_str = not in_str
            out.append(s[i])
            i += 1
        elif not in_str and s.startswith("(*", i):
            depth += 1
            i += 2
        elif not in_str and depth > 0 and s.startswith("*)", i):
            depth -= 1
            i += 2
        else:
            if depth == 0:
                out.append(s[i])
            i += 1
    return "".join(out)


def parse_assumptions(log, theorems):
    """From a coqc log containing `Print Assumptions thm.` outputs (each
    preceded by our marker line printed with idtac/Check), return
    {thm: set(axioms)}.  We rely on the props files printing
    `(*ASSUME thm*)`-style markers through `Print Assumptions` order."""
    # Output of Print Assumptions is either "Closed under the global context"
    # or "Axioms:\nname : type\n..." blocks, in file order.
    blocks = []
    lines = log.splitlines()
    i = 0
    while i < len(lines):
        ln = lines[i]
        if ln.startswith("Closed under the global context"):
            blocks.append(set())
        elif ln.startswith("Axioms:"):
            ax = set()
            i += 1
            while i < len(lines) and lines[i] and not lines[i].startswith(("Closed under", "Axioms:", "COQC", "make", "File ")):
                m = re.match(r"^([A-Za-z_][\w.']*)\s*:", lines[i])
                if m:
                    ax.add(m.group(1))
                i += 1
            blocks.append(ax)
            continue
        i += 1
    return blocks


def props_theorems(prop_file):
    """Names following `Print Assumptions` in a props file, in order."""
    src = strip_coq_comments(open(os.path.join(COQ, prop_file), encoding="utf-8").read())
    return re.findall(r"Print\s+Assumptions\s+([\w.']+)\s*\.", src)


def check_props(prop_id, allowed_axioms=frozenset(), extra_targets=()):
    """Build props/<id>.v (and everything it depends on); return a dict
    {ok, obligations, discharged, failures[], theorems[], log}."""
    pf = f"props/{prop_id}.v"
    res = {"ok": False, "obligations": 0, "discharged": 0, "failures": [], "theorems": [], "log": ""}
    thms = props_theorems(pf)
    res["obligations"] = len(thms)
    res["theorems"] = thms
    ok, log = coq_build([pf + "o"] + list(extra_targets), force=[pf])
    res["log"] = log
    if not ok:
        # which file/theorem broke
        m = re.findall(r'File "([^"]+)", line (\d+)', log)
        res["failures"].append("coq build failed: " + (", ".join(f"{a}:{b}" for a, b in m[:3]) or "see log"))
        errm = re.search(r"Error:(.*?)(?:\n\n|\Z)", log, re.S)
        if errm:
            res["failures"].append(errm.group(0)[:600])
        return res
    hits = forbidden_tokens()
    if hits:
        res["failures"].append("forbidden tokens: " + "; ".join(hits[:5]))
        return res
    blocks = parse_assumptions(log, thms)
    if len(blocks) != len(thms):
        res["failures"].append(f"expected {len(thms)} Print Assumptions outputs, saw {len(blocks)}")
        return res
    bad = []
    for t, ax in zip(thms, blocks):
        extra = ax - set(allowed_axioms)
        if extra:
            bad.append(f"{t}: unexpected axioms {sorted(extra)}")
    if bad:
        res["failures"] += bad
        return res
    res["discharged"] = len(thms)
    res["axioms"] = sorted(set().union(*blocks)) if blocks else []
    res["ok"] = True
    return res


# ---------------------------------------------------------------- harness ---
def _alt_harness():
    """When VERIF_REPO points at a scratch worktree (mutation testing), build a
    private copy of the harness against it so that /repo-based runs are not
    disturbed.  Returns the harness directory to use."""
    global HARNESS
    if os.path.realpath(REPO) == "/repo" or HARNESS != os.path.join(ROOT, "harness"):
        return
    if f'path = "{os.path.realpath(REPO)}"' in open(os.path.join(HARNESS, "Cargo.toml")).read():
        return  # this copy of /verif was already pointed at the scratch worktree (tools/mutcheck.sh)
    tag = hashlib.sha256(os.path.realpath(REPO).encode()).hexdigest()[:10]
    alt = os.path.join(WORK, f"alt-harness-{tag}")
    src = os.path.join(ROOT, "harness")
    os.makedirs(alt, exist_ok=True)
    sh(["rsync", "-a", "--delete", "--exclude", "target", "--exclude", "Cargo.lock", src + "/", alt + "/"], check=True)
    for rel in ("Cargo.toml", ".cargo/config.toml"):
        p = os.path.join(alt, rel)
        s = open(p).read().replace('"/repo', '"' + os.path.realpath(REPO)).replace("/verif/harness/target", os.path.join(alt, "target"))
        open(p, "w").write(s)
    HARNESS = alt


def harness_build(bins=None, timeout=2400):
    _alt_harness()
    with Lock("cargo-" + hashlib.sha256(HARNESS.encode()).hexdigest()[:8]):
        lock_src = os.path.join(REPO, "Cargo.lock")
        lock_dst = os.path.join(HARNESS, "Cargo.lock")
        if not os.path.exists(lock_dst):
            shutil.copy(lock_src, lock_dst)
        cmd = ["cargo", "build", "--offline", "--quiet"]
        for b in bins or []:
            cmd += ["--bin", b]
        rc, out = sh(cmd, cwd=HARNESS, timeout=timeout)
        return rc == 0, out


def harness_run(binname, args, timeout=1200, input=None):
    exe = os.path.join(HARNESS, "target", "debug", binname)
    p = subprocess.run([exe] + [str(a) for a in args], stdout=subprocess.PIPE, stderr=subprocess.PIPE,
                       text=True, timeout=timeout, env=ENV, input=input)
    return p.returncode, p.stdout, p.stderr


# ------------------------------------------------------------------ cases ---
def eval_cases(prop_id, shards, requires, timeout=900):
    """Each shard is Gallina source that ends with `Eval vm_compute in <list N>`;
    returns the concatenated list of numbers printed (one list per shard)."""
    wd = os.path.join(WORK, prop_id)
    os.makedirs(wd, exist_ok=True)
    paths = []
    for i, body in enumerate(shards):
        p = os.path.join(wd, f"cases_{i}.v")
        with open(p, "w") as f:
            f.write(requires + "\nSet Printing Width 1000000.\nSet Printing Depth 10000000.\n" + body)
        paths.append(p)

    def run(p):
        rc, out = sh(["timeout", str(timeout), "coqc", "-noglob", "-Q", os.path.join(COQ, "theories"), "AG",
                      "-Q", os.path.join(COQ, "gen"), "AGgen", "-Q", wd, "AGcases", p], timeout=timeout + 30)
        return rc, out

    with ThreadPoolExecutor(max_workers=int(os.environ.get("VERIF_JOBS", "16"))) as ex:
        results = list(ex.map(run, paths))
    nums = []
    logs = []
    for (rc, out), p in zip(results, paths):
        if rc != 0:
            logs.append(f"{p}: coqc failed rc={rc}\n{out[-2000:]}")
            nums.append(None)
            continue
        m = re.search(r"=\s*\[(.*?)\]\s*:\s*list", out, re.S)
        if not m:
            logs.append(f"{p}: no result list in output\n{out[-500:]}")
            nums.append(None)
            continue
        nums.append([int(x) for x in re.findall(r"-?\d+", m.group(1))])
    return nums, logs


# --------------------------------------------------------------- findings ---
def known_findings(prop_id):
    p = os.path.join(ROOT, "known_findings.json")
    if not os.path.exists(p):
        return []
    data = json.load(open(p))
    out = [e for e in data.get("findings", []) if e.get("property") == prop_id]
    # fragments not yet merged into known_findings.json (tools/merge_findings.py)
    frag = os.path.join(ROOT, "findings", f"{prop_id}.json")
    if os.path.exists(frag):
        ids = {e.get("id") for e in out}
        out += [e for e in json.load(open(frag)).get("findings", []) if e.get("property") == prop_id and e.get("id") not in ids]
    return out


# --------------------------------------------------------------- evidence ---
def write_evidence(prop_id, tier, seed, level, coverage, wall_s, violations, assumptions):
    os.makedirs(EVID, exist_ok=True)
    ev = {"property_id": prop_id, "tier": tier, "seed": int(seed), "level": level, "coverage": coverage,
          "assumptions": assumptions, "wall_s": round(wall_s, 2), "violations": int(violations)}
    with open(os.path.join(EVID, f"{prop_id}.json"), "w") as f:
        json.dump(ev, f, indent=1, sort_keys=True)


def write_replay(prop_id, tag, payload):
    os.makedirs(REPLAYS, exist_ok=True)
    h = hashlib.sha256(json.dumps(payload, sort_keys=True).encode()).hexdigest()[:12]
    p = os.path.join(REPLAYS, f"{prop_id}-{tag}-{h}.json")
    with open(p, "w") as f:
        json.dump(payload, f, indent=1, sort_keys=True)
    return p


class Report:
    """Collects the outcome of one check and prints the interface lines."""

    def __init__(self, prop_id, tier, seed):
        self.prop_id, self.tier, self.seed = prop_id, tier, seed
        self.t0 = time.time()
        self.violations = []      # (replay_path, text, no_failing_input)
        self.known = []           # strings
        self.known_hits = {}      # class id -> number of cases
        self.broken = []          # obligations / correspondences that no longer check
        self.notes = []

    def violation(self, tag, payload, what):
        p = write_replay(self.prop_id, tag, payload)
        self.violations.append((p, what, False))

    def broken_obligation(self, what):
        self.broken.append(what)

    def known_finding(self, what):
        if what not in self.known:
            self.known.append(what)

    def known_or_violation(self, class_id, payload, what):
        """A failing case that falls in finding class `class_id`: reported as
        KNOWN-FINDING if known_findings.json lists that class as open,
        otherwise it is a violation (new, or a fixed finding that returned)."""
        for e in known_findings(self.prop_id):
            if e.get("id") == class_id and e.get("status") == "open":
                self.known_finding(f"[{class_id}] {e.get('what', what)}")
                self.known_hits[class_id] = self.known_hits.get(class_id, 0) + 1
                return True
        if not any(v[1].startswith(f"[{class_id}]") for v in self.violations):
            self.violation(class_id, payload, f"[{class_id}] {what}")
        return False

    def finish(self, level, coverage, assumptions):
        # a broken obligation / correspondence with no concrete failing input
        if self.broken and not self.violations:
            p = write_replay(self.prop_id, "obligation", {"property": self.prop_id, "no_longer_checks": self.broken,
                                                          "note": "no failing input found by the search"})
            self.violations.append((p, "; ".join(self.broken)[:300], True))
        for k in self.known:
            print(f"KNOWN-FINDING: property={self.prop_id} {k}")
        for p, what, nfi in self.violations:
            rel = os.path.relpath(p, ROOT)
            print(f"VIOLATION property={self.prop_id} replay={rel} {what}" + (" no-failing-input-found" if nfi else ""))
        coverage = dict(coverage)
        coverage.setdefault("known_findings_reported", self.known)
        coverage.setdefault("broken_obligations", self.broken)
        write_evidence(self.prop_id, self.tier, self.seed, level, coverage, time.time() - self.t0,
                       len(self.violations), assumptions)
        print(f"{self.prop_id}: tier={self.tier} seed={self.seed} violations={len(self.violations)} "
              f"known={len(self.known)} wall={time.time() - self.t0:.1f}s")
        return 1 if self.violations else 0


# ------------------------------------------------------ standard check flow --
def _parse_case_file(path):
    """DEF\\tname\\tgallina | <KIND>\\tgallina\\tjson-meta  (one per line)."""
    defs, streams, names = {}, {}, None
    if not os.path.exists(path):
        return defs, streams, names
    with open(path, encoding="utf-8") as f:
        for idx, ln in enumerate(f):
            ln = ln.rstrip("\n")
            if not ln:
                continue
            kind, g, meta = ln.split("\t", 2)
            if kind == "DEF":
                defs[g] = meta
            elif kind == "NAMES":
                names = json.loads(meta)
            else:
                try:
                    m = json.loads(meta) if meta else {}
                except json.JSONDecodeError:
                    m = {"raw": meta}
                streams.setdefault(kind, []).append((g, m, idx))
    return defs, streams, names


def _evaluate(spec, defs, streams, rep):
    """Evaluate every stream of the spec inside Coq; returns
    {kind: [(gallina, meta, idx, verdict)]}."""
    pid = spec["pid"]
    shards, index = [], []
    for st in spec["streams"]:
        items = streams.get(st["kind"], [])
        per = st.get("per_shard", 60)
        for i in range(0, len(items), per):
            chunk = items[i:i + per]
            used = []
            for _, m, _ in chunk:
                for u in m.get("uses", []):
                    if u not in used:
                        used.append(u)
            body = (st["requires"] + "\n") if st.get("requires") else ""   # a borrowed stream imports its own module last
            pref = chunk[0][1].get("_pref", "") if chunk else ""
            body += "".join(f"Definition {u[len(pref):] if pref and u.startswith(pref) else u} : {st.get('def_type', spec['def_type'])} := {defs[u]}.\n"
                            for u in used if u in defs)
            body += f"Definition cases : list {st['type']} := [\n" + ";\n".join(g for g, _, _ in chunk) + "].\n"
            body += f"Eval vm_compute in map ({st['eval']}) cases.\n"
            shards.append(body)
            index.append((st["kind"], chunk))
    out = {}
    if not shards:
        return out
    nums, logs = eval_cases(pid, shards, spec["requires"] + "\nOpen Scope N_scope.\n", timeout=spec.get("coqc_timeout", 900))
    for lg in logs:
        rep.broken_obligation("model evaluation failed: " + lg[:400])
    for (kind, chunk), res in zip(index, nums):
        if res is None:
            continue
        if len(res) != len(chunk):
            rep.broken_obligation(f"model evaluation returned {len(res)} verdicts for {len(chunk)} {kind} cases")
            continue
        out.setdefault(kind, []).extend((g, m, idx, v) for (g, m, idx), v in zip(chunk, res))
    return out


def _judge(spec, results, defs, rep, seed, n, counts, searching=False):
    """Turn verdict codes into KNOWN-FINDING / VIOLATION / broken-correspondence."""
    by_kind = {st["kind"]: st for st in spec.get("streams", [])}
    for kind, items in results.items():
        stq = by_kind.get(kind, {})
        classes = stq.get("classes", spec.get("classes", {}))
        what = stq.get("what_violation", spec.get("what_violation", "property fails"))
        for g, m, idx, v in items:
            counts[v] = counts.get(v, 0) + 1
            payload = {"property": spec["pid"], "bin": spec["bin"], "seed": seed, "n": n, "line_index": idx, "kind": kind,
                       "case": g, "meta": m, "defs": {u: defs.get(u) for u in m.get("uses", [])}, "verdict": v}
            text = str(m.get("text", m))[:160].replace("\n", " ")
            if v == 0:
                continue
            if 100 <= v < 200:
                cid = classes.get(v - 100, f"class-{v - 100}")
                rep.known_or_violation(cid, payload, f"{what} on {text}")
            elif v == 2:
                if not any(x[1].startswith("[theorem-gap]") for x in rep.violations):
                    rep.violation("theorem-gap", payload, f"[theorem-gap] implementation = model but the specification fails outside every known class on {text}")
            elif v == 4:
                if sum(1 for x in rep.violations if x[1].startswith("[impl]")) < 3:
                    rep.violation("impl", payload, f"[impl] {what} on {text}")
            elif v == 3 or 500 <= v < 600:
                if not searching:
                    rep.broken_obligation(f"correspondence {spec['pid']}/{kind}: implementation differs from the model on {text}")
            else:
                rep.broken_obligation(f"unexpected verdict code {v} on {text}")


def _run_bins(spec, sd, nn, wd, rep=None):
    """Run the harness binary of the spec and every entry of spec['extra_bins']
    ({bin, extra_args, n_factor}); cases of all of them are merged (line indices of
    the k-th extra binary are offset by k*1000000 so that replays stay unambiguous)."""
    defs, streams, names = {}, {}, None
    todo = [(spec["bin"], spec.get("extra_args", []), 1.0, "")]
    for eb in spec.get("extra_bins", []):
        todo.append((eb["bin"], eb.get("extra_args", []), eb.get("n_factor", 1.0), eb.get("kind_prefix", "")))
    for k, (b, xa, fac, pref) in enumerate(todo):
        cf = os.path.join(wd, f"{b}.cases")
        if os.path.exists(cf):
            os.remove(cf)
        try:
            rc, out, err = harness_run(b, [sd, max(1, int(nn * fac)), wd] + xa, timeout=spec.get("harness_timeout", 1200))
        except subprocess.TimeoutExpired:
            rc, out, err = 124, "", "timeout"
        if rc != 0 and rep is not None:
            rep.broken_obligation(f"harness {b} exited {rc}: {err[-400:]}")
        d, st, nm = _parse_case_file(cf)
        # kind_prefix keeps the stream kinds AND the shared definitions of a borrowed harness apart
        # from the spec's own (two harnesses may both call their schema "fam")
        defs.update({pref + u: t for u, t in d.items()})
        names = names or nm
        for kd, v in st.items():
            for g, m, idx in v:
                if pref and isinstance(m, dict):
                    m = dict(m, uses=[pref + u for u in m.get("uses", [])], _pref=pref)
                streams.setdefault(pref + kd, []).append((g, m, idx + k * 1000000))
    return defs, streams, names


def run_standard(spec, tier, seed, replay=None):
    """facts -> proof obligations -> harness -> model evaluation -> verdict.
    spec keys: pid, facts[], bin, requires, def_type, streams[{kind,type,eval,per_shard}],
    classes{k:id}, n_quick, n_thorough, level, assumptions[], trusted[], rule, allowed_axioms, what_violation."""
    pid = spec["pid"]
    rep = Report(pid, tier, seed)
    n = spec["n_quick"] if tier == "quick" else spec["n_thorough"]
    cov = {"checker_cmd": f"make -C coq props/{pid}.vo (coqc 8.16.1 full .vo build; Print Assumptions vs allowlist; forbidden-token grep)"}
    if spec.get("facts"):
        ok, log = run_facts(spec["facts"])
        cov["facts"] = log.strip().splitlines()
        if not ok:
            rep.broken_obligation("facts translator: " + (" | ".join(l for l in log.strip().splitlines() if "UNSUPPORTED" in l) or log.strip())[:400])
            # the committed baseline of the rejected generators' output is put in
            # place so that the SEARCH for a concrete failing input still has a
            # model to run (the rejection above is reported whatever it finds)
            failed = re.findall(r"^FACTS-UNSUPPORTED (\w+):", log, re.M)
            rc_b, out_b = sh([sys.executable, os.path.join(ROOT, "tools", "facts.py"), "--restore-baseline"] + failed, timeout=60)
            cov["facts_baseline_used_for_search"] = out_b.strip()
    pr = check_props(pid, allowed_axioms=spec.get("allowed_axioms", frozenset()))
    cov.update({"obligations": pr["obligations"], "discharged": pr["discharged"], "theorems": pr["theorems"],
                "axioms": pr.get("axioms", [])})
    if not pr["ok"]:
        for f in pr["failures"]:
            rep.broken_obligation("coq: " + f)
    counts, samples, distinct, nontrivial, total = {}, [], set(), 0, 0
    ok, log = harness_build([spec["bin"]] + [eb["bin"] for eb in spec.get("extra_bins", [])])
    wd = os.path.join(WORK, pid)
    os.makedirs(wd, exist_ok=True)
    if not ok:
        rep.broken_obligation("harness does not build against /repo: " + log[-600:])
    else:
        runs = [(seed, n)]
        if replay:
            rp = json.load(open(replay))
            runs = [(rp.get("seed", seed), rp.get("n", n))]
        for k, (sd, nn) in enumerate(runs):
            defs, streams, names = _run_bins(spec, sd, nn, wd, rep)
            if replay:
                want = rp.get("line_index")
                streams = {kd: [x for x in v if x[2] == want] for kd, v in streams.items()}
            results = _evaluate(spec, defs, streams, rep)
            _judge(spec, results, defs, rep, sd, nn, counts)
            for kind, items in results.items():
                for g, m, idx, v in items:
                    total += 1
                    key = (kind, m.get("text", g))
                    if key not in distinct:
                        distinct.add(key)
                        if m.get("nontrivial", True):
                            nontrivial += 1
                    if len(samples) < 5 and (len(samples) < 3 or v != 0):
                        samples.append({"kind": kind, "case": m.get("text", g[:300]), "impl": m.get("impl"), "verdict": v})
                    if replay:
                        print(f"REPLAY {kind} verdict={v} meta={json.dumps(m)[:600]}")
            for kd, v in streams.items():
                if kd not in [s["kind"] for s in spec["streams"]]:
                    cov.setdefault("other_lines", {})[kd] = len(v)
        # search: something no longer checks and no concrete failing input yet
        if rep.broken and not rep.violations and not replay and ok:
            sd, nn = seed + 7919, n * spec.get("search_factor", 8)
            try:
                defs, streams, names = _run_bins(spec, sd, nn, wd)
                results = _evaluate(spec, defs, streams, rep)
                sc = {}
                _judge(spec, results, defs, rep, sd, nn, sc, searching=True)
                cov["search"] = {"seed": sd, "n": nn, "verdict_counts": {str(k): v for k, v in sorted(sc.items())}}
            except subprocess.TimeoutExpired:
                cov["search"] = "timeout"
    cov.update({
        "evaluations": total, "distinct_nontrivial": nontrivial, "rule": spec.get("rule", ""),
        "samples": samples or [{"note": "no case evaluated"}],
        "verdict_counts": {str(k): v for k, v in sorted(counts.items())},
        "traces_validated_against_impl": total,
        "trusted_base": ["Coq 8.16.1 kernel; vm_compute in finite/witness lemmas; no native_compute"] + spec.get("trusted", []),
        "known_classes_hit": rep.known_hits,
    })
    if spec.get("explanation"):
        cov["explanation"] = spec["explanation"]
    return rep.finish(spec.get("level", "proof"), cov, spec.get("assumptions", []))

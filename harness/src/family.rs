//! The static, derive-built schema family with data-driven resolvers used by
//! the executor properties (C01, C03, C04, C05, ...).  Every object type has
//! the same field set; what a resolver returns is read from a `World`
//! (request data), keyed by (node id, field name).  Resolvers log start/end
//! events and may block on a gate opened by the harness scheduler.
use std::collections::{HashMap, HashSet};
use std::sync::Mutex;

use async_graphql::*;
use futures_channel::oneshot;

#[derive(Clone, Debug, PartialEq)]
pub enum Out {
    Err,
    Null,
    Int(i64),
    Float(f64),
    Str(String),
    Bool(bool),
    Enum(String),
    Ref(usize),
    List(Vec<Out>),
}

#[derive(Clone, Copy, Debug, PartialEq, Eq)]
pub enum NodeTy {
    Query,
    Mutation,
    A,
    B,
    C,
}

impl NodeTy {
    pub fn name(self) -> &'static str {
        match self {
            NodeTy::Query => "Query",
            NodeTy::Mutation => "Mutation",
            NodeTy::A => "A",
            NodeTy::B => "B",
            NodeTy::C => "C",
        }
    }
}

#[derive(Clone, Debug)]
pub enum Event {
    Start(String, usize, String), // path, node id, field
    End(String),
}

#[derive(Default)]
pub struct World {
    pub nodes: Vec<(Option<NodeTy>, HashMap<String, Out>)>,
    pub trace: Mutex<Vec<Event>>,
    /// response paths whose resolver blocks until the scheduler opens the gate
    pub gated: HashSet<String>,
    pub waiting: Mutex<Vec<(String, oneshot::Sender<()>)>>,
}

impl World {
    pub fn ty(&self, nid: usize) -> Option<NodeTy> {
        self.nodes.get(nid).and_then(|n| n.0)
    }
    pub fn out(&self, nid: usize, field: &str) -> Out {
        self.nodes.get(nid).and_then(|n| n.1.get(field).cloned()).unwrap_or_else(|| default_out(nid, field))
    }
}

/// Outcome of a field the world does not mention (must agree with Exec.v's default_out).
pub fn default_out(nid: usize, field: &str) -> Out {
    match field {
        "id" => Out::Int(nid as i64),
        "score" => Out::Float(1.5),
        "kind" => Out::Enum("X".into()),
        "b" => Out::Err,
        "bs" | "aList" | "nodes" | "abs" | "grid" => Out::List(vec![]),
        _ => Out::Null,
    }
}

pub fn path_of(ctx: &Context<'_>) -> String {
    match &ctx.path_node {
        Some(node) => node.to_string_vec().join("/"),
        None => String::new(),
    }
}

pub trait FromOut: Sized {
    fn from_out(o: &Out, w: &World) -> Result<Self>;
}

impl FromOut for i32 {
    fn from_out(o: &Out, _: &World) -> Result<Self> {
        match o {
            Out::Int(i) => Ok(*i as i32),
            _ => Err(Error::new("shape")),
        }
    }
}
impl FromOut for f64 {
    fn from_out(o: &Out, _: &World) -> Result<Self> {
        match o {
            Out::Float(f) => Ok(*f),
            Out::Int(i) => Ok(*i as f64),
            _ => Err(Error::new("shape")),
        }
    }
}
impl FromOut for String {
    fn from_out(o: &Out, _: &World) -> Result<Self> {
        match o {
            Out::Str(s) => Ok(s.clone()),
            _ => Err(Error::new("shape")),
        }
    }
}
impl FromOut for bool {
    fn from_out(o: &Out, _: &World) -> Result<Self> {
        match o {
            Out::Bool(b) => Ok(*b),
            _ => Err(Error::new("shape")),
        }
    }
}
impl FromOut for Kind {
    fn from_out(o: &Out, _: &World) -> Result<Self> {
        match o {
            Out::Enum(s) if s == "X" => Ok(Kind::X),
            Out::Enum(s) if s == "Y" => Ok(Kind::Y),
            _ => Err(Error::new("shape")),
        }
    }
}
impl<T: FromOut> FromOut for Option<T> {
    fn from_out(o: &Out, w: &World) -> Result<Self> {
        match o {
            Out::Null => Ok(None),
            o => T::from_out(o, w).map(Some),
        }
    }
}
impl<T: FromOut> FromOut for Vec<T> {
    fn from_out(o: &Out, w: &World) -> Result<Self> {
        match o {
            Out::List(l) => l.iter().map(|x| T::from_out(x, w)).collect(),
            _ => Err(Error::new("shape")),
        }
    }
}

#[derive(Enum, Copy, Clone, Eq, PartialEq, Debug)]
pub enum Kind {
    X,
    Y,
}

macro_rules! obj_from_out {
    ($t:ident, $nt:expr) => {
        impl FromOut for $t {
            fn from_out(o: &Out, w: &World) -> Result<Self> {
                match o {
                    Out::Ref(n) if w.ty(*n) == Some($nt) => Ok($t { nid: *n }),
                    _ => Err(Error::new("shape")),
                }
            }
        }
    };
}

/// The common resolver: log, wait for the gate if any, convert the outcome.
pub async fn fetch<T: FromOut>(ctx: &Context<'_>, nid: usize, field: &str) -> Result<T> {
    crate::genschema::run_probe(ctx);
    let w = ctx.data_unchecked::<std::sync::Arc<World>>().clone();
    let path = path_of(ctx);
    w.trace.lock().unwrap().push(Event::Start(path.clone(), nid, field.to_string()));
    if w.gated.contains(&path) {
        let (tx, rx) = oneshot::channel();
        w.waiting.lock().unwrap().push((path.clone(), tx));
        let _ = rx.await;
    }
    let o = w.out(nid, field);
    w.trace.lock().unwrap().push(Event::End(path));
    match o {
        Out::Err => Err(Error::new("boom")),
        o => T::from_out(&o, &w),
    }
}

macro_rules! object_type {
    ($t:ident) => {
        #[derive(Clone, Debug)]
        pub struct $t {
            pub nid: usize,
        }
        #[Object]
        impl $t {
            pub async fn id(&self, ctx: &Context<'_>) -> Result<i32> {
                fetch(ctx, self.nid, "id").await
            }
            pub async fn name(&self, ctx: &Context<'_>) -> Result<Option<String>> {
                fetch(ctx, self.nid, "name").await
            }
            async fn score(&self, ctx: &Context<'_>) -> Result<f64> {
                fetch(ctx, self.nid, "score").await
            }
            async fn ratio(&self, ctx: &Context<'_>) -> Result<Option<f64>> {
                fetch(ctx, self.nid, "ratio").await
            }
            async fn flag(&self, ctx: &Context<'_>) -> Result<Option<bool>> {
                fetch(ctx, self.nid, "flag").await
            }
            async fn kind(&self, ctx: &Context<'_>) -> Result<Kind> {
                fetch(ctx, self.nid, "kind").await
            }
            async fn a(&self, ctx: &Context<'_>) -> Result<Option<A>> {
                fetch(ctx, self.nid, "a").await
            }
            async fn b(&self, ctx: &Context<'_>) -> Result<B> {
                fetch(ctx, self.nid, "b").await
            }
            async fn bs(&self, ctx: &Context<'_>) -> Result<Vec<B>> {
                fetch(ctx, self.nid, "bs").await
            }
            async fn cs(&self, ctx: &Context<'_>) -> Result<Option<Vec<Option<C>>>> {
                fetch(ctx, self.nid, "cs").await
            }
            async fn a_list(&self, ctx: &Context<'_>) -> Result<Vec<Option<A>>> {
                fetch(ctx, self.nid, "aList").await
            }
            async fn cs_nn(&self, ctx: &Context<'_>) -> Result<Option<Vec<C>>> {
                fetch(ctx, self.nid, "csNn").await
            }
            async fn node(&self, ctx: &Context<'_>) -> Result<Option<Node>> {
                fetch(ctx, self.nid, "node").await
            }
            async fn nodes(&self, ctx: &Context<'_>) -> Result<Vec<Node>> {
                fetch(ctx, self.nid, "nodes").await
            }
            async fn ab(&self, ctx: &Context<'_>) -> Result<Option<Pair>> {
                fetch(ctx, self.nid, "ab").await
            }
            async fn abs(&self, ctx: &Context<'_>) -> Result<Vec<Option<Pair>>> {
                fetch(ctx, self.nid, "abs").await
            }
            async fn grid(&self, ctx: &Context<'_>) -> Result<Vec<Vec<i32>>> {
                fetch(ctx, self.nid, "grid").await
            }
            async fn named(&self, ctx: &Context<'_>) -> Result<Option<Named>> {
                fetch(ctx, self.nid, "named").await
            }
        }
    };
}

object_type!(Query);
object_type!(Mutation);
object_type!(A);
object_type!(B);
object_type!(C);
obj_from_out!(A, NodeTy::A);
obj_from_out!(B, NodeTy::B);
obj_from_out!(C, NodeTy::C);

#[derive(Interface)]
#[graphql(field(name = "id", ty = "i32"), field(name = "name", ty = "Option<String>"))]
pub enum Node {
    A(A),
    B(B),
    C(C),
}

#[derive(Interface)]
#[graphql(field(name = "name", ty = "Option<String>"))]
pub enum Named {
    A(A),
    B(B),
}

#[derive(Union)]
pub enum Pair {
    A(A),
    B(B),
}

impl FromOut for Node {
    fn from_out(o: &Out, w: &World) -> Result<Self> {
        match o {
            Out::Ref(n) => match w.ty(*n) {
                Some(NodeTy::A) => Ok(Node::A(A { nid: *n })),
                Some(NodeTy::B) => Ok(Node::B(B { nid: *n })),
                Some(NodeTy::C) => Ok(Node::C(C { nid: *n })),
                _ => Err(Error::new("shape")),
            },
            _ => Err(Error::new("shape")),
        }
    }
}
impl FromOut for Named {
    fn from_out(o: &Out, w: &World) -> Result<Self> {
        match o {
            Out::Ref(n) => match w.ty(*n) {
                Some(NodeTy::A) => Ok(Named::A(A { nid: *n })),
                Some(NodeTy::B) => Ok(Named::B(B { nid: *n })),
                _ => Err(Error::new("shape")),
            },
            _ => Err(Error::new("shape")),
        }
    }
}
impl FromOut for Pair {
    fn from_out(o: &Out, w: &World) -> Result<Self> {
        match o {
            Out::Ref(n) => match w.ty(*n) {
                Some(NodeTy::A) => Ok(Pair::A(A { nid: *n })),
                Some(NodeTy::B) => Ok(Pair::B(B { nid: *n })),
                _ => Err(Error::new("shape")),
            },
            _ => Err(Error::new("shape")),
        }
    }
}

pub type FamilySchema = Schema<Query, Mutation, EmptySubscription>;

pub fn build() -> SchemaBuilder<Query, Mutation, EmptySubscription> {
    Schema::build(Query { nid: 0 }, Mutation { nid: 1 }, EmptySubscription)
}

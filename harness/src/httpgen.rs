//! Shared by the C23 and C24 binaries (included with #[path]): an own JSON
//! tree with a randomising printer, string generators with arbitrary
//! characters, percent-encoding, multipart bodies, and Gallina printers for
//! decoded requests (coq/theories/Http.v).
#![allow(dead_code)]
use std::fmt::Write as _;

use agv_harness::*;
use async_graphql::{BatchRequest, ParseRequestError, Request, Value};

#[derive(Clone, Debug, PartialEq)]
pub enum J {
    Null,
    Bool(bool),
    Int(i128),
    Float(f64),
    Str(String),
    Arr(Vec<J>),
    Obj(Vec<(String, J)>),
}

pub const ODD_CHARS: &[char] = &[
    ' ', '"', '\\', '/', '\n', '\r', '\t', '\u{0}', '\u{1}', '\u{8}', '\u{c}', '\u{1f}', '\u{7f}', '&', '=', '+', '%', ';', '#', '?', '{', '}', '[', ']', ':', ',', '.', '-', '_', '*', '\'', '<', '>', '$', '@', '!',
    '\u{80}', '\u{e9}', '\u{7ff}', '\u{800}', '\u{2028}', '\u{fffd}', '\u{ffff}', '\u{10000}', '\u{1f600}', '\u{10ffff}', '\u{d7ff}', '\u{e000}',
];

pub fn gen_char(r: &mut Rng) -> char {
    match r.below(10) {
        0..=4 => (b'a' + r.below(26) as u8) as char,
        5 => (b'0' + r.below(10) as u8) as char,
        6 => (b'A' + r.below(26) as u8) as char,
        7 | 8 => *r.pick(ODD_CHARS),
        _ => loop {
            let c = r.below(0x110000) as u32;
            if let Some(c) = char::from_u32(c) {
                break c;
            }
        },
    }
}

pub fn gen_str(r: &mut Rng, max: usize) -> String {
    let n = r.below(max + 1);
    (0..n).map(|_| gen_char(r)).collect()
}

pub fn gen_key(r: &mut Rng) -> String {
    match r.below(8) {
        0 => gen_str(r, 4),
        1 => String::new(),
        _ => {
            let n = 1 + r.below(3);
            (0..n).map(|_| (b'a' + r.below(4) as u8) as char).collect()
        }
    }
}

/// random JSON tree; `dups` allows duplicate member names in objects
pub fn gen_j(r: &mut Rng, depth: usize, dups: bool) -> J {
    let k = if depth == 0 { r.below(6) } else { r.below(9) };
    match k {
        0 => J::Null,
        1 => J::Bool(r.chance(1, 2)),
        2 => match r.below(8) {
            0 => J::Int(i64::MIN as i128),
            1 => J::Int(u64::MAX as i128),
            2 => J::Int(i64::MAX as i128 + 1),
            3 => J::Int(0),
            _ => J::Int(r.range(-1000, 1000) as i128),
        },
        3 => {
            let fs = [1.5, -0.25, 1e100, 1e-7, 2.0, -0.0, 5e-324, f64::MAX, 123456.789e3, 0.1];
            J::Float(*r.pick(&fs))
        }
        4 | 5 => J::Str(gen_str(r, 6)),
        6 => {
            let n = r.below(4);
            J::Arr((0..n).map(|_| gen_j(r, depth - 1, dups)).collect())
        }
        _ => J::Obj(gen_members(r, depth - 1, dups, 4)),
    }
}

pub fn gen_members(r: &mut Rng, depth: usize, dups: bool, max: usize) -> Vec<(String, J)> {
    let n = r.below(max + 1);
    let mut m: Vec<(String, J)> = vec![];
    for _ in 0..n {
        let k = gen_key(r);
        if !dups && m.iter().any(|(k2, _)| *k2 == k) {
            continue;
        }
        m.push((k, gen_j(r, depth, dups)));
    }
    m
}

fn ws(r: &mut Rng, o: &mut String) {
    if r.chance(1, 4) {
        o.push_str(*r.pick(&[" ", "\n", "\t", "\r\n", "  "]));
    }
}

pub fn print_jstr(r: &mut Rng, s: &str, o: &mut String) {
    o.push('"');
    for c in s.chars() {
        let cu = c as u32;
        if c == '"' || c == '\\' || cu < 0x20 {
            match c {
                '"' => o.push_str("\\\""),
                '\\' => o.push_str("\\\\"),
                '\n' if r.chance(1, 2) => o.push_str("\\n"),
                '\r' if r.chance(1, 2) => o.push_str("\\r"),
                '\t' if r.chance(1, 2) => o.push_str("\\t"),
                '\u{8}' if r.chance(1, 2) => o.push_str("\\b"),
                '\u{c}' if r.chance(1, 2) => o.push_str("\\f"),
                _ => {
                    if r.chance(1, 2) {
                        write!(o, "\\u{:04x}", cu).unwrap()
                    } else {
                        write!(o, "\\u{:04X}", cu).unwrap()
                    }
                }
            }
        } else if r.chance(1, 8) {
            // escape although not required
            if c == '/' {
                o.push_str("\\/");
            } else {
                let mut buf = [0u16; 2];
                for u in c.encode_utf16(&mut buf) {
                    write!(o, "\\u{:04x}", u).unwrap();
                }
            }
        } else {
            o.push(c);
        }
    }
    o.push('"');
}

pub fn print_j(r: &mut Rng, v: &J, o: &mut String) {
    match v {
        J::Null => o.push_str("null"),
        J::Bool(b) => o.push_str(if *b { "true" } else { "false" }),
        J::Int(i) => write!(o, "{}", i).unwrap(),
        J::Float(f) => {
            let s = format!("{:?}", f);
            o.push_str(&s);
        }
        J::Str(s) => print_jstr(r, s, o),
        J::Arr(l) => {
            o.push('[');
            ws(r, o);
            for (i, x) in l.iter().enumerate() {
                if i > 0 {
                    o.push(',');
                    ws(r, o);
                }
                print_j(r, x, o);
                ws(r, o);
            }
            o.push(']');
        }
        J::Obj(m) => {
            o.push('{');
            ws(r, o);
            for (i, (k, x)) in m.iter().enumerate() {
                if i > 0 {
                    o.push(',');
                    ws(r, o);
                }
                print_jstr(r, k, o);
                ws(r, o);
                o.push(':');
                ws(r, o);
                print_j(r, x, o);
                ws(r, o);
            }
            o.push('}');
        }
    }
}

pub fn j_text(r: &mut Rng, v: &J) -> String {
    let mut o = String::new();
    ws(r, &mut o);
    print_j(r, v, &mut o);
    ws(r, &mut o);
    o
}

/// a text that is not JSON (checked by the caller against serde_json)
pub fn broken_json(r: &mut Rng, good: &str) -> String {
    match r.below(8) {
        0 => {
            let cs: Vec<char> = good.chars().collect();
            if cs.len() < 2 {
                "{".to_string()
            } else {
                cs[..1 + r.below(cs.len() - 1)].iter().collect()
            }
        }
        1 => format!("{good} x"),
        2 => format!("{good}{good}"),
        3 => "{\"a\":1e400}".to_string(),
        4 => "{'a':1}".to_string(),
        5 => "{\"a\":\"\\ud800\"}".to_string(),
        6 => String::new(),
        _ => "{\"a\":1,}".to_string(),
    }
}

pub fn g_j(v: &J) -> String {
    match v {
        J::Null => "JNull".into(),
        J::Bool(b) => format!("(JBool {})", g_bool(*b)),
        J::Int(i) => format!("(JInt {})", g_z(*i)),
        J::Float(f) => format!("(JFloat {}%N)", f.to_bits()),
        J::Str(s) => format!("(JStr {})", g_str(s)),
        J::Arr(l) => format!("(JArr {})", g_list(l.iter(), g_j)),
        J::Obj(m) => format!("(JObj {})", g_members(m)),
    }
}

pub fn g_members(m: &[(String, J)]) -> String {
    g_list(m.iter(), |(k, x)| format!("({}, {})", g_str(k), g_j(x)))
}

pub fn const_to_j(v: &Value) -> J {
    match v {
        Value::Null => J::Null,
        Value::Number(n) => {
            if let Some(i) = n.as_i64() {
                J::Int(i as i128)
            } else if let Some(u) = n.as_u64() {
                J::Int(u as i128)
            } else {
                J::Float(n.as_f64().unwrap())
            }
        }
        Value::String(s) => J::Str(s.clone()),
        Value::Boolean(b) => J::Bool(*b),
        Value::Binary(b) => J::Str(format!("<binary {}>", b.len())),
        Value::Enum(n) => J::Str(format!("<enum {n}>")),
        Value::List(l) => J::Arr(l.iter().map(const_to_j).collect()),
        Value::Object(m) => J::Obj(m.iter().map(|(k, x)| (k.to_string(), const_to_j(x))).collect()),
    }
}

pub fn vars_of(r: &Request) -> Vec<(String, J)> {
    r.variables.iter().map(|(k, v)| (k.to_string(), const_to_j(v))).collect()
}

pub fn exts_of(r: &Request) -> Vec<(String, J)> {
    let mut x: Vec<(String, J)> = r.extensions.iter().map(|(k, v)| (k.clone(), const_to_j(v))).collect();
    x.sort_by(|a, b| a.0.cmp(&b.0));
    x
}

pub fn g_req_parts(q: &str, op: Option<&str>, vars: &[(String, J)], exts: &[(String, J)]) -> String {
    format!(
        "{{| r_query := {}; r_op := {}; r_vars := {}; r_exts := {} |}}",
        g_str(q),
        g_opt(op, g_str),
        g_members(vars),
        g_members(exts)
    )
}

pub fn g_request(r: &Request) -> String {
    g_req_parts(&r.query, r.operation_name.as_deref(), &vars_of(r), &exts_of(r))
}

pub fn err_kind(e: &ParseRequestError) -> u32 {
    match e {
        ParseRequestError::Io(_) => 1,
        ParseRequestError::InvalidRequest(_) => 2,
        ParseRequestError::InvalidFilesMap(_) => 3,
        ParseRequestError::InvalidMultipart(_) => 4,
        ParseRequestError::MissingOperatorsPart => 5,
        ParseRequestError::MissingMapPart => 6,
        ParseRequestError::NotUpload => 7,
        ParseRequestError::MissingFiles => 8,
        ParseRequestError::PayloadTooLarge => 9,
        ParseRequestError::UnsupportedBatch => 10,
        _ => 99,
    }
}

pub fn g_batch_outcome(r: &Option<Result<BatchRequest, ParseRequestError>>) -> String {
    match r {
        None => "Panic".into(),
        Some(Err(e)) => format!("(Err {}%N)", err_kind(e)),
        Some(Ok(BatchRequest::Single(r))) => format!("(Ok (BSingle {}))", g_request(r)),
        Some(Ok(BatchRequest::Batch(rs))) => format!("(Ok (BBatch {}))", g_list(rs.iter(), g_request)),
    }
}

pub fn g_req_outcome(r: &Option<Result<Request, ParseRequestError>>) -> String {
    match r {
        None => "Panic".into(),
        Some(Err(e)) => format!("(Err {}%N)", err_kind(e)),
        Some(Ok(r)) => format!("(Ok {})", g_request(r)),
    }
}

pub fn show_batch(r: &Option<Result<BatchRequest, ParseRequestError>>) -> String {
    match r {
        None => "PANIC".into(),
        Some(Err(e)) => format!("Err({e:?})"),
        Some(Ok(BatchRequest::Single(r))) => format!("Single({r:?})"),
        Some(Ok(BatchRequest::Batch(rs))) => format!("Batch({rs:?})"),
    }
}

pub fn show_req(r: &Option<Result<Request, ParseRequestError>>) -> String {
    match r {
        None => "PANIC".into(),
        Some(Err(e)) => format!("Err({e:?})"),
        Some(Ok(r)) => format!("{r:?}"),
    }
}

/// application/x-www-form-urlencoded with random choices among equivalent spellings
pub fn pct(r: &mut Rng, s: &str, o: &mut String) {
    for c in s.chars() {
        let raw_ok = !matches!(c, '&' | '=' | '+' | '%');
        if c == ' ' {
            o.push_str(if r.chance(1, 2) { "+" } else { "%20" });
        } else if c.is_ascii_alphanumeric() || matches!(c, '-' | '_' | '.' | '*') {
            if r.chance(1, 12) {
                write!(o, "%{:02X}", c as u32).unwrap();
            } else {
                o.push(c);
            }
        } else if raw_ok && r.chance(1, 3) {
            o.push(c);
        } else {
            let mut buf = [0u8; 4];
            for b in c.encode_utf8(&mut buf).bytes() {
                if r.chance(1, 2) {
                    write!(o, "%{:02X}", b).unwrap();
                } else {
                    write!(o, "%{:02x}", b).unwrap();
                }
            }
        }
    }
}

pub fn jstr(s: &str) -> String {
    serde_json::to_string(s).unwrap()
}

pub struct Part {
    pub name: Option<String>,
    pub filename: Option<String>,
    pub content_type: Option<String>,
    pub body: Vec<u8>,
}

/// multipart/form-data body.  Names and file names must not contain `"` CR LF.
pub fn multipart_body(boundary: &str, parts: &[Part]) -> Vec<u8> {
    let mut o: Vec<u8> = vec![];
    for p in parts {
        o.extend_from_slice(format!("--{boundary}\r\n").as_bytes());
        let mut cd = String::from("Content-Disposition: form-data");
        if let Some(n) = &p.name {
            write!(cd, "; name=\"{n}\"").unwrap();
        }
        if let Some(f) = &p.filename {
            write!(cd, "; filename=\"{f}\"").unwrap();
        }
        o.extend_from_slice(cd.as_bytes());
        o.extend_from_slice(b"\r\n");
        if let Some(ct) = &p.content_type {
            o.extend_from_slice(format!("Content-Type: {ct}\r\n").as_bytes());
        }
        o.extend_from_slice(b"\r\n");
        o.extend_from_slice(&p.body);
        o.extend_from_slice(b"\r\n");
    }
    o.extend_from_slice(format!("--{boundary}--\r\n").as_bytes());
    o
}

/// what the mime crate says about a Content-Type value (codec, trusted)
pub fn g_ctype(ct: Option<&str>) -> String {
    match ct {
        None => "CtOther".into(),
        Some(s) => match s.parse::<mime::Mime>() {
            Err(_) => "CtInvalid".into(),
            Ok(m) => {
                if m.type_() == mime::MULTIPART {
                    format!("(CtMultipart {})", g_bool(m.get_param("boundary").is_some()))
                } else {
                    "CtOther".into()
                }
            }
        },
    }
}

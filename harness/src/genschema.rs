//! A static `Schema<GenQuery, GenMutation, EmptySubscription>` whose registry
//! content is injected from a generated description, so that validation,
//! introspection and the executor of the *static* code path can be run on
//! generated type systems.  Resolvers are data-driven: scalars resolve to
//! fixed values, composite fields to a `GenObj` of the first possible type.
use std::borrow::Cow;
use std::sync::{Arc, RwLock};

use async_graphql::indexmap::{IndexMap, IndexSet};
use async_graphql::parser::types::Field;
use async_graphql::registry::{MetaField, MetaType, MetaTypeName, Registry};
use async_graphql::{
    CacheControl, ContainerType, Context, ContextSelectionSet, ObjectType, OutputType, Positioned, ServerResult, Value,
    resolver_utils::resolve_container,
};

/// Complexity rule of a field (a fixed menu, because the registry stores a
/// plain `fn` pointer).
#[derive(Clone, Copy, Debug, Default, PartialEq)]
pub enum Rule {
    #[default]
    Default,
    Const(usize),    // 0, 2, 5
    ChildMul(usize), // 2, 3
    ChildAdd(usize), // 3
    ArgMul(Option<usize>), // argument "n": usize, optional default 3
}

#[derive(Clone, Debug, Default)]
pub struct FieldDesc {
    pub name: String,
    pub ty: String,
    pub cc: CacheControl,
    pub rule: Rule,
    /// (name, type string) of arguments
    pub args: Vec<(String, String)>,
}

/// Number of generated resolver invocations (read and reset by harnesses).
pub static RESOLVER_CALLS: std::sync::atomic::AtomicU64 = std::sync::atomic::AtomicU64::new(0);

type Cx = fn(
    &async_graphql::VisitorContext<'_>,
    &[Positioned<async_graphql::parser::types::VariableDefinition>],
    &Field,
    usize,
) -> ServerResult<usize>;

pub fn rule_fn(r: Rule) -> Option<Cx> {
    match r {
        Rule::Default => None,
        Rule::Const(0) => Some(|_, _, _, _| Ok(0)),
        Rule::Const(2) => Some(|_, _, _, _| Ok(2)),
        Rule::Const(_) => Some(|_, _, _, _| Ok(5)),
        Rule::ChildMul(2) => Some(|_, _, _, c| Ok(2 * c)),
        Rule::ChildMul(_) => Some(|_, _, _, c| Ok(3 * c)),
        Rule::ChildAdd(_) => Some(|_, _, _, c| Ok(3 + c)),
        Rule::ArgMul(None) => Some(|ctx, vd, f, c| {
            let n: usize = ctx.param_value(vd, f, "n", None)?;
            Ok(n * c)
        }),
        Rule::ArgMul(Some(_)) => Some(|ctx, vd, f, c| {
            let n: usize = ctx.param_value(vd, f, "n", Some(|| 3usize))?;
            Ok(n * c)
        }),
    }
}

/// Canonical form of a rule (the constants actually registered).
pub fn rule_canon(r: Rule) -> Rule {
    match r {
        Rule::Const(0) => Rule::Const(0),
        Rule::Const(2) => Rule::Const(2),
        Rule::Const(_) => Rule::Const(5),
        Rule::ChildMul(2) => Rule::ChildMul(2),
        Rule::ChildMul(_) => Rule::ChildMul(3),
        Rule::ChildAdd(_) => Rule::ChildAdd(3),
        Rule::ArgMul(Some(_)) => Rule::ArgMul(Some(3)),
        x => x,
    }
}

#[derive(Clone, Debug)]
pub enum TypeDesc {
    Object { name: String, cc: CacheControl, fields: Vec<FieldDesc>, implements: Vec<String> },
    Interface { name: String, fields: Vec<FieldDesc>, possible: Vec<String> },
    Union { name: String, possible: Vec<String> },
}

impl TypeDesc {
    pub fn name(&self) -> &str {
        match self {
            TypeDesc::Object { name, .. } | TypeDesc::Interface { name, .. } | TypeDesc::Union { name, .. } => name,
        }
    }
}

#[derive(Clone, Debug, Default)]
pub struct SchemaDesc {
    pub types: Vec<TypeDesc>,
    pub query: String,
    pub mutation: Option<String>,
}

impl SchemaDesc {
    pub fn get(&self, name: &str) -> Option<&TypeDesc> {
        self.types.iter().find(|t| t.name() == name)
    }
    /// first possible object type of a (possibly abstract) named type
    pub fn first_object(&self, name: &str) -> Option<String> {
        match self.get(name)? {
            TypeDesc::Object { name, .. } => Some(name.clone()),
            TypeDesc::Interface { possible, .. } | TypeDesc::Union { possible, .. } => possible.first().cloned(),
        }
    }
}

static CURRENT: RwLock<Option<Arc<SchemaDesc>>> = RwLock::new(None);

type Probe = Box<dyn FnOnce(&Registry) + Send>;
static PROBE: std::sync::Mutex<Option<Probe>> = std::sync::Mutex::new(None);

/// Arrange for `f` to be called with the real registry by the next resolver
/// that calls `run_probe` (every generated resolver does).
pub fn set_probe(f: impl FnOnce(&Registry) + Send + 'static) {
    *PROBE.lock().unwrap() = Some(Box::new(f));
}

pub fn run_probe(ctx: &Context<'_>) {
    if let Some(f) = PROBE.lock().unwrap().take() {
        f(&ctx.schema_env.registry);
    }
}

pub fn set_current(d: SchemaDesc) {
    *CURRENT.write().unwrap() = Some(Arc::new(d));
}

pub fn current() -> Arc<SchemaDesc> {
    CURRENT.read().unwrap().clone().expect("no current schema description")
}

fn meta_fields(fields: &[FieldDesc]) -> IndexMap<String, MetaField> {
    let mut m = IndexMap::new();
    for f in fields {
        let mut mf = MetaField::new(f.name.clone(), f.ty.clone());
        mf.cache_control = f.cc;
        mf.compute_complexity = rule_fn(f.rule);
        for (an, aty) in &f.args {
            mf.args.insert(an.clone(), async_graphql::registry::MetaInputValue::new(an.clone(), aty.clone()));
        }
        m.insert(f.name.clone(), mf);
    }
    m
}

pub fn inject(registry: &mut Registry, d: &SchemaDesc) {
    <i32 as OutputType>::create_type_info(registry);
    <String as OutputType>::create_type_info(registry);
    <bool as OutputType>::create_type_info(registry);
    for t in &d.types {
        match t {
            TypeDesc::Object { name, cc, fields, implements } => {
                registry.types.insert(
                    name.clone(),
                    MetaType::Object {
                        name: name.clone(),
                        description: None,
                        fields: meta_fields(fields),
                        cache_control: *cc,
                        extends: false,
                        shareable: false,
                        resolvable: true,
                        inaccessible: false,
                        interface_object: false,
                        tags: vec![],
                        keys: None,
                        visible: None,
                        is_subscription: false,
                        rust_typename: Some("GenObj"),
                        directive_invocations: vec![],
                        requires_scopes: vec![],
                    },
                );
                for i in implements {
                    registry.add_implements(name, i);
                }
            }
            TypeDesc::Interface { name, fields, possible } => {
                registry.types.insert(
                    name.clone(),
                    MetaType::Interface {
                        name: name.clone(),
                        description: None,
                        fields: meta_fields(fields),
                        possible_types: possible.iter().cloned().collect::<IndexSet<_>>(),
                        extends: false,
                        inaccessible: false,
                        tags: vec![],
                        keys: None,
                        visible: None,
                        rust_typename: Some("GenObj"),
                        directive_invocations: vec![],
                        requires_scopes: vec![],
                    },
                );
            }
            TypeDesc::Union { name, possible } => {
                registry.types.insert(
                    name.clone(),
                    MetaType::Union {
                        name: name.clone(),
                        description: None,
                        possible_types: possible.iter().cloned().collect::<IndexSet<_>>(),
                        visible: None,
                        inaccessible: false,
                        tags: vec![],
                        rust_typename: Some("GenObj"),
                        directive_invocations: vec![],
                    },
                );
            }
        }
    }
}

/// A value of a generated object type.
pub struct GenObj {
    pub ty: String,
}

fn resolve_value_of<'a>(
    ctx: &'a Context<'a>,
    ty: &'a str,
) -> std::pin::Pin<Box<dyn std::future::Future<Output = ServerResult<Value>> + Send + 'a>> {
    Box::pin(async move {
        match MetaTypeName::create(ty) {
            MetaTypeName::NonNull(inner) => resolve_value_of(ctx, inner).await,
            MetaTypeName::List(inner) => {
                // one-element list
                let v = resolve_value_of(ctx, inner).await?;
                Ok(Value::List(vec![v]))
            }
            MetaTypeName::Named(n) => match n {
                "Int" => Ok(Value::from(1)),
                "String" => Ok(Value::from("s")),
                "Boolean" => Ok(Value::from(true)),
                _ => {
                    let d = current();
                    match d.first_object(n) {
                        Some(obj) => {
                            let o = GenObj { ty: obj };
                            let ctx_obj = ctx.with_selection_set(&ctx.item.node.selection_set);
                            resolve_container(&ctx_obj, &o).await
                        }
                        None => Ok(Value::Null),
                    }
                }
            },
        }
    })
}

impl GenObj {
    async fn field(&self, ctx: &Context<'_>) -> ServerResult<Option<Value>> {
        run_probe(ctx);
        RESOLVER_CALLS.fetch_add(1, std::sync::atomic::Ordering::SeqCst);
        let d = current();
        let name = ctx.item.node.name.node.as_str();
        if let Some(TypeDesc::Object { fields, .. }) = d.get(&self.ty)
            && let Some(f) = fields.iter().find(|f| f.name == name)
        {
            let ty = f.ty.clone();
            return resolve_value_of(ctx, &ty).await.map(Some);
        }
        Ok(None)
    }
}

macro_rules! gen_root {
    ($t:ident, $which:ident) => {
        impl OutputType for $t {
            fn type_name() -> Cow<'static, str> {
                Cow::Owned(current().$which())
            }
            fn introspection_type_name(&self) -> Cow<'static, str> {
                Cow::Owned(self.0.ty.clone())
            }
            fn create_type_info(registry: &mut Registry) -> String {
                inject(registry, &current());
                Self::type_name().into_owned()
            }
            async fn resolve(&self, ctx: &ContextSelectionSet<'_>, _field: &Positioned<Field>) -> ServerResult<Value> {
                resolve_container(ctx, self).await
            }
        }
        impl ContainerType for $t {
            async fn resolve_field(&self, ctx: &Context<'_>) -> ServerResult<Option<Value>> {
                self.0.field(ctx).await
            }
        }
        impl ObjectType for $t {}
    };
}

trait RootNames {
    fn query_name(&self) -> String;
    fn mutation_name(&self) -> String;
    fn obj_name(&self) -> String;
}
impl RootNames for SchemaDesc {
    fn query_name(&self) -> String {
        self.query.clone()
    }
    fn mutation_name(&self) -> String {
        self.mutation.clone().unwrap_or_else(|| "GenMutation".into())
    }
    fn obj_name(&self) -> String {
        "__GenObj".into()
    }
}

pub struct GenQuery(pub GenObj);
pub struct GenMutation(pub GenObj);
gen_root!(GenQuery, query_name);
gen_root!(GenMutation, mutation_name);

impl OutputType for GenObj {
    fn type_name() -> Cow<'static, str> {
        Cow::Borrowed("__GenObj")
    }
    fn introspection_type_name(&self) -> Cow<'static, str> {
        Cow::Owned(self.ty.clone())
    }
    fn create_type_info(_registry: &mut Registry) -> String {
        "__GenObj".into()
    }
    async fn resolve(&self, ctx: &ContextSelectionSet<'_>, _field: &Positioned<Field>) -> ServerResult<Value> {
        resolve_container(ctx, self).await
    }
}
impl ContainerType for GenObj {
    async fn resolve_field(&self, ctx: &Context<'_>) -> ServerResult<Option<Value>> {
        self.field(ctx).await
    }
}
impl ObjectType for GenObj {}

pub fn gen_query() -> GenQuery {
    GenQuery(GenObj { ty: current().query.clone() })
}
pub fn gen_mutation() -> GenMutation {
    GenMutation(GenObj { ty: current().mutation_name() })
}

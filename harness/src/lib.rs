//! Shared pieces of the correspondence harness: deterministic PRNG, name
//! interner, Gallina printers for documents/values, registry dump, and a
//! schema whose registry content is injected from a generated description.
#![allow(dead_code)]

pub mod family;
pub mod gallina;
pub mod genschema;
pub mod rng;

pub use gallina::*;
pub use rng::Rng;

use std::panic;

/// Run a closure, mapping a panic to None.
pub fn catch<T>(f: impl FnOnce() -> T + panic::UnwindSafe) -> Option<T> {
    let prev = panic::take_hook();
    panic::set_hook(Box::new(|_| {}));
    let r = panic::catch_unwind(f).ok();
    panic::set_hook(prev);
    r
}

/// Block on a future with the futures executor.
pub fn block_on<F: std::future::Future>(f: F) -> F::Output {
    futures_executor::block_on(f)
}

pub struct Args {
    pub seed: u64,
    pub n: usize,
    pub out: String,
    pub rest: Vec<String>,
}

/// `bin <seed> <n> <outdir> [rest..]`
pub fn parse_args() -> Args {
    let a: Vec<String> = std::env::args().collect();
    Args {
        seed: a.get(1).and_then(|s| s.parse().ok()).unwrap_or(1),
        n: a.get(2).and_then(|s| s.parse().ok()).unwrap_or(100),
        out: a.get(3).cloned().unwrap_or_else(|| ".".into()),
        rest: a.iter().skip(4).cloned().collect(),
    }
}

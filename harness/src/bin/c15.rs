//! C15 correspondence: random nested `ConstValue`s (strings over every
//! character class, integers over the i64/u64 range, floats from random bit
//! patterns, enums, lists, objects) are printed with the real `Display`, the
//! text is parsed back with the real `parse_query`, and the value is sent
//! through serde_json (value tree and text) and back.  Each case carries the
//! value, what the library printed and what it read back.
//!
//! streams:  PP    (value, Display text, Some(re-parsed value) | None)
//!           JSON  (value, serde_json::Value, deserialize(json value), from_str(to_string(value)))
use std::fmt::Write as _;

use agv_harness::*;
use async_graphql::parser::parse_query;
use async_graphql::parser::types::{DocumentOperations, Selection};
use async_graphql_value::{ConstValue, Name, Number};
use indexmap::IndexMap;

fn jstr(s: &str) -> String {
    serde_json::to_string(s).unwrap()
}

// --------------------------------------------------------- Gallina terms ---
fn g_num(n: &Number) -> String {
    if let Some(i) = n.as_i64() {
        format!("(CInt {})", g_z(i as i128))
    } else if let Some(u) = n.as_u64() {
        format!("(CInt {})", g_z(u as i128))
    } else {
        // a float travels as the text serde_json prints for it (shortest
        // round-trip digits); -0.0 and 0.0 stay distinguishable
        format!("(CFloat {})", g_str(&n.to_string()))
    }
}

fn g_cval(v: &ConstValue) -> String {
    match v {
        ConstValue::Null => "CNull".into(),
        ConstValue::Number(n) => g_num(n),
        ConstValue::String(s) => format!("(CStr {})", g_str(s)),
        ConstValue::Boolean(b) => format!("(CBool {})", g_bool(*b)),
        ConstValue::Binary(_) => "CNull".into(), // never generated, never produced by the parser
        ConstValue::Enum(n) => format!("(CEnum {})", g_str(n)),
        ConstValue::List(l) => format!("(CList {})", g_list(l.iter(), g_cval)),
        ConstValue::Object(m) => format!("(CObj {})", g_list(m.iter(), |(k, x)| format!("({}, {})", g_str(k), g_cval(x)))),
    }
}

fn g_json(v: &serde_json::Value) -> String {
    use serde_json::Value as J;
    match v {
        J::Null => "JNull".into(),
        J::Bool(b) => format!("(JBool {})", g_bool(*b)),
        J::Number(n) => match g_num(n) {
            s if s.starts_with("(CInt") => s.replacen("(CInt", "(JInt", 1),
            s => s.replacen("(CFloat", "(JFloat", 1),
        },
        J::String(s) => format!("(JStr {})", g_str(s)),
        J::Array(l) => format!("(JArr {})", g_list(l.iter(), g_json)),
        J::Object(m) => format!("(JObj {})", g_list(m.iter(), |(k, x)| format!("({}, {})", g_str(k), g_json(x)))),
    }
}

/// every float of the value: its printed digits and the digits of the float
/// that `str::parse::<Number>()` (the call in parse_number, and serde_json's
/// own text reader) returns for them
fn float_table(v: &ConstValue, acc: &mut Vec<(String, String)>) {
    match v {
        ConstValue::Number(n) if n.is_f64() => {
            let t = n.to_string();
            let back = t.parse::<Number>().map(|m| m.to_string()).unwrap_or_else(|_| "?".into());
            if !acc.iter().any(|(k, _)| *k == t) {
                acc.push((t, back));
            }
        }
        ConstValue::List(l) => l.iter().for_each(|x| float_table(x, acc)),
        ConstValue::Object(m) => m.values().for_each(|x| float_table(x, acc)),
        _ => {}
    }
}

fn g_table(v: &ConstValue) -> String {
    let mut t = vec![];
    float_table(v, &mut t);
    g_list(t.iter(), |(a, b)| format!("({}, {})", g_str(a), g_str(b)))
}

// ------------------------------------------------------------ generators ---
const NAMES: [&str; 14] = ["a", "b", "key", "_x", "A1", "RED", "on", "nullable", "trueColor", "falsey", "null_", "n", "t", "Z_9"];
const ENUMS: [&str; 16] = ["RED", "GREEN", "a", "_", "_1", "on", "E_1", "nul", "tru", "fals", "nullable", "trueColor", "falsey", "null_", "true1", "x"];

fn gen_char(r: &mut Rng) -> char {
    match r.below(16) {
        0 => char::from_u32(r.below(32) as u32).unwrap(),           // C0 controls (incl. \t \n \r)
        1 => char::from_u32(0x7f + r.below(33) as u32).unwrap(),    // DEL and C1 controls
        2 => *r.pick(&['"', '\\', '/', '\'', '#', ',', '{', '}', '[', ']', ':', '$', '@', '!']),
        3 => *r.pick(&['\u{feff}', '\u{2028}', '\u{2029}', '\u{a0}', '\u{ad}', '\u{200b}', '\u{fffd}', '\u{ffff}', '\u{d7ff}', '\u{e000}']),
        4 => char::from_u32(0x10000 + r.below(0x100000) as u32).unwrap_or('😀'),
        5 => *r.pick(&['é', 'ß', '日', '本', 'ж', 'Ω', '😀', 'ħ', 'ę']),
        6 => *r.pick(&['u', '0', '2', '7', 'n', 'r', 't', 'b', 'f']),
        7 => ' ',
        _ => (b'a' + r.below(26) as u8) as char,
    }
}

fn gen_string(r: &mut Rng) -> String {
    match r.below(12) {
        0 => String::new(),
        1 => "\"\"\"".into(),
        2 => "\\u0041".into(),
        3 => {
            // exactly one control character between plain text
            let c = if r.chance(1, 2) { r.below(32) as u32 } else { 0x7f + r.below(33) as u32 };
            format!("a{}b", char::from_u32(c).unwrap())
        }
        _ => {
            let n = r.below(8);
            (0..n).map(|_| gen_char(r)).collect()
        }
    }
}

fn gen_number(r: &mut Rng) -> Number {
    match r.below(12) {
        0 => (*r.pick(&[0i64, 1, -1, 42, i64::MAX, i64::MIN, i32::MAX as i64, -(1i64 << 53) - 1, 1 << 53])).into(),
        1 => (*r.pick(&[u64::MAX, i64::MAX as u64 + 1, 1u64 << 63, 10_000_000_000_000_000_000])).into(),
        2 => (r.next() as i64).into(),
        3 => r.next().into(),
        4 => (r.range(-1000, 1000)).into(),
        5 | 6 => {
            let f = *r.pick(&[0.0f64, -0.0, 1.0, -1.5, 0.1, 1e21, 1e-7, 5e-324, f64::MAX, f64::MIN_POSITIVE, 1.0 / 3.0, 123456789.125, 1e16, 9007199254740993.0, 2.2250738585072011e-308, 1e23, 8.41e21]);
            Number::from_f64(f).unwrap()
        }
        7 => {
            // decimal-looking floats
            let f = (r.range(-100000, 100000) as f64) / [1.0, 10.0, 100.0, 1000.0, 3.0, 7.0][r.below(6)];
            Number::from_f64(f).unwrap()
        }
        _ => loop {
            let f = f64::from_bits(r.next());
            if let Some(n) = Number::from_f64(f) {
                break n;
            }
        },
    }
}

fn gen_value(r: &mut Rng, depth: usize) -> ConstValue {
    let k = r.below(if depth == 0 { 8 } else { 11 });
    match k {
        0 => ConstValue::Null,
        1 | 2 => ConstValue::Number(gen_number(r)),
        3 | 4 | 5 => ConstValue::String(gen_string(r)),
        6 => ConstValue::Boolean(r.chance(1, 2)),
        7 => ConstValue::Enum(Name::new(*r.pick(&ENUMS))),
        8 | 9 => {
            let n = r.below(4);
            ConstValue::List((0..n).map(|_| gen_value(r, depth - 1)).collect())
        }
        _ => {
            let n = r.below(4);
            let mut m = IndexMap::new();
            for _ in 0..n {
                m.insert(Name::new(*r.pick(&NAMES)), gen_value(r, depth - 1));
            }
            ConstValue::Object(m)
        }
    }
}

// ------------------------------------------------------------- real code ---
/// parse `text` as the argument of a field with the real parser
fn reparse(text: &str) -> Option<ConstValue> {
    let doc = parse_query(format!("{{f(a: {})}}", text)).ok()?;
    let DocumentOperations::Single(op) = &doc.operations else {
        return None;
    };
    let Selection::Field(f) = &op.node.selection_set.node.items.first()?.node else {
        return None;
    };
    if f.node.arguments.len() != 1 || op.node.selection_set.node.items.len() != 1 {
        return None;
    }
    f.node.arguments[0].1.node.clone().into_const()
}

fn emit_pp(out: &mut String, v: &ConstValue) {
    let text = v.to_string();
    let back = catch(|| reparse(&text)).flatten();
    let same = back.as_ref() == Some(v);
    writeln!(
        out,
        "PP\t({}, {}, {}, {})\t{{\"text\":{},\"impl\":{},\"nontrivial\":{}}}",
        g_cval(v),
        g_str(&text),
        g_opt(back.as_ref(), g_cval),
        g_table(v),
        jstr(&format!("{:?}", v)),
        jstr(&format!("{} => {}", text, match &back { Some(b) => format!("{:?}{}", b, if same { "" } else { " (differs)" }), None => "rejected".into() })),
        !matches!(v, ConstValue::Null | ConstValue::Boolean(_))
    )
    .unwrap();
}

fn emit_json(out: &mut String, v: &ConstValue) {
    let j = serde_json::to_value(v).ok();
    let v1: Option<ConstValue> = j.as_ref().and_then(|j| serde_json::from_value(j.clone()).ok());
    let text = serde_json::to_string(v).ok();
    let v2: Option<ConstValue> = text.as_ref().and_then(|t| serde_json::from_str(t).ok());
    let Some(j) = j else {
        writeln!(out, "SHAPE\t\t{{\"text\":{},\"why\":\"serde_json::to_value failed\"}}", jstr(&format!("{:?}", v))).unwrap();
        return;
    };
    writeln!(
        out,
        "JSON\t({}, {}, {}, {}, {})\t{{\"text\":{},\"impl\":{},\"nontrivial\":{}}}",
        g_cval(v),
        g_json(&j),
        g_opt(v1.as_ref(), g_cval),
        g_opt(v2.as_ref(), g_cval),
        g_table(v),
        jstr(&format!("{:?}", v)),
        jstr(&format!("{} => {:?}", text.unwrap_or_default(), v2)),
        !matches!(v, ConstValue::Null | ConstValue::Boolean(_))
    )
    .unwrap();
}

fn main() {
    let a = parse_args();
    let mut rng = Rng::new(a.seed);
    let mut out = String::new();
    // fixed corpus: witnesses of the known findings and boundary values
    let mut corpus: Vec<ConstValue> = vec![
        ConstValue::String("\u{1b}".into()),
        ConstValue::String("\u{7f}".into()),
        ConstValue::String("\u{0}\u{8}\u{9}\u{a}\u{b}\u{c}\u{d}\u{1f}\u{9f}".into()),
        ConstValue::String("\"\\/\u{8}\u{c}".into()),
        ConstValue::Enum(Name::new("nullable")),
        ConstValue::List(vec![ConstValue::Enum(Name::new("nullable"))]),
        ConstValue::List(vec![ConstValue::Enum(Name::new("trueColor")), ConstValue::Enum(Name::new("falsey"))]),
        ConstValue::Number(u64::MAX.into()),
        ConstValue::Number(i64::MIN.into()),
        ConstValue::Number(Number::from_f64(-0.0).unwrap()),
        ConstValue::Number(Number::from_f64(1e21).unwrap()),
        ConstValue::Number(Number::from_f64(2.3207315524552523e-23).unwrap()),
        ConstValue::List(vec![]),
        ConstValue::Object(IndexMap::new()),
    ];
    for c in 0u32..0xa0 {
        if c < 0x20 || c >= 0x7f {
            corpus.push(ConstValue::String(char::from_u32(c).unwrap().to_string()));
        }
    }
    for v in &corpus {
        emit_pp(&mut out, v);
        emit_json(&mut out, v);
    }
    let mut i = 0;
    while i < a.n {
        let depth = rng.below(4);
        let v = gen_value(&mut rng, depth);
        if i % 4 == 3 {
            emit_json(&mut out, &v);
        } else {
            emit_pp(&mut out, &v);
        }
        i += 1;
    }
    std::fs::write(format!("{}/c15.cases", a.out), out).unwrap();
}

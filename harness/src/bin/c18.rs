//! C18 correspondence: introspection of generated injected registries (static
//! code path, visibility predicates from a fixed menu reading flags from
//! request data), of one derive-built schema (interface inheritance, visible
//! functions on types / fields / arguments / enum values / input fields /
//! directives) and of one dynamic schema (Interface::implement).  For every
//! schema the REAL registry is dumped (visibility functions as truth tables
//! over all contexts, obtained by calling them), and for every visibility
//! context and includeDeprecated choice the real introspection response (full
//! introspection query + targeted __type queries) is parsed into a Gallina term.
use std::fmt::Write as _;
use std::sync::atomic::{AtomicU8, Ordering};
use std::sync::{Arc, Mutex};

use agv_harness::*;
use async_graphql::indexmap::{IndexMap, IndexSet};
use async_graphql::parser::types::Field;
use async_graphql::registry::{
    Deprecation, MetaDirective, MetaEnumValue, MetaField, MetaInputValue, MetaType, Registry,
};
use async_graphql::resolver_utils::resolve_container;
use async_graphql::*;
use std::borrow::Cow;

// ---------------------------------------------------------------- flags ----
/// Request data read by the visibility predicates.  Interior mutability lets
/// the probe resolver tabulate a predicate over all contexts.
#[derive(Clone)]
pub struct Flags(pub Arc<AtomicU8>);
const NCTX: u8 = 8; // three flags

fn flags(ctx: &Context<'_>) -> u8 {
    ctx.data_opt::<Flags>().map(|f| f.0.load(Ordering::SeqCst)).unwrap_or(0)
}
fn v_never(_: &Context<'_>) -> bool {
    false
}
fn v_f0(c: &Context<'_>) -> bool {
    flags(c) & 1 != 0
}
fn v_f1(c: &Context<'_>) -> bool {
    flags(c) & 2 != 0
}
fn v_f2(c: &Context<'_>) -> bool {
    flags(c) & 4 != 0
}
fn v_n0(c: &Context<'_>) -> bool {
    flags(c) & 1 == 0
}
fn v_n1(c: &Context<'_>) -> bool {
    flags(c) & 2 == 0
}
fn v_f01(c: &Context<'_>) -> bool {
    flags(c) & 3 == 3
}
type VisFn = fn(&Context<'_>) -> bool;
/// the fixed menu (index 0 = no predicate)
fn menu(i: u8) -> Option<VisFn> {
    match i {
        0 => None,
        1 => Some(v_never),
        2 => Some(v_f0),
        3 => Some(v_f1),
        4 => Some(v_f2),
        5 => Some(v_n0),
        6 => Some(v_n1),
        _ => Some(v_f01),
    }
}

/// truth table of a registered predicate over all contexts (bit c = visible under context c)
fn table(ctx: &Context<'_>, v: &Option<VisFn>) -> u64 {
    let Some(f) = v else { return (1u64 << NCTX) - 1 };
    let Some(fl) = ctx.data_opt::<Flags>() else { return if f(ctx) { (1u64 << NCTX) - 1 } else { 0 } };
    let saved = fl.0.load(Ordering::SeqCst);
    let mut t = 0u64;
    for c in 0..NCTX {
        fl.0.store(c, Ordering::SeqCst);
        if f(ctx) {
            t |= 1 << c;
        }
    }
    fl.0.store(saved, Ordering::SeqCst);
    t
}

// ------------------------------------------------------- registry dump -----
fn tokens(it: &mut Interner, ty: &str) -> String {
    let mut toks = vec![];
    let mut cur = String::new();
    for ch in ty.chars() {
        match ch {
            '!' | '[' | ']' => {
                if !cur.is_empty() {
                    toks.push(format!("KName {}", it.n(&cur)));
                    cur.clear();
                }
                toks.push(match ch {
                    '!' => "KBang".to_string(),
                    '[' => "KOpen".to_string(),
                    _ => "KClose".to_string(),
                });
            }
            c => cur.push(c),
        }
    }
    if !cur.is_empty() {
        toks.push(format!("KName {}", it.n(&cur)));
    }
    format!("[{}]", toks.join("; "))
}

fn dump_input(it: &mut Interner, ctx: &Context<'_>, v: &MetaInputValue) -> String {
    format!(
        "{{| mi_name := {}; mi_ty := {}; mi_dep := {}; mi_default := {}; mi_vis := {}%N |}}",
        it.n(&v.name),
        tokens(it, &v.ty),
        g_bool(v.deprecation.is_deprecated()),
        g_opt(v.default_value.as_ref(), |d| it.n(&format!("={d}"))),
        table(ctx, &v.visible)
    )
}

fn dump_fields(it: &mut Interner, ctx: &Context<'_>, fs: &IndexMap<String, MetaField>) -> String {
    g_list(fs.values(), |f| {
        format!(
            "{{| mf_name := {}; mf_dunder := {}; mf_args := {}; mf_ty := {}; mf_dep := {}; mf_vis := {}%N |}}",
            it.n(&f.name),
            g_bool(f.name.starts_with("__")),
            g_list(f.args.values(), |a| dump_input(it, ctx, a)),
            tokens(it, &f.ty),
            g_bool(f.deprecation.is_deprecated()),
            table(ctx, &f.visible)
        )
    })
}

fn is_system(name: &str) -> bool {
    name.starts_with("__") || ["Boolean", "Int", "Float", "String", "ID"].contains(&name)
}

/// The registry as the model sees it.  `types`/`directives` in BTreeMap order.
fn dump_registry(it: &mut Interner, ctx: &Context<'_>, r: &Registry) -> String {
    let types = g_list(r.types.iter(), |(k, t)| {
        assert_eq!(k, t.name(), "registry key differs from the type's name");
        let (vis, keyed, kind) = match t {
            MetaType::Scalar { visible, .. } => (visible, false, "MScalar".to_string()),
            MetaType::Object { visible, fields, keys, .. } => {
                (visible, keys.as_ref().is_some_and(|k| !k.is_empty()), format!("(MObject {})", dump_fields(it, ctx, fields)))
            }
            MetaType::Interface { visible, fields, possible_types, keys, .. } => (
                visible,
                keys.as_ref().is_some_and(|k| !k.is_empty()),
                format!("(MInterface {} {})", dump_fields(it, ctx, fields), g_list(possible_types.iter(), |p| it.n(p))),
            ),
            MetaType::Union { visible, possible_types, .. } => {
                (visible, false, format!("(MUnion {})", g_list(possible_types.iter(), |p| it.n(p))))
            }
            MetaType::Enum { visible, enum_values, .. } => (
                visible,
                false,
                format!(
                    "(MEnum {})",
                    g_list(enum_values.values(), |e| format!(
                        "{{| me_name := {}; me_dep := {}; me_vis := {}%N |}}",
                        it.n(&e.name),
                        g_bool(e.deprecation.is_deprecated()),
                        table(ctx, &e.visible)
                    ))
                ),
            ),
            MetaType::InputObject { visible, input_fields, .. } => {
                (visible, false, format!("(MInput {})", g_list(input_fields.values(), |f| dump_input(it, ctx, f))))
            }
        };
        format!(
            "({}, {{| mt_name := {}; mt_system := {}; mt_keyed := {}; mt_vis := {}%N; mt_kind := {} |}})",
            it.n(k),
            it.n(t.name()),
            g_bool(is_system(t.name())),
            g_bool(keyed),
            table(ctx, vis),
            kind
        )
    });
    let dirs = g_list(r.directives.values(), |d| {
        format!(
            "{{| md_name := {}; md_args := {}; md_vis := {}%N |}}",
            it.n(&d.name),
            g_list(d.args.values(), |a| dump_input(it, ctx, a)),
            table(ctx, &d.visible)
        )
    });
    let mut imp: Vec<(&String, &IndexSet<String>)> = r.implements.iter().collect();
    imp.sort_by(|a, b| a.0.cmp(b.0));
    let imps = g_list(imp.iter(), |(k, v)| format!("({}, {})", it.n(k), g_list(v.iter(), |x| it.n(x))));
    format!(
        "{{| r_types := {}; r_directives := {}; r_implements := {}; r_query := {}; r_mutation := {}; r_subscription := {} |}}",
        types,
        dirs,
        imps,
        it.n(&r.query_type),
        g_opt(r.mutation_type.as_ref(), |m| it.n(m)),
        g_opt(r.subscription_type.as_ref(), |m| it.n(m))
    )
}

type Dump = Arc<Mutex<Option<(String, Vec<(String, Vec<String>)>, Vec<String>)>>>;
static PROBE: Mutex<Option<Box<dyn FnOnce(&Context<'_>) + Send>>> = Mutex::new(None);
fn run_probe(ctx: &Context<'_>) {
    if let Some(f) = PROBE.lock().unwrap().take() {
        f(ctx);
    }
}

// --------------------------------------------- generated description -------
#[derive(Clone, Debug, Default)]
struct InputDesc {
    name: String,
    ty: String,
    dep: bool,
    default: Option<String>,
    vis: u8,
}
#[derive(Clone, Debug, Default)]
struct FieldDesc {
    name: String,
    ty: String,
    args: Vec<InputDesc>,
    dep: bool,
    vis: u8,
}
#[derive(Clone, Debug)]
enum KindDesc {
    Scalar,
    Object { fields: Vec<FieldDesc>, implements: Vec<String> },
    Interface { fields: Vec<FieldDesc>, possible: Vec<String>, implements: Vec<String> },
    Union { possible: Vec<String> },
    Enum { values: Vec<(String, bool, u8)> },
    Input { fields: Vec<InputDesc> },
}
#[derive(Clone, Debug)]
struct TypeDesc {
    name: String,
    vis: u8,
    kind: KindDesc,
}
#[derive(Clone, Debug, Default)]
struct DirDesc {
    name: String,
    args: Vec<InputDesc>,
    vis: u8,
}
#[derive(Clone, Debug, Default)]
struct SchemaDesc {
    types: Vec<TypeDesc>,
    dirs: Vec<DirDesc>,
    query: String,
    mutation: Option<String>,
}

static CURRENT: Mutex<Option<Arc<SchemaDesc>>> = Mutex::new(None);
fn current() -> Arc<SchemaDesc> {
    CURRENT.lock().unwrap().clone().expect("no current description")
}

fn dep(b: bool) -> Deprecation {
    if b { Deprecation::Deprecated { reason: Some("old".into()) } } else { Deprecation::NoDeprecated }
}
fn meta_input(a: &InputDesc) -> MetaInputValue {
    let mut v = MetaInputValue::new(a.name.clone(), a.ty.clone());
    v.deprecation = dep(a.dep);
    v.default_value = a.default.clone();
    v.visible = menu(a.vis);
    v
}
fn meta_fields(fs: &[FieldDesc]) -> IndexMap<String, MetaField> {
    let mut m = IndexMap::new();
    for f in fs {
        let mut mf = MetaField::new(f.name.clone(), f.ty.clone());
        mf.deprecation = dep(f.dep);
        mf.visible = menu(f.vis);
        for a in &f.args {
            mf.args.insert(a.name.clone(), meta_input(a));
        }
        m.insert(f.name.clone(), mf);
    }
    m
}

fn inject(registry: &mut Registry, d: &SchemaDesc) {
    <i32 as OutputType>::create_type_info(registry);
    <String as OutputType>::create_type_info(registry);
    <bool as OutputType>::create_type_info(registry);
    for t in &d.types {
        let name = t.name.clone();
        let mt = match &t.kind {
            KindDesc::Scalar => MetaType::Scalar {
                name: name.clone(),
                description: None,
                is_valid: None,
                visible: menu(t.vis),
                inaccessible: false,
                tags: vec![],
                specified_by_url: None,
                directive_invocations: vec![],
                requires_scopes: vec![],
            },
            KindDesc::Object { fields, implements } => {
                for i in implements {
                    registry.add_implements(&name, i);
                }
                registry::ObjectBuilder::new(name.clone(), meta_fields(fields)).visible(menu(t.vis)).rust_typename("GenObj").build()
            }
            KindDesc::Interface { fields, possible, implements } => {
                for i in implements {
                    registry.add_implements(&name, i);
                }
                MetaType::Interface {
                    name: name.clone(),
                    description: None,
                    fields: meta_fields(fields),
                    possible_types: possible.iter().cloned().collect(),
                    extends: false,
                    inaccessible: false,
                    tags: vec![],
                    keys: None,
                    visible: menu(t.vis),
                    rust_typename: Some("GenObj"),
                    directive_invocations: vec![],
                    requires_scopes: vec![],
                }
            }
            KindDesc::Union { possible } => MetaType::Union {
                name: name.clone(),
                description: None,
                possible_types: possible.iter().cloned().collect(),
                visible: menu(t.vis),
                inaccessible: false,
                tags: vec![],
                rust_typename: Some("GenObj"),
                directive_invocations: vec![],
            },
            KindDesc::Enum { values } => {
                let mut m = IndexMap::new();
                for (n, d, v) in values {
                    let mut e = MetaEnumValue::new(n.clone());
                    e.deprecation = dep(*d);
                    e.visible = menu(*v);
                    m.insert(n.clone(), e);
                }
                registry::EnumBuilder::new(name.clone(), m).visible(menu(t.vis)).build()
            }
            KindDesc::Input { fields } => {
                let mut m = IndexMap::new();
                for f in fields {
                    m.insert(f.name.clone(), meta_input(f));
                }
                registry::InputObjectBuilder::new(name.clone(), m).visible(menu(t.vis)).build()
            }
        };
        // the second injection (GenExtra, after remove_unused_types) only restores pruned types
        if !registry.types.contains_key(&name) {
            registry.types.insert(name, mt);
        }
    }
    for dd in &d.dirs {
        let mut args = IndexMap::new();
        for a in &dd.args {
            args.insert(a.name.clone(), meta_input(a));
        }
        registry.add_directive(MetaDirective {
            name: dd.name.clone(),
            description: None,
            locations: vec![registry::__DirectiveLocation::FIELD],
            args,
            is_repeatable: false,
            visible: menu(dd.vis),
            composable: None,
        });
    }
}

/// the generated query root: user fields resolve to null; `probe` runs the probe
struct GenQuery;
struct GenMutation;
/// registered after `remove_unused_types` so that unreferenced types stay
struct GenExtra;
macro_rules! gen_ty {
    ($t:ident, $name:expr) => {
        impl OutputType for $t {
            fn type_name() -> Cow<'static, str> {
                Cow::Owned($name)
            }
            fn create_type_info(registry: &mut Registry) -> String {
                inject(registry, &current());
                Self::type_name().into_owned()
            }
            async fn resolve(&self, ctx: &ContextSelectionSet<'_>, _field: &Positioned<Field>) -> ServerResult<Value> {
                resolve_container(ctx, self).await
            }
        }
        impl ContainerType for $t {
            async fn resolve_field(&self, ctx: &Context<'_>) -> ServerResult<Option<Value>> {
                run_probe(ctx);
                Ok(Some(Value::Null))
            }
        }
        impl ObjectType for $t {}
    };
}
gen_ty!(GenQuery, current().query.clone());
gen_ty!(GenMutation, current().mutation.clone().unwrap_or_else(|| "GenMutation".into()));
gen_ty!(GenExtra, "__GenExtra".to_string());

// ------------------------------------------------------- generator ---------
fn wrap(r: &mut Rng, n: &str) -> String {
    match r.below(10) {
        0 => format!("{n}!"),
        1 => format!("[{n}]"),
        2 => format!("[{n}!]!"),
        3 => format!("[[{n}]!]"),
        4 => format!("[[{n}!]]!"),
        5 => format!("[[[{n}]]]!"),
        _ => n.to_string(),
    }
}
fn rvis(r: &mut Rng, plain: u64) -> u8 {
    if r.chance(plain, 10) { 0 } else { 1 + r.below(7) as u8 }
}

fn gen_schema(r: &mut Rng) -> SchemaDesc {
    let nobj = 2 + r.below(4);
    let nint = r.below(4);
    let nuni = r.below(3);
    let nenum = r.below(3);
    let ninp = r.below(3);
    let nsca = r.below(2);
    let objs: Vec<String> = (0..nobj).map(|i| format!("O{i}")).collect();
    // interface names are not generated in alphabetical order of creation so
    // that the last pass of find_visible_types sees them in both orders
    let ints: Vec<String> = (0..nint).map(|i| format!("{}{i}", if r.chance(1, 2) { "I" } else { "Z" })).collect();
    let unis: Vec<String> = (0..nuni).map(|i| format!("U{i}")).collect();
    let enums: Vec<String> = (0..nenum).map(|i| format!("E{i}")).collect();
    let inps: Vec<String> = (0..ninp).map(|i| format!("N{i}")).collect();
    let scas: Vec<String> = (0..nsca).map(|i| format!("S{i}")).collect();
    let mut out_named: Vec<String> = vec!["Int".into(), "String".into(), "Boolean".into()];
    out_named.extend(objs.iter().cloned());
    out_named.extend(ints.iter().cloned());
    out_named.extend(unis.iter().cloned());
    out_named.extend(enums.iter().cloned());
    out_named.extend(scas.iter().cloned());
    let mut in_named: Vec<String> = vec!["Int".into(), "String".into(), "Boolean".into()];
    in_named.extend(enums.iter().cloned());
    in_named.extend(inps.iter().cloned());
    in_named.extend(scas.iter().cloned());
    let gen_input = |r: &mut Rng, name: String| -> InputDesc {
        let t = r.pick(&in_named).clone();
        InputDesc {
            name,
            ty: wrap(r, &t),
            dep: r.chance(1, 6),
            default: if r.chance(1, 4) { Some(["1", "null", "\"x\"", "[]"][r.below(4)].to_string()) } else { None },
            vis: rvis(r, 7),
        }
    };
    let gen_field = |r: &mut Rng, name: String, out_named: &[String]| -> FieldDesc {
        let t = r.pick(out_named).clone();
        let na = if r.chance(1, 3) { 1 + r.below(2) } else { 0 };
        FieldDesc {
            name,
            ty: wrap(r, &t),
            args: (0..na).map(|j| gen_input(r, format!("a{j}"))).collect(),
            dep: r.chance(1, 6),
            vis: rvis(r, 7),
        }
    };
    let mut idesc: Vec<(String, Vec<FieldDesc>, Vec<String>, Vec<String>)> = vec![];
    for (k, i) in ints.iter().enumerate() {
        let nf = 1 + r.below(2);
        let fields = (0..nf).map(|j| gen_field(r, format!("i{k}f{j}"), &out_named)).collect();
        idesc.push((i.clone(), fields, vec![], vec![]));
    }
    // interface inheritance (as the derive macro registers it: the sub-interface is a possible type)
    for a in 0..idesc.len() {
        for b in 0..idesc.len() {
            if a < b && r.chance(1, 6) {
                let (sub, sup) = (idesc[a].0.clone(), idesc[b].0.clone());
                idesc[b].2.push(sub);
                idesc[a].3.push(sup);
            }
        }
    }
    let mut types = vec![];
    for (k, o) in objs.iter().enumerate() {
        let nf = 1 + r.below(4);
        let mut fields: Vec<FieldDesc> = (0..nf).map(|j| gen_field(r, format!("f{j}"), &out_named)).collect();
        if k == 0 {
            fields.insert(0, FieldDesc { name: "probe".into(), ty: "Int".into(), ..Default::default() });
            if r.chance(1, 8) {
                fields.push(FieldDesc { name: "__hiddenByName".into(), ty: "Int".into(), ..Default::default() });
            }
        }
        let mut implements = vec![];
        for (iname, ifields, possible, _) in idesc.iter_mut() {
            if r.chance(2, 5) {
                implements.push(iname.clone());
                possible.push(o.clone());
                for f in ifields.iter() {
                    fields.push(f.clone());
                }
            }
        }
        // the root type is rarely hidden
        let vis = if k == 0 { if r.chance(1, 40) { 1 + r.below(7) as u8 } else { 0 } } else { rvis(r, 9) };
        types.push(TypeDesc { name: o.clone(), vis, kind: KindDesc::Object { fields, implements } });
    }
    for (name, fields, possible, implements) in idesc {
        types.push(TypeDesc { name, vis: rvis(r, 9), kind: KindDesc::Interface { fields, possible, implements } });
    }
    for u in unis.iter() {
        let mut possible: Vec<String> = objs.iter().filter(|_| r.chance(1, 2)).cloned().collect();
        if possible.is_empty() {
            possible.push(objs[r.below(objs.len())].clone());
        }
        types.push(TypeDesc { name: u.clone(), vis: rvis(r, 9), kind: KindDesc::Union { possible } });
    }
    for e in enums.iter() {
        let nv = 1 + r.below(3);
        let values = (0..nv).map(|j| (format!("V{j}"), r.chance(1, 5), rvis(r, 7))).collect();
        types.push(TypeDesc { name: e.clone(), vis: rvis(r, 9), kind: KindDesc::Enum { values } });
    }
    for n in inps.iter() {
        let nf = 1 + r.below(3);
        let fields = (0..nf).map(|j| gen_input(r, format!("x{j}"))).collect();
        types.push(TypeDesc { name: n.clone(), vis: rvis(r, 9), kind: KindDesc::Input { fields } });
    }
    for s in scas.iter() {
        types.push(TypeDesc { name: s.clone(), vis: rvis(r, 9), kind: KindDesc::Scalar });
    }
    let ndir = if r.chance(1, 2) { 0 } else { 1 + r.below(2) };
    let dirs = (0..ndir)
        .map(|k| {
            let na = r.below(3);
            DirDesc { name: format!("d{k}"), args: (0..na).map(|j| { let mut i = gen_input(r, format!("p{j}")); if r.chance(3, 4) { i.vis = 0; } i }).collect(), vis: rvis(r, 8) }
        })
        .collect();
    SchemaDesc { types, dirs, query: "O0".into(), mutation: if r.chance(1, 3) { Some("O1".into()) } else { None } }
}

fn obj(name: &str, vis: u8, fields: Vec<FieldDesc>, implements: &[&str]) -> TypeDesc {
    TypeDesc { name: name.into(), vis, kind: KindDesc::Object { fields, implements: implements.iter().map(|s| s.to_string()).collect() } }
}
fn fld(name: &str, ty: &str, vis: u8) -> FieldDesc {
    FieldDesc { name: name.into(), ty: ty.into(), vis, ..Default::default() }
}
fn iface(name: &str, vis: u8, fields: Vec<FieldDesc>, possible: &[&str], implements: &[&str]) -> TypeDesc {
    TypeDesc {
        name: name.into(),
        vis,
        kind: KindDesc::Interface {
            fields,
            possible: possible.iter().map(|s| s.to_string()).collect(),
            implements: implements.iter().map(|s| s.to_string()).collect(),
        },
    }
}

/// Fixed corpus: the witnesses of the known findings and boundary cases.
fn corpus() -> Vec<SchemaDesc> {
    let probe = || fld("probe", "Int", 0);
    vec![
        // KC1: a visible field of a hidden type (tests/introspection_visible.rs::test_type_visible)
        SchemaDesc {
            types: vec![obj("Query", 0, vec![probe(), fld("obj", "MyObj!", 0)], &[]), obj("MyObj", 1, vec![fld("a", "Int!", 0)], &[])],
            query: "Query".into(),
            ..Default::default()
        },
        // KC1 through an argument and an input field; hidden by request data
        SchemaDesc {
            types: vec![
                obj(
                    "Query",
                    0,
                    vec![probe(), FieldDesc {
                        name: "f".into(),
                        ty: "Int".into(),
                        args: vec![InputDesc { name: "a".into(), ty: "[Hid!]".into(), ..Default::default() }, InputDesc {
                            name: "b".into(),
                            ty: "Inp".into(),
                            ..Default::default()
                        }],
                        ..Default::default()
                    }],
                    &[],
                ),
                TypeDesc { name: "Hid".into(), vis: 2, kind: KindDesc::Enum { values: vec![("A".into(), false, 0), ("B".into(), true, 0), ("C".into(), false, 3)] } },
                TypeDesc {
                    name: "Inp".into(),
                    vis: 0,
                    kind: KindDesc::Input {
                        fields: vec![InputDesc { name: "x".into(), ty: "Hid".into(), ..Default::default() }, InputDesc {
                            name: "y".into(),
                            ty: "Int".into(),
                            vis: 3,
                            dep: true,
                            ..Default::default()
                        }],
                    },
                },
            ],
            query: "Query".into(),
            ..Default::default()
        },
        // KC2: hidden directive / hidden directive argument still listed
        SchemaDesc {
            types: vec![
                obj("Query", 0, vec![probe()], &[]),
                TypeDesc { name: "DE".into(), vis: 0, kind: KindDesc::Enum { values: vec![("A".into(), false, 0)] } },
            ],
            dirs: vec![
                DirDesc { name: "hiddenDir".into(), args: vec![InputDesc { name: "a".into(), ty: "DE".into(), ..Default::default() }], vis: 1 },
                DirDesc { name: "shown".into(), args: vec![InputDesc { name: "a".into(), ty: "Int".into(), vis: 2, ..Default::default() }], vis: 0 },
            ],
            query: "Query".into(),
            ..Default::default()
        },
        // KC3: interface inheritance as the derive macro registers it
        SchemaDesc {
            types: vec![
                obj("Query", 0, vec![probe(), fld("g", "Grand", 0)], &[]),
                obj("Obj", 0, vec![fld("id", "Int!", 0)], &["Parent", "Grand"]),
                iface("Parent", 0, vec![fld("id", "Int!", 0)], &["Obj"], &["Grand"]),
                iface("Grand", 0, vec![fld("id", "Int!", 0)], &["Parent", "Obj"], &[]),
            ],
            query: "Query".into(),
            ..Default::default()
        },
        // KC4: the single interface pass depends on the name order: A (possible X) is examined before
        // B's traversal makes X visible
        SchemaDesc {
            types: vec![
                obj("Query", 0, vec![probe(), fld("y", "Y", 0)], &[]),
                obj("Y", 0, vec![fld("id", "Int", 0)], &["B"]),
                obj("X", 0, vec![fld("id", "Int", 0)], &["A"]),
                iface("A", 0, vec![fld("id", "Int", 0)], &["X"], &[]),
                iface("B", 0, vec![fld("id", "Int", 0), fld("x", "X", 0)], &["Y"], &[]),
            ],
            query: "Query".into(),
            ..Default::default()
        },
        // same shape with the names in the other order (Z after B): consistent
        SchemaDesc {
            types: vec![
                obj("Query", 0, vec![probe(), fld("y", "Y", 0)], &[]),
                obj("Y", 0, vec![fld("id", "Int", 0)], &["B"]),
                obj("X", 0, vec![fld("id", "Int", 0)], &["Z"]),
                iface("Z", 0, vec![fld("id", "Int", 0)], &["X"], &[]),
                iface("B", 0, vec![fld("id", "Int", 0), fld("x", "X", 0)], &["Y"], &[]),
            ],
            query: "Query".into(),
            ..Default::default()
        },
        // boundary: everything visible only under one flag; deep wrappers; deprecated members
        SchemaDesc {
            types: vec![
                obj(
                    "Query",
                    0,
                    vec![
                        probe(),
                        fld("a", "[[[A!]!]!]!", 2),
                        FieldDesc { name: "old".into(), ty: "U".into(), dep: true, ..Default::default() },
                        FieldDesc {
                            name: "w".into(),
                            ty: "String".into(),
                            args: vec![
                                InputDesc { name: "d".into(), ty: "Int!".into(), dep: true, default: Some("1".into()), ..Default::default() },
                                InputDesc { name: "h".into(), ty: "Int".into(), vis: 5, ..Default::default() },
                            ],
                            ..Default::default()
                        },
                    ],
                    &[],
                ),
                obj("A", 0, vec![fld("id", "Int", 0), fld("sec", "B", 3)], &[]),
                obj("B", 3, vec![fld("id", "Int", 0)], &[]),
                TypeDesc { name: "U".into(), vis: 0, kind: KindDesc::Union { possible: vec!["A".into(), "B".into()] } },
            ],
            query: "Query".into(),
            mutation: None,
            dirs: vec![],
        },
    ]
}

fn desc_uses_flags(d: &SchemaDesc) -> bool {
    let iv = |l: &[InputDesc]| l.iter().any(|a| a.vis >= 2);
    let fv = |l: &[FieldDesc]| l.iter().any(|f| f.vis >= 2 || iv(&f.args));
    d.dirs.iter().any(|x| x.vis >= 2 || iv(&x.args))
        || d.types.iter().any(|t| {
            t.vis >= 2
                || match &t.kind {
                    KindDesc::Object { fields, .. } | KindDesc::Interface { fields, .. } => fv(fields),
                    KindDesc::Enum { values } => values.iter().any(|v| v.2 >= 2),
                    KindDesc::Input { fields } => iv(fields),
                    _ => false,
                }
        })
}

// ---------------------------------------------- introspection queries ------
fn full_query(incl_fe: bool, incl_ai: bool, names: &[String]) -> String {
    let fe = if incl_fe { "(includeDeprecated: true)" } else { "" };
    let ai = if incl_ai { "(includeDeprecated: true)" } else { "" };
    let mut q = String::new();
    write!(
        q,
        "query IntrospectionQuery {{ __schema {{ queryType {{ name }} mutationType {{ name }} subscriptionType {{ name }} \
         types {{ ...FullType }} directives {{ name args{ai} {{ ...InputValue }} }} }}"
    )
    .unwrap();
    for (i, n) in names.iter().enumerate() {
        write!(q, " t{i}: __type(name: {}) {{ ...FullType }}", serde_json::to_string(n).unwrap()).unwrap();
    }
    write!(
        q,
        " }} fragment FullType on __Type {{ kind name fields{fe} {{ name args{ai} {{ ...InputValue }} type {{ ...TypeRef }} isDeprecated }} \
         inputFields{ai} {{ ...InputValue }} interfaces {{ ...TypeRef }} enumValues{fe} {{ name isDeprecated }} possibleTypes {{ ...TypeRef }} }} \
         fragment InputValue on __InputValue {{ name type {{ ...TypeRef }} defaultValue isDeprecated }} \
         fragment TypeRef on __Type {{ kind name ofType {{ kind name ofType {{ kind name ofType {{ kind name ofType {{ kind name ofType {{ kind name \
         ofType {{ kind name ofType {{ kind name ofType {{ kind name ofType {{ kind name }} }} }} }} }} }} }} }} }} }}"
    )
    .unwrap();
    q
}

use serde_json::Value as J;

fn kind_n(k: &str) -> u8 {
    match k {
        "SCALAR" => 0,
        "OBJECT" => 1,
        "INTERFACE" => 2,
        "UNION" => 3,
        "ENUM" => 4,
        "INPUT_OBJECT" => 5,
        "LIST" => 6,
        "NON_NULL" => 7,
        _ => 90,
    }
}
fn j_ref(it: &mut Interner, j: &J) -> String {
    let of = match j.get("ofType") {
        Some(J::Null) | None => "None".to_string(),
        Some(x) => format!("(Some {})", j_ref(it, x)),
    };
    format!(
        "(IRef {}%N {} {})",
        kind_n(j["kind"].as_str().unwrap_or("")),
        g_opt(j["name"].as_str(), |n| it.n(n)),
        of
    )
}
fn j_input(it: &mut Interner, j: &J) -> String {
    format!(
        "{{| ii_name := {}; ii_type := {}; ii_default := {}; ii_dep := {} |}}",
        it.n(j["name"].as_str().unwrap()),
        j_ref(it, &j["type"]),
        g_opt(j["defaultValue"].as_str(), |d| it.n(&format!("={d}"))),
        g_bool(j["isDeprecated"].as_bool().unwrap())
    )
}
fn j_optlist(j: &J, mut f: impl FnMut(&J) -> String) -> String {
    match j {
        J::Array(a) => format!("(Some {})", g_list(a.iter(), |x| f(x))),
        _ => "None".to_string(),
    }
}
fn j_type(it: &mut Interner, j: &J) -> String {
    format!(
        "{{| it_kind := {}%N; it_name := {}; it_fields := {}; it_interfaces := {}; it_possible := {}; it_enums := {}; it_inputs := {} |}}",
        kind_n(j["kind"].as_str().unwrap_or("")),
        it.n(j["name"].as_str().unwrap()),
        j_optlist(&j["fields"], |f| format!(
            "{{| if_name := {}; if_args := {}; if_type := {}; if_dep := {} |}}",
            it.n(f["name"].as_str().unwrap()),
            g_list(f["args"].as_array().unwrap().iter(), |a| j_input(it, a)),
            j_ref(it, &f["type"]),
            g_bool(f["isDeprecated"].as_bool().unwrap())
        )),
        j_optlist(&j["interfaces"], |x| j_ref(it, x)),
        j_optlist(&j["possibleTypes"], |x| j_ref(it, x)),
        j_optlist(&j["enumValues"], |e| format!(
            "{{| ie_name := {}; ie_dep := {} |}}",
            it.n(e["name"].as_str().unwrap()),
            g_bool(e["isDeprecated"].as_bool().unwrap())
        )),
        j_optlist(&j["inputFields"], |x| j_input(it, x)),
    )
}
/// (gallina outcome term, readable summary, number of listed types)
fn j_response(it: &mut Interner, resp: Option<Response>, names: &[String]) -> (String, String, usize) {
    let Some(resp) = resp else { return ("Panic".into(), "panic".into(), 0) };
    if !resp.errors.is_empty() {
        return ("(Err 1%N)".into(), format!("errors: {:?}", resp.errors.iter().map(|e| e.message.clone()).collect::<Vec<_>>()), 0);
    }
    let j = resp.data.into_json().unwrap();
    let s = &j["__schema"];
    let types = s["types"].as_array().unwrap();
    let tree = format!(
        "{{| is_types := {}; is_query := {}; is_mutation := {}; is_subscription := {}; is_dirs := {} |}}",
        g_list(types.iter(), |t| j_type(it, t)),
        it.n(s["queryType"]["name"].as_str().unwrap()),
        g_opt(s["mutationType"].get("name").and_then(|x| x.as_str()), |n| it.n(n)),
        g_opt(s["subscriptionType"].get("name").and_then(|x| x.as_str()), |n| it.n(n)),
        g_list(s["directives"].as_array().unwrap().iter(), |d| format!(
            "{{| id_name := {}; id_args := {} |}}",
            it.n(d["name"].as_str().unwrap()),
            g_list(d["args"].as_array().unwrap().iter(), |a| j_input(it, a))
        ))
    );
    let tq = g_list(names.iter().enumerate(), |(i, n)| {
        let t = &j[format!("t{i}")];
        format!("({}, {})", it.n(n), if t.is_null() { "None".to_string() } else { format!("(Some {})", j_type(it, t)) })
    });
    let listed: Vec<&str> = types.iter().map(|t| t["name"].as_str().unwrap()).filter(|n| !n.starts_with("__")).collect();
    (format!("(Ok ({tree}, {tq}))"), format!("types: {}", listed.join(",")), types.len())
}

fn jstr(s: &str) -> String {
    serde_json::to_string(s).unwrap()
}

// ---------------------------------------------- derive-built schema --------
mod fixed {
    use super::*;

    pub fn is_admin(ctx: &Context<'_>) -> bool {
        flags(ctx) & 1 != 0
    }
    pub fn is_beta(ctx: &Context<'_>) -> bool {
        flags(ctx) & 2 != 0
    }
    pub fn not_beta(ctx: &Context<'_>) -> bool {
        flags(ctx) & 2 == 0
    }

    #[derive(SimpleObject)]
    pub struct Leaf {
        pub id: i32,
        #[graphql(visible = "is_admin")]
        pub secret: String,
        #[graphql(deprecation = "gone")]
        pub old: i32,
    }
    #[derive(SimpleObject)]
    pub struct Other {
        pub id: i32,
        pub tags: Option<Vec<Option<Vec<String>>>>,
    }
    #[derive(SimpleObject)]
    #[graphql(visible = "is_beta")]
    pub struct Beta {
        pub id: i32,
        pub color: Color,
    }
    #[derive(SimpleObject)]
    #[graphql(visible = false)]
    pub struct Never {
        pub id: i32,
    }
    /// interface inheritance: Node <- Entity <- {Leaf, Other}
    #[derive(Interface)]
    #[graphql(field(name = "id", ty = "&i32"))]
    pub enum Entity {
        Leaf(Leaf),
        Other(Other),
    }
    #[derive(Interface)]
    #[graphql(field(name = "id", ty = "&i32"))]
    pub enum Node {
        Entity(Entity),
        Leaf(Leaf),
        Other(Other),
        Beta(Beta),
    }
    /// an interface nobody references: registered with register_output_type
    #[derive(Interface)]
    #[graphql(field(name = "id", ty = "&i32"))]
    pub enum Loose {
        Other(Other),
    }
    #[derive(Union)]
    pub enum Any3 {
        Leaf(Leaf),
        Beta(Beta),
        Never(Never),
    }
    #[derive(Enum, Copy, Clone, Eq, PartialEq)]
    pub enum Color {
        Red,
        #[graphql(visible = "is_admin")]
        Green,
        #[graphql(deprecation = "no blue")]
        Blue,
        #[graphql(visible = "not_beta", deprecation)]
        Grey,
    }
    #[derive(Enum, Copy, Clone, Eq, PartialEq)]
    #[graphql(visible = "is_admin")]
    pub enum Level {
        Low,
        High,
    }
    #[derive(InputObject)]
    pub struct Filter {
        pub color: Option<Color>,
        #[graphql(visible = "is_admin")]
        pub level: Option<Level>,
        #[graphql(default = 5)]
        pub limit: i32,
        #[graphql(deprecation = "unused")]
        pub legacy: Option<bool>,
        pub nested: Option<Vec<Inner>>,
    }
    #[derive(InputObject)]
    #[graphql(visible = "is_beta")]
    pub struct Inner {
        pub x: i32,
    }

    pub struct Query;
    #[Object]
    impl Query {
        async fn probe(&self, ctx: &Context<'_>) -> i32 {
            run_probe(ctx);
            1
        }
        async fn node(&self) -> Option<Node> {
            None
        }
        async fn entity(&self) -> Option<Entity> {
            None
        }
        async fn any(&self) -> Vec<Any3> {
            vec![]
        }
        async fn search(&self, filter: Option<Filter>, #[graphql(visible = "is_admin")] level: Option<Level>, #[graphql(default = 3)] n: i32) -> Vec<Leaf> {
            let _ = (filter, level, n);
            vec![]
        }
        #[graphql(visible = "is_beta")]
        async fn beta(&self) -> Option<Beta> {
            None
        }
        /// a visible field of a hidden type (known class 1)
        async fn never(&self) -> Option<Never> {
            None
        }
        #[graphql(visible = "is_admin", deprecation = "x")]
        async fn admin_old(&self) -> Option<Level> {
            None
        }
    }
    pub struct Mutation;
    #[Object(visible = "is_admin")]
    impl Mutation {
        async fn set(&self, v: Option<Inner>) -> bool {
            let _ = v;
            true
        }
    }
}

// ---------------------------------------------------- dynamic schema -------
fn dynamic_schema(variant: usize, dump: Dump, it_cell: Arc<Mutex<Interner>>) -> (dynamic::Schema, Vec<(String, Vec<String>)>) {
    use dynamic::*;
    let probe = Field::new("probe", TypeRef::named(TypeRef::INT), move |ctx| {
        let dump = dump.clone();
        let it_cell = it_cell.clone();
        FieldFuture::new(async move {
            let mut it = it_cell.lock().unwrap();
            let g = dump_registry(&mut it, ctx.ctx, &ctx.ctx.schema_env.registry);
            *dump.lock().unwrap() = Some((g, vec![], vec![]));
            Ok(Some(Value::from(1)))
        })
    });
    let nullf = |name: &str, ty: TypeRef| Field::new(name, ty, |_| FieldFuture::new(async { Ok(None::<Value>) }));
    let grand = Interface::new("Grand").field(InterfaceField::new("id", TypeRef::named_nn(TypeRef::INT)));
    let mut parent = Interface::new("Parent")
        .field(InterfaceField::new("id", TypeRef::named_nn(TypeRef::INT)))
        .field(InterfaceField::new("p", TypeRef::named_list(TypeRef::STRING)).argument(InputValue::new("n", TypeRef::named(TypeRef::INT)).default_value(3)));
    let mut declared: Vec<(String, Vec<String>)> = vec![];
    if variant == 0 {
        parent = parent.implement("Grand");
        declared.push(("Parent".into(), vec!["Grand".into()]));
    }
    let obj = Object::new("Obj")
        .implement("Parent")
        .implement("Grand")
        .field(nullf("id", TypeRef::named_nn(TypeRef::INT)))
        .field(Field::new("p", TypeRef::named_list(TypeRef::STRING), |_| FieldFuture::new(async { Ok(None::<Value>) })).argument(InputValue::new("n", TypeRef::named(TypeRef::INT)).default_value(3)))
        .field(nullf("old", TypeRef::named(TypeRef::STRING)).deprecation(Some("gone")));
    declared.push(("Obj".into(), vec!["Parent".into(), "Grand".into()]));
    let obj2 = Object::new("Obj2").implement("Grand").field(nullf("id", TypeRef::named_nn(TypeRef::INT))).field(nullf("k", TypeRef::named("Kind")));
    declared.push(("Obj2".into(), vec!["Grand".into()]));
    let uni = Union::new("Either").possible_type("Obj").possible_type("Obj2");
    let en = Enum::new("Kind").item(EnumItem::new("A")).item(EnumItem::new("B").deprecation(None)).item("C");
    let inp = InputObject::new("Filter")
        .field(InputValue::new("kind", TypeRef::named("Kind")))
        .field(InputValue::new("ids", TypeRef::named_nn_list_nn(TypeRef::INT)))
        .field(InputValue::new("sub", TypeRef::named("Filter")));
    let query = Object::new("Query")
        .field(probe)
        .field(nullf("grand", TypeRef::named("Grand")))
        .field(nullf("parent", TypeRef::named_nn_list_nn("Parent")))
        .field(nullf("either", TypeRef::named("Either")))
        .field(nullf("find", TypeRef::named_list("Obj")).argument(InputValue::new("f", TypeRef::named("Filter"))).argument(InputValue::new("k", TypeRef::named_nn("Kind")).default_value(Value::Enum(Name::new("A")))));
    let s = Schema::build("Query", None, None)
        .register(grand)
        .register(parent)
        .register(obj)
        .register(obj2)
        .register(uni)
        .register(en)
        .register(inp)
        .register(query)
        .finish()
        .expect("dynamic schema builds");
    (s, declared)
}

// -------------------------------------------------------------- main -------
fn exec<E: Executor>(s: &E, q: &str, fl: u8) -> Option<Response> {
    let req = Request::new(q).data(Flags(Arc::new(AtomicU8::new(fl))));
    catch(std::panic::AssertUnwindSafe(|| block_on(s.execute(req))))
}

fn pick_names(r: &mut Rng, user: &[String]) -> Vec<String> {
    let mut v: Vec<String> = vec![];
    let mut pool: Vec<String> = user.to_vec();
    r.shuffle(&mut pool);
    v.extend(pool.into_iter().take(3));
    v.push(["__Type", "Int", "Float", "ID", "__Nope", "Missing", "__schema"][r.below(7)].to_string());
    v
}

fn main() {
    let a = parse_args();
    let mut rng = Rng::new(a.seed);
    let mut out = String::new();
    let mut it = Interner::new();
    let mut case_no = 0usize;
    let mut schema_no = 0usize;
    let corpus = corpus();
    // which incl pairs to run: (fields+enumValues, args+inputFields)
    let incls = [(true, false), (true, true), (false, false)];
    while case_no < a.n {
        let sname = format!("s{schema_no}");
        let dump: Dump = Arc::new(Mutex::new(None));
        let it_cell = Arc::new(Mutex::new(std::mem::take(&mut it)));
        enum Sch {
            Gen(Schema<GenQuery, EmptyMutation, EmptySubscription>),
            GenM(Schema<GenQuery, GenMutation, EmptySubscription>),
            Fixed(Schema<fixed::Query, fixed::Mutation, EmptySubscription>),
            Dyn(dynamic::Schema),
        }
        // schema 0..corpus: fixed corpus; then every 9th the derive-built one, every 9th+1 a dynamic one
        let slot = schema_no;
        let (sch, label, user_names, declared_extra, uses_flags): (Sch, String, Vec<String>, Vec<(String, Vec<String>)>, bool);
        let k = if slot < corpus.len() { 0 } else { (slot - corpus.len()) % 9 };
        if slot >= corpus.len() && k == 0 {
            let s = Schema::build(fixed::Query, fixed::Mutation, EmptySubscription).register_output_type::<fixed::Loose>().finish();
            sch = Sch::Fixed(s);
            label = "derive".into();
            user_names = ["Query", "Mutation", "Leaf", "Other", "Beta", "Never", "Entity", "Node", "Loose", "Any3", "Color", "Level", "Filter", "Inner"].iter().map(|s| s.to_string()).collect();
            declared_extra = vec![];
            uses_flags = true;
        } else if slot >= corpus.len() && k == 1 {
            let variant = ((slot - corpus.len()) / 9) % 2;
            let (s, decl) = dynamic_schema(variant, dump.clone(), it_cell.clone());
            sch = Sch::Dyn(s);
            label = format!("dynamic{variant}");
            user_names = ["Query", "Grand", "Parent", "Obj", "Obj2", "Either", "Kind", "Filter"].iter().map(|s| s.to_string()).collect();
            declared_extra = decl;
            uses_flags = false;
        } else {
            let desc = if slot < corpus.len() { corpus[slot].clone() } else { gen_schema(&mut rng) };
            label = if slot < corpus.len() { format!("corpus{slot}") } else { "gen".into() };
            user_names = desc.types.iter().map(|t| t.name.clone()).collect();
            declared_extra = vec![];
            uses_flags = desc_uses_flags(&desc);
            *CURRENT.lock().unwrap() = Some(Arc::new(desc.clone()));
            sch = if desc.mutation.is_some() {
                Sch::GenM(Schema::build(GenQuery, GenMutation, EmptySubscription).register_output_type::<GenExtra>().finish())
            } else {
                Sch::Gen(Schema::build(GenQuery, EmptyMutation, EmptySubscription).register_output_type::<GenExtra>().finish())
            };
        }
        if !matches!(sch, Sch::Dyn(_)) {
            let dump = dump.clone();
            let it_cell = it_cell.clone();
            *PROBE.lock().unwrap() = Some(Box::new(move |ctx: &Context<'_>| {
                let mut it = it_cell.lock().unwrap();
                let g = dump_registry(&mut it, ctx, &ctx.schema_env.registry);
                *dump.lock().unwrap() = Some((g, vec![], vec![]));
            }));
        }
        let run = |q: &str, fl: u8| match &sch {
            Sch::Gen(s) => exec(s, q, fl),
            Sch::GenM(s) => exec(s, q, fl),
            Sch::Fixed(s) => exec(s, q, fl),
            Sch::Dyn(s) => exec(s, q, fl),
        };
        let _ = run("{ probe }", 0);
        it = std::mem::take(&mut *it_cell.lock().unwrap());
        let Some((greg, _, _)) = dump.lock().unwrap().take() else {
            eprintln!("probe did not run for schema {schema_no} ({label})");
            schema_no += 1;
            if schema_no > a.n + 50 {
                break;
            }
            continue;
        };
        // what the schema's author declared about interface implementation (for static schemas this is
        // the registry's own `implements` table, recorded inside the registry dump; the dynamic builder's
        // Interface::implement calls are added here)
        let gdecl = g_list(declared_extra.iter(), |(k, v)| format!("({}, {})", it.n(k), g_list(v.iter(), |x| it.n(x))));
        writeln!(out, "DEF\t{sname}\t({greg}, {gdecl})").unwrap();
        let ctxs: Vec<u8> = if uses_flags { (0..NCTX).collect() } else { vec![0] };
        // per schema: every context, with a rotating includeDeprecated choice (all three for context 0 and 3)
        for &c in &ctxs {
            let which: Vec<(bool, bool)> = if c == 0 || c == 3 || !uses_flags { incls.to_vec() } else { vec![incls[(c as usize + schema_no) % 3]] };
            for (fe, ai) in which {
                if case_no >= a.n && slot >= corpus.len() {
                    break;
                }
                let names = pick_names(&mut rng, &user_names);
                let q = full_query(fe, ai, &names);
                let (gimpl, summary, ntypes) = j_response(&mut it, run(&q, c), &names);
                let text = format!("[{sname} {label}] ctx={c} fe={fe} ai={ai} __type({})", names.join(","));
                let meta = format!(
                    "{{\"uses\":[{}],\"text\":{},\"impl\":{},\"nontrivial\":{}}}",
                    jstr(&sname),
                    jstr(&text),
                    jstr(&summary),
                    ntypes > 0
                );
                writeln!(out, "CASE\t({sname}, {c}%N, {}, {}, {gimpl})\t{meta}", g_bool(fe), g_bool(ai)).unwrap();
                case_no += 1;
            }
        }
        schema_no += 1;
    }
    writeln!(out, "NAMES\t\t{}", serde_json::to_string(&it.names).unwrap()).unwrap();
    std::fs::write(format!("{}/c18.cases", a.out), out).unwrap();
}

//! C14 correspondence: documents (executable and type-system) printed token
//! by token with random ignored text between the tokens — all three line
//! terminators, tabs, commas, BOMs, comments with non-ASCII text — while the
//! character index of every token is recorded.  The real parser / validator /
//! executor then reports positions; every reported position is paired with the
//! index of the token it refers to and handed to the Coq model and spec.
//!
//! streams:  AST  every `Positioned.pos` of the parsed tree, positions inside
//!                non-syntax parser errors, validation and execution error
//!                locations (all produced by PositionCalculator::step)
//!           SYN  positions of syntax errors (pest::Position::line_col)
use std::collections::HashMap;
use std::fmt::Write as _;

use agv_harness::*;
use async_graphql::parser::types::*;
use async_graphql::parser::{Error as PErr, Pos, Positioned, parse_query, parse_schema};
use async_graphql::{EmptyMutation, EmptySubscription, Object, Request, Schema};
use async_graphql_value::{ConstValue, Value};

// ------------------------------------------------------------ emitter ------
#[derive(Clone, Copy, PartialEq, Debug)]
enum Style {
    Lf,    // only "\n"
    CrLf,  // only "\r\n"
    LfMix, // "\n" and "\r\n"
    All,   // "\n", "\r\n" and lone "\r"
    Cr,    // only "\r"
}

struct Em {
    s: String,
    n: usize, // characters emitted so far
    r: Rng,
    style: Style,
    dense: u64, // filler probability in tenths
    marks: Vec<(&'static str, usize)>,
    toks: Vec<usize>, // start index of every token (candidate syntax-error sites)
}

const EXOTIC: [&str; 10] = ["é", "ß", "日本", "😀", "\u{feff}", "Ω", "\u{2028}", "ж", "\u{7f}", "\u{a0}"];

impl Em {
    fn new(r: Rng, style: Style, dense: u64) -> Em {
        Em { s: String::new(), n: 0, r, style, dense, marks: vec![], toks: vec![] }
    }
    fn raw(&mut self, t: &str) {
        self.s.push_str(t);
        self.n += t.chars().count();
    }
    fn term(&mut self) -> &'static str {
        match self.style {
            Style::Lf => "\n",
            Style::CrLf => "\r\n",
            Style::Cr => "\r",
            Style::LfMix => {
                if self.r.chance(1, 2) { "\n" } else { "\r\n" }
            }
            Style::All => match self.r.below(3) {
                0 => "\n",
                1 => "\r\n",
                _ => "\r",
            },
        }
    }
    fn ws_piece(&mut self) {
        match self.r.below(10) {
            0..=3 => self.raw(" "),
            4 => self.raw("\t"),
            5 => self.raw(","),
            6 => self.raw("\u{feff}"),
            _ => {
                let t = self.term();
                self.raw(t)
            }
        }
    }
    fn comment(&mut self) {
        self.raw("#");
        let k = self.r.below(5);
        for _ in 0..k {
            match self.r.below(6) {
                0 => {
                    let e = *self.r.pick(&EXOTIC);
                    self.raw(e)
                }
                1 => self.raw("\t"),
                2 => self.raw(" \"x\" { } $"),
                _ => self.raw("c"),
            }
        }
        let t = self.term();
        self.raw(t);
    }
    /// ignored text between two tokens; `need` forces at least one separator
    fn filler(&mut self, need: bool) {
        let mut k = 0;
        if self.r.chance(self.dense, 10) {
            k = 1 + self.r.below(3);
        }
        if need && k == 0 {
            k = 1;
        }
        for _ in 0..k {
            if self.r.chance(1, 6) {
                self.comment();
            } else {
                self.ws_piece();
            }
        }
    }
    fn wordy(c: char) -> bool {
        c.is_ascii_alphanumeric() || c == '_' || c == '.' || c == '"' || c == '-'
    }
    /// emit a token (after ignored text) and return the index of its first character
    fn tok(&mut self, t: &str) -> usize {
        let need = match (self.s.chars().last(), t.chars().next()) {
            (Some(a), Some(b)) => Em::wordy(a) && Em::wordy(b),
            _ => false,
        };
        self.filler(need);
        let at = self.n;
        self.toks.push(at);
        self.raw(t);
        at
    }
    fn mark(&mut self, k: &'static str, at: usize) {
        self.marks.push((k, at));
    }
    /// token that is also a marked node
    fn mtok(&mut self, k: &'static str, t: &str) -> usize {
        let at = self.tok(t);
        self.mark(k, at);
        at
    }
    fn name_tok(&mut self, t: &str) -> usize {
        self.mtok("name", t)
    }
    /// `on <ws>+ Name` (compound-atomic: whitespace only, no comments)
    fn type_condition(&mut self, ty: &str) {
        let at = self.tok("on");
        self.mark("tc", at);
        let k = 1 + self.r.below(3);
        for _ in 0..k {
            self.ws_piece();
        }
        let at = self.n;
        self.raw(ty);
        self.mark("name", at);
    }
}

// --------------------------------------------------------- generators ------
const NAMES: [&str; 8] = ["a", "b", "foo", "bar_1", "_x", "Q", "zed", "node"];
const TYPES: [&str; 7] = ["Int", "String!", "[Int]", "[[T!]!]!", "T", "Boolean", "[ID!]"];

fn gen_string(e: &mut Em) -> String {
    let mut s = String::new();
    if e.r.chance(1, 3) {
        // block string: may contain raw line terminators of the document's style
        s.push_str("\"\"\"");
        let k = e.r.below(5);
        for _ in 0..k {
            match e.r.below(7) {
                0 => s.push_str(e.term()),
                1 => s.push_str(*e.r.pick(&EXOTIC)),
                2 => s.push_str("\\\"\"\""),
                3 => s.push_str("\t  "),
                4 => s.push_str("\" #"),
                _ => s.push_str("txt"),
            }
        }
        if s.ends_with('"') && s.len() > 3 {
            s.push(' ');
        }
        s.push_str("\"\"\"");
    } else {
        s.push('"');
        let k = e.r.below(4);
        for _ in 0..k {
            match e.r.below(7) {
                0 => s.push_str("\\n"),
                1 => s.push_str(*e.r.pick(&["é", "日本", "😀", "Ω", "\u{feff}", "\t"])),
                2 => s.push_str("\\u00e9"),
                3 => s.push_str("\\\""),
                4 => s.push_str("# , "),
                _ => s.push_str("s"),
            }
        }
        s.push('"');
    }
    s
}

/// a value; `konst` forbids variables.  Emits tokens, returns start index.
fn gen_value(e: &mut Em, konst: bool, depth: usize) -> usize {
    let k = e.r.below(if depth == 0 { 7 } else { 9 });
    match k {
        0 if !konst => {
            let at = e.tok("$");
            let nm = *e.r.pick(&NAMES);
            e.tok(nm); // `variable = { "$" ~ name }` allows ignored text here
            at
        }
        0 | 1 => {
            let t = *e.r.pick(&["0", "-1", "42", "1.5", "-0.0", "6e3", "1.25E-2", "9007199254740993"]);
            e.tok(t)
        }
        2 => {
            let t = gen_string(e);
            e.tok(&t)
        }
        3 => {
            let t = *e.r.pick(&["true", "false"]);
            e.tok(t)
        }
        4 => e.tok("null"),
        5 | 6 => {
            let t = *e.r.pick(&["RED", "nul", "tru", "on", "E_1"]);
            e.tok(t)
        }
        7 => {
            let at = e.tok("[");
            let n = e.r.below(4);
            for _ in 0..n {
                gen_value(e, konst, depth - 1);
            }
            e.tok("]");
            at
        }
        _ => {
            let at = e.tok("{");
            let n = e.r.below(3);
            for _ in 0..n {
                let nm = *e.r.pick(&NAMES);
                e.tok(nm);
                e.tok(":");
                gen_value(e, konst, depth - 1);
            }
            e.tok("}");
            at
        }
    }
}

fn gen_args(e: &mut Em, konst: bool) {
    e.tok("(");
    let n = 1 + e.r.below(3);
    for _ in 0..n {
        let nm = *e.r.pick(&NAMES);
        e.name_tok(nm);
        e.tok(":");
        let at = gen_value(e, konst, 2);
        e.mark(if konst { "cvalue" } else { "value" }, at);
    }
    e.tok(")");
}

fn gen_directives(e: &mut Em, konst: bool, p: u64) {
    let mut n = 0;
    while n < 3 && e.r.chance(p, 10) {
        let at = e.tok("@");
        e.mark("dir", at);
        let nm = *e.r.pick(&["skip", "include", "d", "deprecated"]);
        e.name_tok(nm);
        if e.r.chance(1, 2) {
            gen_args(e, konst);
        }
        n += 1;
    }
}

fn gen_selset(e: &mut Em, depth: usize) {
    e.mtok("selset", "{");
    let n = 1 + e.r.below(3);
    for _ in 0..n {
        let k = e.r.below(10);
        if k < 6 || depth == 0 {
            // field
            let alias = e.r.chance(1, 4);
            let first = *e.r.pick(&NAMES);
            let at = e.tok(first);
            e.mark("sel", at);
            e.mark("field", at);
            e.mark("name", at);
            if alias {
                e.tok(":");
                let nm = *e.r.pick(&NAMES);
                e.name_tok(nm);
            }
            if e.r.chance(1, 3) {
                gen_args(e, false);
            }
            gen_directives(e, false, 2);
            if depth > 0 && e.r.chance(1, 3) {
                gen_selset(e, depth - 1);
            }
        } else if k < 8 {
            let at = e.tok("...");
            e.mark("sel", at);
            e.mark("spread", at);
            let nm = *e.r.pick(&["F0", "F1", "Frag", "onx"]);
            e.name_tok(nm);
            gen_directives(e, false, 2);
        } else {
            let at = e.tok("...");
            e.mark("sel", at);
            e.mark("inline", at);
            if e.r.chance(2, 3) {
                let ty = *e.r.pick(&["T", "Query", "on"]);
                e.type_condition(ty);
            }
            gen_directives(e, false, 2);
            gen_selset(e, depth - 1);
        }
    }
    e.tok("}");
}

struct DefInfo {
    key: String, // "op:<name>" / "op:" / "frag:<name>"
    start: usize,
    marks: Vec<(&'static str, usize)>,
}

fn gen_operation(e: &mut Em, name: Option<&str>) -> DefInfo {
    let m0 = e.marks.len();
    let start;
    if name.is_none() && e.r.chance(1, 2) {
        // shorthand
        let before = e.marks.len();
        gen_selset(e, 2);
        start = e.marks[before].1;
        e.marks.insert(before, ("op", start));
    } else {
        let kw = *e.r.pick(&["query", "query", "mutation", "subscription"]);
        start = e.mtok("op", kw);
        if let Some(n) = name {
            e.tok(n);
        }
        if e.r.chance(1, 3) {
            e.tok("(");
            let n = e.r.below(3);
            for _ in 0..n {
                let at = e.tok("$");
                e.mark("vardef", at);
                let nm = *e.r.pick(&NAMES);
                e.name_tok(nm);
                e.tok(":");
                let ty = *e.r.pick(&TYPES);
                e.mtok("type", ty);
                gen_directives(e, false, 2);
                if e.r.chance(1, 2) {
                    e.tok("=");
                    let at = gen_value(e, true, 2);
                    e.mark("cvalue", at);
                }
            }
            e.tok(")");
        }
        gen_directives(e, false, 2);
        gen_selset(e, 2);
    }
    DefInfo { key: format!("op:{}", name.unwrap_or("")), start, marks: e.marks.split_off(m0) }
}

fn gen_fragment(e: &mut Em, name: &str) -> DefInfo {
    let m0 = e.marks.len();
    let start = e.mtok("frag", "fragment");
    e.tok(name);
    let ty = *e.r.pick(&["T", "Query", "on"]);
    e.type_condition(ty);
    gen_directives(e, false, 2);
    gen_selset(e, 2);
    DefInfo { key: format!("frag:{name}"), start, marks: e.marks.split_off(m0) }
}

/// dup: 0 none, 1 duplicate fragment, 2 duplicate operation, 3 anonymous + named
fn gen_exec_doc(e: &mut Em, dup: u8) -> Vec<DefInfo> {
    let mut defs = vec![];
    e.filler(false);
    match dup {
        3 => {
            if e.r.chance(1, 2) {
                defs.push(gen_operation(e, None));
                defs.push(gen_operation(e, Some("N0")));
            } else {
                defs.push(gen_operation(e, Some("N0")));
                defs.push(gen_operation(e, None));
            }
        }
        2 => {
            defs.push(gen_operation(e, Some("N0")));
            if e.r.chance(1, 2) {
                defs.push(gen_fragment(e, "F0"));
            }
            defs.push(gen_operation(e, Some("N0")));
        }
        _ => {
            let nops = if e.r.chance(1, 2) { 1 } else { 1 + e.r.below(3) };
            let anonymous = dup == 0 && nops == 1 && e.r.chance(2, 3);
            let nfr = e.r.below(3);
            let mut order: Vec<(bool, usize)> = (0..nops).map(|i| (true, i)).chain((0..nfr).map(|i| (false, i))).collect();
            e.r.shuffle(&mut order);
            for (is_op, i) in order {
                if is_op {
                    let nm = format!("N{i}");
                    defs.push(gen_operation(e, if anonymous { None } else { Some(&nm) }));
                } else {
                    defs.push(gen_fragment(e, &format!("F{i}")));
                }
            }
            if dup == 1 {
                defs.push(gen_fragment(e, "F9"));
                defs.push(gen_operation(e, Some("N9")));
                defs.push(gen_fragment(e, "F9"));
            }
        }
    }
    e.filler(false);
    defs
}

// --------------------------------------------------- service documents -----
fn gen_description(e: &mut Em, p: u64) -> Option<usize> {
    if e.r.chance(p, 10) {
        let t = gen_string(e);
        Some(e.tok(&t))
    } else {
        None
    }
}

fn gen_ivd(e: &mut Em) {
    let d = gen_description(e, 2);
    let nm = *e.r.pick(&NAMES);
    let at = e.tok(nm);
    let start = d.unwrap_or(at);
    e.mark("ivd", start);
    if d.is_some() {
        e.mark("string", start);
    }
    e.mark("name", at);
    e.tok(":");
    let ty = *e.r.pick(&TYPES);
    e.mtok("type", ty);
    if e.r.chance(1, 3) {
        e.tok("=");
        let at = gen_value(e, true, 2);
        e.mark("cvalue", at);
    }
    gen_directives(e, true, 2);
}

fn gen_fields_def(e: &mut Em) {
    e.tok("{");
    let n = 1 + e.r.below(3);
    for _ in 0..n {
        let d = gen_description(e, 3);
        let nm = *e.r.pick(&NAMES);
        let at = e.tok(nm);
        let start = d.unwrap_or(at);
        e.mark("fielddef", start);
        if d.is_some() {
            e.mark("string", start);
        }
        e.mark("name", at);
        if e.r.chance(1, 3) {
            e.tok("(");
            let k = 1 + e.r.below(2);
            for _ in 0..k {
                gen_ivd(e);
            }
            e.tok(")");
        }
        e.tok(":");
        let ty = *e.r.pick(&TYPES);
        e.mtok("type", ty);
        gen_directives(e, true, 2);
    }
    e.tok("}");
}

/// one type-system definition; returns false for schema definitions (for the
/// caller's bookkeeping of at most one `schema`)
fn gen_ts_def(e: &mut Em, kind: usize) {
    match kind {
        0 => {
            // schema { query: Q mutation: M }
            let at = e.tok("schema");
            e.mark("schema", at);
            gen_directives(e, true, 3);
            e.tok("{");
            e.tok("query");
            e.tok(":");
            e.name_tok("Q");
            if e.r.chance(1, 2) {
                e.tok("mutation");
                e.tok(":");
                e.name_tok("M");
            }
            if e.r.chance(1, 3) {
                e.tok("subscription");
                e.tok(":");
                e.name_tok("S");
            }
            e.tok("}");
        }
        1..=6 => {
            let extend = e.r.chance(1, 5);
            let d = if extend { None } else { gen_description(e, 4) };
            let first = if extend { e.tok("extend") } else { usize::MAX };
            let kw = ["scalar", "type", "interface", "union", "enum", "input"][kind - 1];
            let kwat = e.tok(kw);
            let start = d.unwrap_or(if extend { first } else { kwat });
            e.mark("typedef", start);
            if d.is_some() {
                e.mark("string", start);
            }
            let nm = *e.r.pick(&["T", "U", "Node", "_t"]);
            e.name_tok(nm);
            match kind {
                1 => {
                    // extend scalar needs directives
                    if extend {
                        gen_directives(e, true, 10);
                    } else {
                        gen_directives(e, true, 3);
                    }
                }
                2 | 3 => {
                    if e.r.chance(1, 3) {
                        e.tok("implements");
                        if e.r.chance(1, 3) {
                            e.tok("&");
                        }
                        e.name_tok("I1");
                        if e.r.chance(1, 2) {
                            e.tok("&");
                            e.name_tok("I2");
                        }
                    }
                    gen_directives(e, true, 2);
                    gen_fields_def(e); // always present: keeps `extend` forms valid
                }
                4 => {
                    gen_directives(e, true, 2);
                    e.tok("=");
                    if e.r.chance(1, 3) {
                        e.tok("|");
                    }
                    e.name_tok("A");
                    if e.r.chance(1, 2) {
                        e.tok("|");
                        e.name_tok("B");
                    }
                }
                5 => {
                    gen_directives(e, true, 2);
                    e.tok("{");
                    let n = 1 + e.r.below(3);
                    for _ in 0..n {
                        let d = gen_description(e, 3);
                        let nm = *e.r.pick(&["RED", "GREEN", "nul", "on"]);
                        let at = e.tok(nm);
                        let start = d.unwrap_or(at);
                        e.mark("enumval", start);
                        if d.is_some() {
                            e.mark("string", start);
                        }
                        e.mark("name", at);
                        gen_directives(e, true, 2);
                    }
                    e.tok("}");
                }
                _ => {
                    gen_directives(e, true, 2);
                    e.tok("{");
                    let n = 1 + e.r.below(3);
                    for _ in 0..n {
                        gen_ivd(e);
                    }
                    e.tok("}");
                }
            }
        }
        _ => {
            let d = gen_description(e, 3);
            let kwat = e.tok("directive");
            let start = d.unwrap_or(kwat);
            e.mark("dirdef", start);
            if d.is_some() {
                e.mark("string", start);
            }
            e.tok("@");
            e.name_tok("dd");
            if e.r.chance(1, 2) {
                e.tok("(");
                let k = 1 + e.r.below(2);
                for _ in 0..k {
                    gen_ivd(e);
                }
                e.tok(")");
            }
            if e.r.chance(1, 3) {
                e.tok("repeatable");
            }
            e.tok("on");
            if e.r.chance(1, 3) {
                e.tok("|");
            }
            let locs = ["QUERY", "FIELD", "FIELD_DEFINITION", "ENUM_VALUE", "ENUM", "INPUT_OBJECT", "INPUT_FIELD_DEFINITION", "SCHEMA"];
            let l = *e.r.pick(&locs);
            e.mtok("loc", l);
            while e.r.chance(1, 3) {
                e.tok("|");
                let l = *e.r.pick(&locs);
                e.mtok("loc", l);
            }
        }
    }
}

// ------------------------------------------------------- AST walkers -------
type Out = Vec<(&'static str, Pos)>;

fn w_dirs(o: &mut Out, ds: &[Positioned<Directive>]) {
    for d in ds {
        o.push(("dir", d.pos));
        o.push(("name", d.node.name.pos));
        for (n, v) in &d.node.arguments {
            o.push(("name", n.pos));
            o.push(("value", v.pos));
        }
    }
}

fn w_cdirs(o: &mut Out, ds: &[Positioned<ConstDirective>]) {
    for d in ds {
        o.push(("dir", d.pos));
        o.push(("name", d.node.name.pos));
        for (n, v) in &d.node.arguments {
            o.push(("name", n.pos));
            o.push(("cvalue", v.pos));
        }
    }
}

fn w_selset(o: &mut Out, ss: &Positioned<SelectionSet>) {
    if ss.node.items.is_empty() {
        return; // Positioned::default() of a field without sub-selection
    }
    o.push(("selset", ss.pos));
    for s in &ss.node.items {
        o.push(("sel", s.pos));
        match &s.node {
            Selection::Field(f) => {
                o.push(("field", f.pos));
                if let Some(a) = &f.node.alias {
                    o.push(("name", a.pos));
                }
                o.push(("name", f.node.name.pos));
                for (n, v) in &f.node.arguments {
                    o.push(("name", n.pos));
                    o.push(("value", v.pos));
                }
                w_dirs(o, &f.node.directives);
                w_selset(o, &f.node.selection_set);
            }
            Selection::FragmentSpread(sp) => {
                o.push(("spread", sp.pos));
                o.push(("name", sp.node.fragment_name.pos));
                w_dirs(o, &sp.node.directives);
            }
            Selection::InlineFragment(fr) => {
                o.push(("inline", fr.pos));
                if let Some(tc) = &fr.node.type_condition {
                    o.push(("tc", tc.pos));
                    o.push(("name", tc.node.on.pos));
                }
                w_dirs(o, &fr.node.directives);
                w_selset(o, &fr.node.selection_set);
            }
        }
    }
}

fn w_op(o: &mut Out, op: &Positioned<OperationDefinition>) {
    o.push(("op", op.pos));
    for vd in &op.node.variable_definitions {
        o.push(("vardef", vd.pos));
        o.push(("name", vd.node.name.pos));
        o.push(("type", vd.node.var_type.pos));
        w_dirs(o, &vd.node.directives);
        if let Some(d) = &vd.node.default_value {
            o.push(("cvalue", d.pos));
        }
    }
    w_dirs(o, &op.node.directives);
    w_selset(o, &op.node.selection_set);
}

fn w_frag(o: &mut Out, fr: &Positioned<FragmentDefinition>) {
    o.push(("frag", fr.pos));
    o.push(("tc", fr.node.type_condition.pos));
    o.push(("name", fr.node.type_condition.node.on.pos));
    w_dirs(o, &fr.node.directives);
    w_selset(o, &fr.node.selection_set);
}

fn w_desc(o: &mut Out, d: &Option<Positioned<String>>) {
    if let Some(d) = d {
        o.push(("string", d.pos));
    }
}

fn w_ivd(o: &mut Out, v: &Positioned<InputValueDefinition>) {
    o.push(("ivd", v.pos));
    w_desc(o, &v.node.description);
    o.push(("name", v.node.name.pos));
    o.push(("type", v.node.ty.pos));
    if let Some(d) = &v.node.default_value {
        o.push(("cvalue", d.pos));
    }
    w_cdirs(o, &v.node.directives);
}

fn w_fields(o: &mut Out, fs: &[Positioned<FieldDefinition>]) {
    for f in fs {
        o.push(("fielddef", f.pos));
        w_desc(o, &f.node.description);
        o.push(("name", f.node.name.pos));
        for a in &f.node.arguments {
            w_ivd(o, a);
        }
        o.push(("type", f.node.ty.pos));
        w_cdirs(o, &f.node.directives);
    }
}

fn w_service(o: &mut Out, doc: &ServiceDocument) {
    for d in &doc.definitions {
        match d {
            TypeSystemDefinition::Schema(s) => {
                o.push(("schema", s.pos));
                w_cdirs(o, &s.node.directives);
                for n in [&s.node.query, &s.node.mutation, &s.node.subscription].into_iter().flatten() {
                    o.push(("name", n.pos));
                }
            }
            TypeSystemDefinition::Type(t) => {
                o.push(("typedef", t.pos));
                w_desc(o, &t.node.description);
                o.push(("name", t.node.name.pos));
                match &t.node.kind {
                    TypeKind::Scalar => w_cdirs(o, &t.node.directives),
                    TypeKind::Object(ObjectType { implements, fields }) | TypeKind::Interface(InterfaceType { implements, fields }) => {
                        for n in implements {
                            o.push(("name", n.pos));
                        }
                        w_cdirs(o, &t.node.directives);
                        w_fields(o, fields);
                    }
                    TypeKind::Union(u) => {
                        w_cdirs(o, &t.node.directives);
                        for n in &u.members {
                            o.push(("name", n.pos));
                        }
                    }
                    TypeKind::Enum(en) => {
                        w_cdirs(o, &t.node.directives);
                        for v in &en.values {
                            o.push(("enumval", v.pos));
                            w_desc(o, &v.node.description);
                            o.push(("name", v.node.value.pos));
                            w_cdirs(o, &v.node.directives);
                        }
                    }
                    TypeKind::InputObject(io) => {
                        w_cdirs(o, &t.node.directives);
                        for v in &io.fields {
                            w_ivd(o, v);
                        }
                    }
                }
            }
            TypeSystemDefinition::Directive(dd) => {
                o.push(("dirdef", dd.pos));
                w_desc(o, &dd.node.description);
                o.push(("name", dd.node.name.pos));
                for a in &dd.node.arguments {
                    w_ivd(o, a);
                }
                for l in &dd.node.locations {
                    o.push(("loc", l.pos));
                }
            }
        }
    }
}

// ------------------------------------------------------------ output -------
fn jstr(s: &str) -> String {
    serde_json::to_string(s).unwrap()
}

fn g_pairs(ps: &[(usize, Pos)]) -> String {
    g_list(ps.iter(), |(i, p)| format!("({}, ({}, {}))", i, p.line, p.column))
}

fn has_lone_cr(s: &str) -> bool {
    let b = s.as_bytes();
    (0..b.len()).any(|i| b[i] == b'\r' && b.get(i + 1) != Some(&b'\n'))
}

struct Sink {
    out: String,
    count: usize,
}

impl Sink {
    fn case(&mut self, kind: &str, what: &str, text: &str, ps: &[(usize, Pos)]) {
        let impl_s = ps.iter().take(6).map(|(i, p)| format!("{}->{}:{}", i, p.line, p.column)).collect::<Vec<_>>().join(" ");
        writeln!(
            self.out,
            "{kind}\t({}, {})\t{{\"text\":{},\"impl\":{},\"nontrivial\":{}}}",
            g_str(text),
            g_pairs(ps),
            jstr(&format!("[{what}] {text}")),
            jstr(&impl_s),
            text.contains('\n') || text.contains('\r')
        )
        .unwrap();
        self.count += 1;
    }
    fn note(&mut self, kind: &str, text: &str, why: &str) {
        writeln!(self.out, "{kind}\t\t{{\"text\":{},\"why\":{}}}", jstr(text), jstr(why)).unwrap();
    }
}

/// zip generator marks with walker output; a disagreement in shape is a
/// harness defect (or a parser that builds a different tree) and is reported
/// on its own line kind, never as a position case.
fn zip_marks(marks: &[(&'static str, usize)], got: &Out) -> Option<Vec<(usize, Pos)>> {
    if marks.len() != got.len() || marks.iter().zip(got).any(|(m, g)| m.0 != g.0) {
        return None;
    }
    Some(marks.iter().zip(got).map(|(m, g)| (m.1, g.1)).collect())
}

fn run_exec(sink: &mut Sink, r: &mut Rng, style: Style, dense: u64, dup: u8) {
    let mut e = Em::new(r.fork(), style, dense);
    let defs = gen_exec_doc(&mut e, dup);
    let text = e.s.clone();
    match parse_query(&text) {
        Ok(doc) => {
            if dup != 0 {
                sink.note("SHAPE", &text, "duplicate definitions accepted");
                return;
            }
            let mut ps = vec![];
            for d in &defs {
                let mut o: Out = vec![];
                if let Some(n) = d.key.strip_prefix("op:") {
                    let found = match &doc.operations {
                        DocumentOperations::Single(op) if n.is_empty() => Some(op),
                        DocumentOperations::Multiple(m) => m.get(n),
                        _ => None,
                    };
                    match found {
                        Some(op) => w_op(&mut o, op),
                        None => {
                            sink.note("SHAPE", &text, "operation missing from the tree");
                            return;
                        }
                    }
                } else if let Some(n) = d.key.strip_prefix("frag:") {
                    match doc.fragments.get(n) {
                        Some(fr) => w_frag(&mut o, fr),
                        None => {
                            sink.note("SHAPE", &text, "fragment missing from the tree");
                            return;
                        }
                    }
                }
                match zip_marks(&d.marks, &o) {
                    Some(z) => ps.extend(z),
                    None => {
                        sink.note("SHAPE", &text, &format!("marks {:?} vs tree {:?}", d.marks, o));
                        return;
                    }
                }
            }
            sink.case("AST", &format!("exec {:?}", style), &text, &ps);
        }
        Err(err) => {
            let ps: Option<Vec<(usize, Pos)>> = match (&err, dup) {
                (PErr::FragmentDuplicated { first, second, .. }, 1) => {
                    let f: Vec<&DefInfo> = defs.iter().filter(|d| d.key == "frag:F9").collect();
                    Some(vec![(f[0].start, *first), (f[1].start, *second)])
                }
                (PErr::OperationDuplicated { first, second, .. }, 2) => {
                    let f: Vec<&DefInfo> = defs.iter().filter(|d| d.key == "op:N0").collect();
                    Some(vec![(f[0].start, *first), (f[1].start, *second)])
                }
                (PErr::MultipleOperations { anonymous, operation }, 3) => {
                    let a = defs.iter().find(|d| d.key == "op:").unwrap();
                    let o = defs.iter().find(|d| d.key == "op:N0").unwrap();
                    Some(vec![(a.start, *anonymous), (o.start, *operation)])
                }
                _ => None,
            };
            match ps {
                Some(ps) => sink.case("AST", &format!("parse-error {:?}", style), &text, &ps),
                None => sink.note("SHAPE", &text, &format!("generated document rejected: {err:?}")),
            }
        }
    }
}

fn run_service(sink: &mut Sink, r: &mut Rng, style: Style, dense: u64, fault: u8) {
    let mut e = Em::new(r.fork(), style, dense);
    e.filler(false);
    let mut expect_err: Option<Vec<usize>> = None;
    if fault == 1 {
        // schema without a query root
        let at = e.tok("schema");
        e.tok("{");
        e.tok("mutation");
        e.tok(":");
        e.tok("M");
        e.tok("}");
        expect_err = Some(vec![at]);
    } else if fault == 2 {
        // two query roots: MultipleRoots { schema, pos }; positions() = [pos, schema]
        let at = e.tok("schema");
        e.tok("{");
        e.tok("query");
        e.tok(":");
        e.tok("Q");
        let second = e.tok("query");
        e.tok(":");
        e.tok("Q2");
        e.tok("}");
        expect_err = Some(vec![second, at]);
    } else {
        let n = 1 + e.r.below(4);
        let mut have_schema = false;
        for _ in 0..n {
            let mut k = e.r.below(8);
            if k == 0 && have_schema {
                k = 2;
            }
            have_schema |= k == 0;
            gen_ts_def(&mut e, k);
        }
    }
    e.filler(false);
    let text = e.s.clone();
    match (parse_schema(&text), expect_err) {
        (Ok(doc), None) => {
            let mut o: Out = vec![];
            w_service(&mut o, &doc);
            match zip_marks(&e.marks, &o) {
                Some(ps) => sink.case("AST", &format!("service {:?}", style), &text, &ps),
                None => sink.note("SHAPE", &text, &format!("marks {:?} vs tree {:?}", e.marks, o)),
            }
        }
        (Err(err), Some(exp)) => {
            let got: Vec<Pos> = err.positions().collect();
            if got.len() == exp.len() && !matches!(err, PErr::Syntax { .. }) {
                let ps: Vec<(usize, Pos)> = exp.into_iter().zip(got).collect();
                sink.case("AST", &format!("schema-error {:?}", style), &text, &ps);
            } else {
                sink.note("SHAPE", &text, &format!("unexpected error {err:?}"));
            }
        }
        (r, _) => sink.note("SHAPE", &text, &format!("unexpected parser answer {:?}", r.err())),
    }
}

const ILLEGAL: [&str; 8] = ["%", "^", "?", "~", ";", "é", "\\", "<"];

fn run_syntax(sink: &mut Sink, r: &mut Rng, style: Style, dense: u64) {
    let mut e = Em::new(r.fork(), style, dense);
    let service = r.chance(1, 4);
    if service {
        e.filler(false);
        let n = 1 + e.r.below(3);
        for _ in 0..n {
            let k = 1 + e.r.below(7);
            gen_ts_def(&mut e, k);
        }
    } else {
        gen_exec_doc(&mut e, 0);
    }
    let chars: Vec<char> = e.s.chars().collect();
    let at = *r.pick(&e.toks);
    let text: String = if r.chance(1, 5) {
        // truncate just before a token: the failure is at the end of input
        if at == 0 {
            return;
        }
        chars[..at].iter().collect()
    } else {
        let bad = *r.pick(&ILLEGAL);
        let mut t: String = chars[..at].iter().collect();
        t.push_str(bad);
        t.extend(chars[at..].iter());
        t
    };
    let parse = |t: &str| if service { parse_schema(t).err() } else { parse_query(t).err() };
    // Which offset pest blames is pest's business (the furthest position at
    // which a grammar *rule* failed — not always the inserted character).  The
    // case is kept only when the blamed offset is the predicted one; this is
    // read off a variant of the text in which every line terminator is LF
    // (same length, same token structure), where offsets and line/column
    // pairs correspond trivially.
    let variant = lf_variant(&text);
    let blamed = match parse(&variant) {
        Some(PErr::Syntax { start, .. }) => lf_offset(&variant, start),
        _ => None,
    };
    if blamed != Some(at) {
        sink.note("SHAPE", &text, "pest blames another offset than the inserted character");
        return;
    }
    match parse(&text) {
        Some(PErr::Syntax { start, end, .. }) => {
            let mut ps = vec![(at, start)];
            if let Some(en) = end {
                ps.push((at, en));
            }
            sink.case("SYN", &format!("syntax {:?}", style), &text, &ps);
        }
        other => sink.note("SHAPE", &text, &format!("no syntax error: {other:?}")),
    }
}

/// CR LF -> space LF, lone CR -> LF: same number of characters, same tokens.
fn lf_variant(t: &str) -> String {
    let cs: Vec<char> = t.chars().collect();
    let mut o = String::new();
    for i in 0..cs.len() {
        if cs[i] == '\r' {
            o.push(if cs.get(i + 1) == Some(&'\n') { ' ' } else { '\n' });
        } else {
            o.push(cs[i]);
        }
    }
    o
}

/// character index of (line, column) in a text whose only terminator is LF
fn lf_offset(t: &str, p: Pos) -> Option<usize> {
    let (mut l, mut c) = (1usize, 1usize);
    for (i, ch) in t.chars().enumerate() {
        if (l, c) == (p.line, p.column) {
            return Some(i);
        }
        if ch == '\n' {
            l += 1;
            c = 1;
        } else {
            c += 1;
        }
    }
    if (l, c) == (p.line, p.column) { Some(t.chars().count()) } else { None }
}

// -------------------------------------- validation and execution errors ----
struct Obj;

#[Object]
impl Obj {
    async fn x(&self) -> i32 {
        1
    }
    async fn bad(&self) -> async_graphql::Result<i32> {
        Err("boom".into())
    }
    async fn o(&self) -> Obj {
        Obj
    }
}

struct Query;

#[Object]
impl Query {
    async fn a(&self, n: Option<i32>) -> i32 {
        n.unwrap_or(0)
    }
    async fn o(&self) -> Obj {
        Obj
    }
    async fn bad(&self) -> async_graphql::Result<Option<i32>> {
        Err("boom".into())
    }
    async fn list(&self) -> Vec<Obj> {
        vec![Obj, Obj]
    }
}

/// schema-valid selection set with exactly one fault injected at slot `target`
/// (slots are numbered in emission order); returns the index the error refers to
struct VGen {
    slot: usize,
    target: usize,
    fault: usize,
    at: Option<usize>,
}

impl VGen {
    fn here(&mut self) -> bool {
        let h = self.slot == self.target && self.at.is_none();
        self.slot += 1;
        h
    }
    fn sel(&mut self, e: &mut Em, on_query: bool, depth: usize) {
        e.tok("{");
        let n = 1 + e.r.below(3);
        for _ in 0..n {
            if self.here() {
                self.inject(e, on_query);
                continue;
            }
            let aliased = e.r.chance(1, 2);
            if aliased {
                let a = format!("k{}", self.slot);
                e.tok(&a);
                e.tok(":");
            }
            let k = e.r.below(if depth == 0 { 1 } else { 3 });
            match (k, on_query) {
                (0, true) => {
                    e.tok("a");
                    if aliased && e.r.chance(1, 2) {
                        e.tok("(");
                        e.tok("n");
                        e.tok(":");
                        e.tok("3");
                        e.tok(")");
                    }
                }
                (0, false) => {
                    e.tok("x");
                }
                (1, true) => {
                    e.tok("list");
                    self.sel(e, false, depth - 1);
                }
                _ => {
                    e.tok("o");
                    self.sel(e, false, depth - 1);
                }
            }
        }
        e.tok("}");
    }
    fn inject(&mut self, e: &mut Em, on_query: bool) {
        let at;
        let leaf = if on_query { "a" } else { "x" };
        match self.fault {
            0 => at = e.tok("zz"),
            1 => {
                at = e.tok("al");
                e.tok(":");
                e.tok("bad");
            }
            2 if on_query => {
                e.tok("zq");
                e.tok(":");
                e.tok("a");
                e.tok("(");
                at = e.tok("zz");
                e.tok(":");
                e.tok("1");
                e.tok(")");
            }
            3 => {
                e.tok("zq");
                e.tok(":");
                e.tok(leaf);
                at = e.tok("@");
                e.tok("zz");
            }
            4 => {
                at = e.tok("...");
                e.tok("Zz");
            }
            5 if on_query => {
                e.tok("zq");
                e.tok(":");
                e.tok("a");
                e.tok("(");
                at = e.tok("n");
                e.tok(":");
                e.tok("\"s\"");
                e.tok(")");
            }
            6 => {
                at = e.tok("zq");
                e.tok(":");
                e.tok(leaf);
                e.tok("{");
                e.tok("__typename");
                e.tok("}");
            }
            7 => {
                at = e.tok("zq");
                e.tok(":");
                e.tok("o");
            }
            _ => at = e.tok("zz"),
        }
        self.at = Some(at);
    }
}

fn run_validation(sink: &mut Sink, r: &mut Rng, style: Style, dense: u64, schema: &Schema<Query, EmptyMutation, EmptySubscription>) {
    let mut e = Em::new(r.fork(), style, dense);
    let fault = r.below(9);
    let mut g = VGen { slot: 0, target: if fault == 8 { usize::MAX } else { r.below(4) }, fault, at: None };
    e.filler(false);
    if r.chance(1, 2) {
        e.tok("query");
        if r.chance(1, 2) {
            e.tok("Op");
        }
    }
    g.sel(&mut e, true, 2);
    if fault == 8 {
        // unused fragment: reported at the fragment definition
        let at = e.tok("fragment");
        e.tok("Zz");
        e.type_condition("Query");
        e.tok("{");
        e.tok("a");
        e.tok("}");
        g.at = Some(at);
    }
    e.filler(false);
    let Some(at) = g.at else {
        return;
    };
    let text = e.s.clone();
    let resp = block_on(schema.execute(Request::new(text.clone())));
    let locs: Vec<Pos> = resp.errors.iter().flat_map(|er| er.locations.iter().copied()).collect();
    if locs.is_empty() {
        sink.note("SHAPE", &text, "no error location reported");
        return;
    }
    let ps: Vec<(usize, Pos)> = locs.into_iter().map(|p| (at, p)).collect();
    let what = if resp.errors.iter().any(|er| !er.path.is_empty()) { "execution-error" } else { "validation-error" };
    sink.case("AST", &format!("{what} {:?}", style), &text, &ps);
}

// -------------------------------------------------------------- corpus -----
fn fixed_corpus(sink: &mut Sink) {
    // the witness of the known finding and its neighbours
    for (text, idx) in [
        ("{\ra}", 2usize),
        ("{\na}", 2),
        ("{\r\na}", 3),
        ("{\n\ra}", 3),
        ("{\r\ra}", 3),
        ("{\r\n\r\na}", 5),
        ("\u{feff}{\t,a}", 4),
        ("#日本\r\n{a}", 6),
        ("#é\r{a}", 4),
    ] {
        match parse_query(text) {
            Ok(doc) => {
                let op = doc.operations.iter().next().unwrap().1;
                let f = &op.node.selection_set.node.items[0];
                sink.case("AST", "corpus", text, &[(idx, f.pos)]);
            }
            Err(e) => sink.note("SHAPE", text, &format!("{e:?}")),
        }
    }
    for (text, idx) in [("{\r%", 2usize), ("{\n%", 2), ("{\r\n%", 3), ("{ a\r\r%", 5), ("{\u{feff}\t%", 3), ("{ a(b:\"x\r\n\")}", 6)] {
        match parse_query(text) {
            Err(PErr::Syntax { start, .. }) => sink.case("SYN", "corpus", text, &[(idx, start)]),
            other => sink.note("SHAPE", text, &format!("{other:?}")),
        }
    }
}

fn main() {
    let a = parse_args();
    let mut rng = Rng::new(a.seed);
    let mut sink = Sink { out: String::new(), count: 0 };
    fixed_corpus(&mut sink);
    let schema = Schema::new(Query, EmptyMutation, EmptySubscription);
    let styles = [Style::Lf, Style::CrLf, Style::LfMix, Style::LfMix, Style::All, Style::All, Style::Cr];
    let mut guard = 0;
    while sink.count < a.n && guard < a.n * 4 + 100 {
        guard += 1;
        let style = *rng.pick(&styles);
        let dense = [3u64, 6, 9][rng.below(3)];
        match rng.below(20) {
            0..=6 => run_exec(&mut sink, &mut rng, style, dense, 0),
            7 => {
                let d = 1 + rng.below(3) as u8;
                run_exec(&mut sink, &mut rng, style, dense, d)
            }
            8..=11 => run_service(&mut sink, &mut rng, style, dense, 0),
            12 => {
                let f = 1 + rng.below(2) as u8;
                run_service(&mut sink, &mut rng, style, dense, f)
            }
            13..=15 => run_syntax(&mut sink, &mut rng, style, dense),
            _ => run_validation(&mut sink, &mut rng, style, dense, &schema),
        }
    }
    let _ = has_lone_cr;
    let _: HashMap<u8, u8> = HashMap::new();
    let _ = (ConstValue::Null, Value::Null);
    std::fs::write(format!("{}/c14.cases", a.out), sink.out).unwrap();
}

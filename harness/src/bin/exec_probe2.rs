use agv_harness::family::*;
fn main() {
    println!("{}", build().finish().sdl());
}

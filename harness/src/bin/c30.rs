//! C30 correspondence: the derive-built schema family (harness/src/family.rs)
//! executed with stacks of 0..3 recording pass-through extensions.  Every hook
//! of every extension records enter/exit with its arguments; for each
//! generated request the response with k extensions is compared with the
//! response without extensions (full JSON, cache policy, headers) and the
//! recorded hook trace is printed for comparison with the model (Ext.v).
//! Includes failing parses, failing validations, failing operation selection,
//! failing resolvers and the introspection-only execution mode (where the
//! mutation root is replaced by `EmptyMutation`, whose static type name is not
//! registered).  `c30 <seed> <n> <out>`.
use std::collections::HashMap;
use std::fmt::Write as _;
use std::sync::{Arc, Mutex};

use agv_harness::family::*;
use agv_harness::genschema::set_probe;
use agv_harness::*;
use async_graphql::extensions::*;
use async_graphql::parser::types::ExecutableDocument;
use async_graphql::registry::{MetaType, Registry};
use async_graphql::*;
use futures_util::stream::BoxStream;

// ------------------------------------------------------------ recording extension
#[derive(Clone, Debug, PartialEq)]
enum Seg {
    F(String),
    I(usize),
}

#[derive(Clone, Debug, PartialEq)]
enum Hk {
    Request,
    Prepare,
    Parse,
    Validation,
    Execute(Option<String>),
    /// path, parent type, return type, field name, alias
    Field(Vec<Seg>, String, String, String, Option<String>),
    Item(Vec<Seg>, String, String, String, Option<String>),
    Subscribe,
}

#[derive(Clone, Debug, PartialEq)]
enum Ev {
    Enter(usize, Hk),
    Exit(usize, Hk, bool),
}

static LOG: Mutex<Vec<Ev>> = Mutex::new(Vec::new());

fn log(e: Ev) {
    LOG.lock().unwrap().push(e);
}

struct Rec(usize);
struct RecFactory(usize);
impl ExtensionFactory for RecFactory {
    fn create(&self) -> Arc<dyn Extension> {
        Arc::new(Rec(self.0))
    }
}

fn segs(n: &QueryPathNode<'_>) -> Vec<Seg> {
    let mut v = vec![];
    let mut cur = Some(n);
    while let Some(c) = cur {
        v.push(match c.segment {
            QueryPathSegment::Index(i) => Seg::I(i),
            QueryPathSegment::Name(s) => Seg::F(s.to_string()),
        });
        cur = c.parent;
    }
    v.reverse();
    v
}

#[async_trait::async_trait]
impl Extension for Rec {
    async fn request(&self, ctx: &ExtensionContext<'_>, next: NextRequest<'_>) -> Response {
        log(Ev::Enter(self.0, Hk::Request));
        let r = next.run(ctx).await;
        log(Ev::Exit(self.0, Hk::Request, r.errors.is_empty()));
        r
    }
    fn subscribe<'s>(&self, ctx: &ExtensionContext<'_>, stream: BoxStream<'s, Response>, next: NextSubscribe<'_>) -> BoxStream<'s, Response> {
        log(Ev::Enter(self.0, Hk::Subscribe));
        let s = next.run(ctx, stream);
        log(Ev::Exit(self.0, Hk::Subscribe, true));
        s
    }
    async fn prepare_request(&self, ctx: &ExtensionContext<'_>, request: Request, next: NextPrepareRequest<'_>) -> ServerResult<Request> {
        log(Ev::Enter(self.0, Hk::Prepare));
        let r = next.run(ctx, request).await;
        log(Ev::Exit(self.0, Hk::Prepare, r.is_ok()));
        r
    }
    async fn parse_query(&self, ctx: &ExtensionContext<'_>, query: &str, variables: &Variables, next: NextParseQuery<'_>) -> ServerResult<ExecutableDocument> {
        log(Ev::Enter(self.0, Hk::Parse));
        let r = next.run(ctx, query, variables).await;
        log(Ev::Exit(self.0, Hk::Parse, r.is_ok()));
        r
    }
    async fn validation(&self, ctx: &ExtensionContext<'_>, next: NextValidation<'_>) -> Result<ValidationResult, Vec<ServerError>> {
        log(Ev::Enter(self.0, Hk::Validation));
        let r = next.run(ctx).await;
        log(Ev::Exit(self.0, Hk::Validation, r.is_ok()));
        r
    }
    async fn execute(&self, ctx: &ExtensionContext<'_>, operation_name: Option<&str>, next: NextExecute<'_>) -> Response {
        let h = Hk::Execute(operation_name.map(|s| s.to_string()));
        log(Ev::Enter(self.0, h.clone()));
        let r = next.run(ctx, operation_name).await;
        log(Ev::Exit(self.0, h, r.errors.is_empty()));
        r
    }
    async fn resolve(&self, ctx: &ExtensionContext<'_>, info: ResolveInfo<'_>, next: NextResolve<'_>) -> ServerResult<Option<Value>> {
        let p = segs(info.path_node);
        let item = matches!(p.last(), Some(Seg::I(_)));
        let (pt, rt, nm, al) = (info.parent_type.to_string(), info.return_type.to_string(), info.name.to_string(), info.alias.map(|s| s.to_string()));
        let h = if item { Hk::Item(p, pt, rt, nm, al) } else { Hk::Field(p, pt, rt, nm, al) };
        log(Ev::Enter(self.0, h.clone()));
        let r = next.run(ctx, info).await;
        log(Ev::Exit(self.0, h, r.is_ok()));
        r
    }
}

// (field, type string) — must agree with family.rs; checked against the registry dump at run time
const FIELDS: &[(&str, &str)] = &[
    ("id", "Int!"), ("name", "String"), ("score", "Float!"), ("ratio", "Float"), ("flag", "Boolean"),
    ("kind", "Kind!"), ("a", "A"), ("b", "B!"), ("bs", "[B!]!"), ("cs", "[C]"), ("aList", "[A]!"),
    ("csNn", "[C!]"), ("node", "Node"), ("nodes", "[Node!]!"), ("ab", "Pair"), ("abs", "[Pair]!"),
    ("grid", "[[Int!]!]!"), ("named", "Named"),
];

fn g_ty(it: &mut Interner, t: &str) -> String {
    if let Some(inner) = t.strip_suffix('!') {
        format!("(TNonNull {})", g_ty(it, inner))
    } else if t.starts_with('[') && t.ends_with(']') {
        format!("(TList {})", g_ty(it, &t[1..t.len() - 1]))
    } else {
        format!("(TNamed {})", it.n(t))
    }
}

fn dump_registry(it: &mut Interner, r: &Registry) -> String {
    let fields = |it: &mut Interner, fs: &indexmap::IndexMap<String, async_graphql::registry::MetaField>| {
        g_list(fs.iter().filter(|(k, _)| !k.starts_with("__")), |(k, f)| format!("({}, {})", it.n(k), g_ty(it, &f.ty)))
    };
    let mut tnames = vec![];
    let types = g_list(r.types.iter().filter(|(k, _)| !k.starts_with("__")), |(k, t)| {
        tnames.push(k.clone());
        let body = match t {
            MetaType::Object { fields: fs, .. } => {
                let imp: Vec<String> = r.implements.get(k).map(|s| s.iter().cloned().collect()).unwrap_or_default();
                format!("(DObject {} {})", fields(it, fs), g_list(imp.iter(), |i| it.n(i)))
            }
            MetaType::Interface { fields: fs, possible_types, .. } => format!("(DInterface {} {})", fields(it, fs), g_list(possible_types.iter(), |p| it.n(p))),
            MetaType::Union { possible_types, .. } => format!("(DUnion {})", g_list(possible_types.iter(), |p| it.n(p))),
            MetaType::Enum { enum_values, .. } => format!("(DEnum {})", g_list(enum_values.keys(), |v| it.n(v))),
            MetaType::Scalar { .. } => format!(
                "(DScalar {}%N)",
                match k.as_str() {
                    "Int" => 0,
                    "Float" => 1,
                    "String" => 2,
                    "Boolean" => 3,
                    _ => 4,
                }
            ),
            _ => "(DScalar 9%N)".to_string(),
        };
        format!("({}, {})", it.n(k), body)
    });
    format!(
        "{{| s_types := {}; s_query := {}; s_mutation := {}; s_tname := {} |}}",
        types,
        it.n(&r.query_type),
        g_opt(r.mutation_type.as_ref(), |m| it.n(m)),
        g_list(tnames.iter(), |k| format!("({}, {})", it.n(k), g_str(k)))
    )
}

fn g_out(it: &mut Interner, o: &Out) -> String {
    match o {
        Out::Err => "OErr".into(),
        Out::Null => "ONull".into(),
        Out::Int(i) => format!("(OInt {})", g_z(*i as i128)),
        Out::Float(f) => format!("(OFloat {}%N)", f.to_bits()),
        Out::Str(s) => format!("(OStr {})", g_str(s)),
        Out::Bool(b) => format!("(OBool {})", g_bool(*b)),
        Out::Enum(e) => format!("(OEnum {})", it.n(e)),
        Out::Ref(n) => format!("(ORef {}%N)", n),
        Out::List(l) => format!("(OList {})", g_list(l.iter(), |x| g_out(it, x))),
    }
}

fn g_world(it: &mut Interner, w: &World) -> String {
    let nodes = g_list(w.nodes.iter().enumerate().filter(|(_, n)| n.0.is_some()), |(i, n)| {
        let mut fs: Vec<(&String, &Out)> = n.1.iter().collect();
        fs.sort_by(|a, b| a.0.cmp(b.0));
        format!(
            "({}%N, {{| n_ty := {}; n_fields := {} |}})",
            i,
            it.n(n.0.unwrap().name()),
            g_list(fs.iter(), |(k, o)| format!("({}, {})", it.n(k), g_out(it, o)))
        )
    });
    let defaults = g_list(FIELDS.iter().filter(|(f, _)| *f != "id"), |(f, _)| format!("({}, {})", it.n(f), g_out(it, &default_out(0, f))));
    format!("{{| w_nodes := {}; w_defaults := {}; w_idname := {} |}}", nodes, defaults, it.n("id"))
}

// ------------------------------------------------------------ worlds
fn gen_out(r: &mut Rng, ty: &str, by_ty: &HashMap<&str, Vec<usize>>, fault: u64, depth: usize) -> Out {
    if let Some(inner) = ty.strip_suffix('!') {
        let o = gen_out(r, inner, by_ty, fault, depth);
        return if o == Out::Null { if r.chance(1, 30) { Out::Null } else { gen_nonnull(r, inner, by_ty, fault, depth) } } else { o };
    }
    if r.chance(1, 5) {
        return Out::Null;
    }
    gen_nonnull(r, ty, by_ty, fault, depth)
}

fn gen_nonnull(r: &mut Rng, ty: &str, by_ty: &HashMap<&str, Vec<usize>>, fault: u64, depth: usize) -> Out {
    if ty.starts_with('[') {
        let inner = &ty[1..ty.len() - 1];
        let n = r.below(4);
        return Out::List((0..n).map(|_| gen_out(r, inner, by_ty, fault, depth)).collect());
    }
    let pick = |r: &mut Rng, names: &[&str]| -> Out {
        let mut c: Vec<usize> = vec![];
        for n in names {
            c.extend(by_ty.get(n).cloned().unwrap_or_default());
        }
        if c.is_empty() { Out::Null } else { Out::Ref(*r.pick(&c)) }
    };
    match ty {
        "Int" => Out::Int(match r.below(6) { 0 => i32::MAX as i64, 1 => i32::MIN as i64, 2 => 0, _ => r.range(-50, 50) }),
        "Float" => Out::Float(match r.below(12) { 0 => f64::NAN, 1 => f64::INFINITY, 2 => -0.0, 3 => f64::NEG_INFINITY, _ => r.range(-40, 40) as f64 / 4.0 }),
        "String" => Out::Str(["", "x", "héllo", "a\"b"][r.below(4)].to_string()),
        "Boolean" => Out::Bool(r.chance(1, 2)),
        "Kind" => Out::Enum(if r.chance(1, 2) { "X".into() } else { "Y".into() }),
        "A" => pick(r, &["A"]),
        "B" => pick(r, &["B"]),
        "C" => pick(r, &["C"]),
        "Node" => pick(r, &["A", "B", "C"]),
        "Named" | "Pair" => pick(r, &["A", "B"]),
        _ => Out::Null,
    }
}

fn gen_world(r: &mut Rng, fault_pm: u64, nan: bool) -> World {
    let n = 5 + r.below(5);
    let mut tys = vec![Some(NodeTy::Query), Some(NodeTy::Mutation)];
    for _ in 2..n {
        tys.push(Some([NodeTy::A, NodeTy::B, NodeTy::C][r.below(3)]));
    }
    // make sure every object type has an instance
    tys.push(Some(NodeTy::A));
    tys.push(Some(NodeTy::B));
    tys.push(Some(NodeTy::C));
    let mut by_ty: HashMap<&str, Vec<usize>> = HashMap::new();
    for (i, t) in tys.iter().enumerate() {
        by_ty.entry(t.unwrap().name()).or_default().push(i);
    }
    let mut nodes = vec![];
    for (i, t) in tys.iter().enumerate() {
        let mut m = HashMap::new();
        for (f, ty) in FIELDS {
            // roots get rich data; other nodes mention about 2/3 of their fields
            if i > 1 && r.chance(1, 3) {
                continue;
            }
            let mut o = if r.below(1000) < fault_pm as usize { Out::Err } else { gen_out(r, ty, &by_ty, fault_pm, 0) };
            if !nan {
                if let Out::Float(x) = o {
                    if !x.is_finite() {
                        o = Out::Float(2.25);
                    }
                }
            }
            m.insert(f.to_string(), o);
        }
        nodes.push((*t, m));
    }
    World { nodes, ..Default::default() }
}

// ------------------------------------------------------------ documents
struct DocGen {
    r: Rng,
    frags: Vec<(String, String, String)>,
    uses: Vec<(String, bool, Option<bool>)>, // variable name, has default?, default
    dup: bool,
}

fn fields_of(ty: &str) -> Vec<(&'static str, &'static str)> {
    match ty {
        "Query" | "Mutation" | "A" | "B" | "C" => FIELDS.to_vec(),
        "Node" => vec![("id", "Int!"), ("name", "String")],
        "Named" => vec![("name", "String")],
        _ => vec![],
    }
}
fn base(t: &str) -> &str {
    t.trim_matches(|c| c == '[' || c == ']' || c == '!')
}
fn is_composite(t: &str) -> bool {
    matches!(t, "A" | "B" | "C" | "Node" | "Named" | "Pair" | "Query" | "Mutation")
}
fn conds_for(ty: &str) -> Vec<&'static str> {
    match ty {
        "A" => vec!["A", "Node", "Named", "Pair"],
        "B" => vec!["B", "Node", "Named", "Pair"],
        "C" => vec!["C", "Node"],
        "Node" => vec!["Node", "A", "B", "C", "Named", "Pair"],
        "Named" => vec!["Named", "A", "B", "Node", "Pair"],
        "Pair" => vec!["Pair", "A", "B", "Node", "Named"],
        "Query" => vec!["Query"],
        "Mutation" => vec!["Mutation"],
        _ => vec![],
    }
}

impl DocGen {
    fn dirs(&mut self) -> String {
        if !self.r.chance(1, 6) {
            return String::new();
        }
        let which = if self.r.chance(1, 2) { "skip" } else { "include" };
        match self.r.below(3) {
            0 => format!(" @{which}(if: {})", self.r.chance(1, 2)),
            _ => {
                let k = self.r.below(3);
                let name = format!("v{k}");
                if !self.uses.iter().any(|u| u.0 == name) {
                    let has_default = self.r.chance(1, 2);
                    let d = if has_default { Some(self.r.chance(1, 2)) } else { None };
                    self.uses.push((name.clone(), has_default, d));
                }
                format!(" @{which}(if: ${name})")
            }
        }
    }
    fn sels(&mut self, ty: &str, depth: usize) -> String {
        let mut out = String::from("{");
        let n = 1 + self.r.below(4);
        let fields = fields_of(ty);
        let mut emitted = 0;
        let mut last_field: Option<(String, String)> = None;
        for _ in 0..n {
            let k = self.r.below(12);
            if k < 6 && !fields.is_empty() {
                let (f, t) = *self.r.pick(&fields);
                let b = base(t).to_string();
                let alias = if self.r.chance(1, 10) { format!("k{}: ", self.r.below(2)) } else { String::new() };
                let d = self.dirs();
                if is_composite(&b) {
                    if depth == 0 {
                        continue;
                    }
                    let sub = self.sels(&b, depth - 1);
                    write!(out, " {alias}{f}{d} {sub}").unwrap();
                    last_field = Some((f.to_string(), b));
                } else {
                    write!(out, " {alias}{f}{d}").unwrap();
                }
                emitted += 1;
            } else if k == 6 {
                out.push_str(" __typename");
                emitted += 1;
            } else if k == 7 && self.dup && depth > 0 {
                // repeat the previous composite field with another sub-selection (to be merged)
                if let Some((f, b)) = last_field.clone() {
                    let sub = self.sels(&b, depth - 1);
                    write!(out, " {f} {sub}").unwrap();
                    emitted += 1;
                }
            } else if k < 10 && depth > 0 {
                let conds = conds_for(ty);
                if conds.is_empty() {
                    continue;
                }
                let c = *self.r.pick(&conds);
                let d = self.dirs();
                if self.r.chance(1, 5) {
                    let sub = self.sels(ty, depth - 1);
                    write!(out, " ...{d} {sub}").unwrap();
                } else {
                    let sub = self.sels(c, depth - 1);
                    write!(out, " ... on {c}{d} {sub}").unwrap();
                }
                emitted += 1;
            } else if depth > 0 {
                let conds = conds_for(ty);
                if conds.is_empty() {
                    continue;
                }
                let c = self.r.pick(&conds).to_string();
                let reuse: Vec<String> = self.frags.iter().filter(|f| f.1 == c && !f.2.is_empty()).map(|f| f.0.clone()).collect();
                let d = self.dirs();
                if !reuse.is_empty() && self.r.chance(1, 2) {
                    write!(out, " ...{}{d}", self.r.pick(&reuse)).unwrap();
                } else {
                    let name = format!("F{}", self.frags.len());
                    self.frags.push((name.clone(), c.clone(), String::new()));
                    let idx = self.frags.len() - 1;
                    let body = self.sels(&c, depth - 1);
                    self.frags[idx].2 = body;
                    write!(out, " ...{name}{d}").unwrap();
                }
                emitted += 1;
            }
        }
        if emitted == 0 {
            out.push_str(" __typename");
        }
        out.push_str(" }");
        out
    }
    fn document(&mut self) -> (String, serde_json::Value, Option<String>) {
        let mutation = self.r.chance(1, 6);
        let root = if mutation { "Mutation" } else { "Query" };
        let depth = 1 + self.r.below(4);
        let body = self.sels(root, depth);
        let mut vars = serde_json::Map::new();
        let mut vd = vec![];
        for (name, has_default, d) in &self.uses {
            let supplied = !has_default || self.r.chance(1, 2);
            if supplied {
                vars.insert(name.clone(), serde_json::json!(self.r.chance(1, 2)));
            }
            match d {
                Some(b) => vd.push(format!("${name}: Boolean = {b}")),
                None => vd.push(format!("${name}: Boolean!")),
            }
        }
        let kw = if mutation { "mutation" } else { "query" };
        let mut s = String::new();
        let named = !vd.is_empty() || mutation || self.r.chance(1, 2);
        let mut opname = None;
        if named {
            let two = self.r.chance(1, 8);
            writeln!(s, "{kw} Op0{} {body}", if vd.is_empty() { String::new() } else { format!("({})", vd.join(", ")) }).unwrap();
            if two {
                writeln!(s, "query Op1 {{ __typename }}").unwrap();
                opname = Some("Op0".to_string());
            }
        } else {
            writeln!(s, "{body}").unwrap();
        }
        for (n, c, b) in &self.frags {
            writeln!(s, "fragment {n} on {c} {b}").unwrap();
        }
        (s, serde_json::Value::Object(vars), opname)
    }
}

fn jstr(s: &str) -> String {
    serde_json::to_string(s).unwrap()
}

fn g_vars(it: &mut Interner, v: &serde_json::Value) -> String {
    match v {
        serde_json::Value::Object(m) => g_list(m.iter(), |(k, x)| {
            let gv = match x {
                serde_json::Value::Bool(b) => format!("(VBool {})", g_bool(*b)),
                serde_json::Value::Number(n) if n.is_i64() => format!("(VInt {})", g_z(n.as_i64().unwrap() as i128)),
                _ => "VNull".to_string(),
            };
            format!("({}, {})", it.n(k), gv)
        }),
        _ => "[]".into(),
    }
}

fn g_path(it: &mut Interner, p: &[PathSegment]) -> String {
    g_list(p.iter(), |s| match s {
        PathSegment::Field(f) => format!("PF {}", it.n(f)),
        PathSegment::Index(i) => format!("PI {}%N", i),
    })
}


// ------------------------------------------------------------ variant schema
/// Merged objects, flattened fields (SimpleObject field and #[Object] method),
/// a generic object with concrete names, a union and an interface: the types
/// whose resolver is reached through another Rust type.  Responses with and
/// without extensions are compared and the recorded hook trace is judged by
/// the lifecycle checker (no executor model for this stream).
mod var {
    use async_graphql::*;

    #[derive(SimpleObject, Clone)]
    pub struct Inner {
        pub x: i32,
        pub y: Option<String>,
    }
    #[derive(SimpleObject, Clone)]
    pub struct Other {
        pub x: i32,
        pub k: bool,
    }
    #[derive(SimpleObject, Clone)]
    pub struct Flat {
        #[graphql(flatten)]
        pub inner: Inner,
        pub z: i32,
        pub items: Vec<Inner>,
        pub opt_items: Option<Vec<Option<Inner>>>,
    }
    #[derive(SimpleObject, Clone)]
    #[graphql(concrete(name = "BoxInt", params(i32)), concrete(name = "BoxInner", params(Inner)))]
    pub struct Bx<T: OutputType> {
        pub v: T,
        pub vs: Vec<T>,
    }
    pub struct Of;
    #[Object]
    impl Of {
        #[graphql(flatten)]
        async fn inner(&self) -> Inner {
            Inner { x: 7, y: Some("f".into()) }
        }
        async fn w(&self) -> i32 {
            3
        }
        async fn bad(&self) -> Result<i32> {
            Err("boom".into())
        }
    }
    #[derive(Union, Clone)]
    pub enum Shape {
        Flat(Flat),
        Inner(Inner),
    }
    #[derive(Interface, Clone)]
    #[graphql(field(name = "x", ty = "&i32"))]
    pub enum HasX {
        Inner(Inner),
        Other(Other),
    }
    fn flat(n: i32) -> Flat {
        Flat {
            inner: Inner { x: n, y: None },
            z: n + 1,
            items: vec![Inner { x: 1, y: Some("a".into()) }, Inner { x: 2, y: None }],
            opt_items: Some(vec![None, Some(Inner { x: 3, y: None })]),
        }
    }
    #[derive(Default)]
    pub struct Qa;
    #[Object]
    impl Qa {
        async fn a(&self) -> i32 {
            1
        }
        async fn flat(&self) -> Flat {
            flat(10)
        }
        async fn flats(&self) -> Vec<Flat> {
            vec![flat(1), flat(2)]
        }
        async fn of(&self) -> Of {
            Of
        }
        async fn of_opt(&self) -> Option<Of> {
            Some(Of)
        }
    }
    #[derive(Default)]
    pub struct Qb;
    #[Object]
    impl Qb {
        async fn b(&self) -> Option<i32> {
            None
        }
        async fn fail(&self) -> Result<Option<i32>> {
            Err("boom".into())
        }
        async fn shapes(&self) -> Vec<Shape> {
            vec![Shape::Flat(flat(5)), Shape::Inner(Inner { x: 9, y: None })]
        }
        async fn hasx(&self) -> Vec<HasX> {
            vec![HasX::Inner(Inner { x: 4, y: None }), HasX::Other(Other { x: 5, k: true })]
        }
        async fn bx(&self) -> Bx<i32> {
            Bx { v: 1, vs: vec![2, 3] }
        }
        async fn bxi(&self) -> Option<Bx<Inner>> {
            Some(Bx { v: Inner { x: 1, y: None }, vs: vec![] })
        }
    }
    #[derive(MergedObject, Default)]
    pub struct Mq(pub Qa, pub Qb);
    #[derive(Default)]
    pub struct Ma;
    #[Object]
    impl Ma {
        async fn set_a(&self) -> i32 {
            1
        }
    }
    #[derive(Default)]
    pub struct Mb;
    #[Object]
    impl Mb {
        async fn set_b(&self) -> Flat {
            flat(0)
        }
    }
    #[derive(MergedObject, Default)]
    pub struct Mm(pub Ma, pub Mb);
    pub type VarSchema = Schema<Mq, Mm, EmptySubscription>;
    pub fn build() -> SchemaBuilder<Mq, Mm, EmptySubscription> {
        Schema::build(Mq::default(), Mm::default(), EmptySubscription).register_output_type::<HasX>()
    }
    pub const QUERIES: &[&str] = &[
        "{ a b __typename }",
        "{ flat { x y z items { x y } optItems { x } __typename } }",
        "{ flats { x z ... on Flat { y } items { __typename x } } }",
        "{ of { x y w } ofOpt { w x bad } a }",
        "{ of { bad } }",
        "{ fail a }",
        "{ shapes { __typename ... on Flat { x z items { x } } ... on Inner { x y } } }",
        "{ hasx { x __typename ... on Inner { y } ... on Other { k } ... on HasX { k2: x } } }",
        "{ bx { v vs } bxi { v { x } vs { x } } }",
        "{ ... on Mq { a } ...F } fragment F on Mq { k: b flat { ...G } } fragment G on Flat { x z }",
        "query Q { a } query R { b }",
        "{ nope }",
        "{ a ",
        "mutation { setA setB { x z items { x } } }",
        "mutation { k1: setA k2: setA }",
        "{ a @include(if: true) flat @skip(if: false) { x @include(if: true) } }",
    ];
}

/// Full response text used for the with/without-extensions comparison.  The
/// validator reports some errors in hash-map iteration order (unused
/// variables, ...): for a request rejected before execution (no data, no
/// paths) the errors are compared as a sorted list.
fn canon_json(resp: &Response) -> String {
    let mut v = serde_json::to_value(resp).unwrap();
    let rejected = resp.data == Value::Null && resp.errors.iter().all(|e| e.path.is_empty());
    if rejected {
        if let Some(serde_json::Value::Array(errs)) = v.get_mut("errors") {
            errs.sort_by_key(|e| e.to_string());
        }
    }
    format!("{} cc={:?} headers={:?}", v, (resp.cache_control.public, resp.cache_control.max_age), resp.http_headers)
}

// ------------------------------------------------------------ introspection stream
/// Every object key and every list element of the response below the
/// operation root (keys of the `__typename` field excluded: add_set answers it
/// without a resolve hook).  INTRO queries never alias `__typename`.
fn tree_paths(v: &Value, cur: &mut Vec<Seg>, out: &mut Vec<Vec<Seg>>) {
    match v {
        Value::Object(m) => {
            for (k, x) in m {
                if k.as_str() == "__typename" {
                    continue;
                }
                cur.push(Seg::F(k.to_string()));
                out.push(cur.clone());
                tree_paths(x, cur, out);
                cur.pop();
            }
        }
        Value::List(l) => {
            for (i, x) in l.iter().enumerate() {
                cur.push(Seg::I(i));
                out.push(cur.clone());
                tree_paths(x, cur, out);
                cur.pop();
            }
        }
        _ => {}
    }
}

fn dyn_schema(k: usize) -> async_graphql::dynamic::Schema {
    use async_graphql::dynamic::{Enum, Field, FieldFuture, FieldValue, Object, Schema, TypeRef};
    let item = Object::new("Item")
        .field(Field::new("x", TypeRef::named_nn(TypeRef::INT), |_| FieldFuture::new(async { Ok(Some(Value::from(5))) })))
        .field(Field::new("tags", TypeRef::named_nn_list_nn(TypeRef::STRING), |_| {
            FieldFuture::new(async { Ok(Some(Value::List(vec![Value::from("t"), Value::from("u")]))) })
        }))
        .field(Field::new("next", TypeRef::named("Item"), |_| FieldFuture::new(async { Ok(None::<FieldValue>) })));
    let query = Object::new("Query")
        .field(Field::new("a", TypeRef::named_nn(TypeRef::INT), |_| FieldFuture::new(async { Ok(Some(Value::from(1))) })))
        .field(Field::new("b", TypeRef::named(TypeRef::INT), |_| FieldFuture::new(async { Ok(None::<FieldValue>) })))
        .field(Field::new("kind", TypeRef::named_nn("Kind"), |_| FieldFuture::new(async { Ok(Some(Value::from("X"))) })))
        .field(Field::new("item", TypeRef::named("Item"), |_| FieldFuture::new(async { Ok(Some(FieldValue::owned_any(0u8))) })))
        .field(Field::new("items", TypeRef::named_nn_list_nn("Item"), |_| {
            FieldFuture::new(async { Ok(Some(FieldValue::list(vec![FieldValue::owned_any(1u8), FieldValue::owned_any(2u8)]))) })
        }));
    let mut b = Schema::build("Query", None, None).register(item).register(query).register(Enum::new("Kind").item("X").item("Y"));
    for i in 0..k {
        b = b.extension(RecFactory(i));
    }
    b.finish().unwrap()
}

/// selection on `__Type`
fn type_sel(r: &mut Rng, depth: usize, wide: bool) -> String {
    let mut s = String::from("{");
    let mut any = false;
    let mut push = |s: &mut String, t: &str| {
        s.push(' ');
        s.push_str(t);
    };
    if r.chance(3, 4) {
        push(&mut s, if r.chance(1, 6) { "n: name" } else { "name" });
        any = true;
    }
    if r.chance(1, 2) {
        push(&mut s, "kind");
        any = true;
    }
    if r.chance(1, 6) {
        push(&mut s, "description __typename");
        any = true;
    }
    if wide && depth > 0 {
        if r.chance(1, 2) {
            let t = type_sel(r, depth - 1, false);
            let a = if r.chance(1, 2) { format!(" args {{ name defaultValue type {} }}", type_sel(r, depth.saturating_sub(2), false)) } else { String::new() };
            push(&mut s, &format!("fields {{ name isDeprecated{a} type {t} }}"));
            any = true;
        }
        if r.chance(1, 3) {
            push(&mut s, "interfaces { name }");
            any = true;
        }
        if r.chance(1, 2) {
            push(&mut s, &format!("possibleTypes {}", type_sel(r, 0, false)));
            any = true;
        }
        if r.chance(1, 2) {
            push(&mut s, "enumValues { name isDeprecated }");
            any = true;
        }
        if r.chance(1, 4) {
            push(&mut s, "inputFields { name }");
            any = true;
        }
    }
    if depth > 0 && r.chance(2, 3) {
        push(&mut s, &format!("ofType {}", type_sel(r, depth - 1, false)));
        any = true;
    }
    if !any {
        push(&mut s, "name");
    }
    s.push_str(" }");
    s
}

fn intro_query(r: &mut Rng, types: &[&str], data: &[&str]) -> String {
    let mut parts: Vec<String> = vec![];
    let which = r.below(3); // 0 __schema, 1 __type, 2 both
    // the two data selections must differ: a repeated response key is resolved once per occurrence
    // (recorded finding of C04) while the response tree holds the merged key once, so the
    // response-tree oracle of this stream does not apply to it
    let first = if r.chance(1, 2) { Some(r.pick(data).to_string()) } else { None };
    if let Some(f) = &first {
        parts.push(f.clone());
    }
    if which != 1 {
        let mut s = String::from("__schema {");
        if r.chance(1, 2) {
            s.push_str(" queryType { name } mutationType { name kind }");
        }
        if r.chance(2, 3) {
            let inner = if r.chance(1, 3) { "{ name kind enumValues { name } possibleTypes { name } }".to_string() } else { type_sel(r, 0, false) };
            s.push_str(&format!(" types {inner}"));
        }
        if r.chance(1, 3) {
            s.push_str(" directives { name locations args { name } }");
        }
        if s.ends_with('{') {
            s.push_str(" queryType { name }");
        }
        s.push_str(" }");
        parts.push(s);
    }
    if r.chance(1, 3) {
        let second = r.pick(data).to_string();
        if first.as_deref() != Some(second.as_str()) {
            parts.push(second);
        }
    }
    if which != 0 {
        let t = r.pick(types);
        parts.push(format!("__type(name: \"{t}\") {}", type_sel(r, 3, true)));
    }
    format!("{{ {} }}", parts.join(" "))
}

// ------------------------------------------------------------ printers
fn g_segs(it: &mut Interner, p: &[Seg]) -> String {
    g_list(p.iter(), |s| match s {
        Seg::F(f) => format!("PF {}", it.n(f)),
        Seg::I(i) => format!("PI {}%N", i),
    })
}

fn g_hk(it: &mut Interner, h: &Hk) -> String {
    match h {
        Hk::Request => "HRequest".into(),
        Hk::Prepare => "HPrepare".into(),
        Hk::Parse => "HParse".into(),
        Hk::Validation => "HValidation".into(),
        Hk::Subscribe => "HSubscribe".into(),
        Hk::Execute(op) => format!("(HExecute {})", g_opt(op.as_ref(), |o| it.n(o))),
        Hk::Field(p, pt, rt, nm, al) => format!("(HField {} {} {} {} {})", g_segs(it, p), it.n(pt), g_ty(it, rt), it.n(nm), g_opt(al.as_ref(), |a| it.n(a))),
        Hk::Item(p, pt, rt, nm, al) => format!("(HItem {} {} {} {} {})", g_segs(it, p), g_ty(it, pt), g_ty(it, rt), it.n(nm), g_opt(al.as_ref(), |a| it.n(a))),
    }
}

fn g_ev(it: &mut Interner, e: &Ev) -> String {
    match e {
        Ev::Enter(i, h) => format!("Enter {}%N {}", i, g_hk(it, h)),
        Ev::Exit(i, h, ok) => format!("Exit {}%N {} {}", i, g_hk(it, h), g_bool(*ok)),
    }
}

struct Job {
    text: String,
    vars: serde_json::Value,
    opname: Option<String>,
    nodes: Vec<(Option<NodeTy>, HashMap<String, Out>)>,
    fast: bool,
    intro: bool,
}

struct Run {
    resp: Response,
    json: String,
    trace: Vec<(usize, String)>,
    hooks: Vec<Ev>,
    faults: usize,
}

fn small_nodes(patches: Vec<(usize, &str, Out)>) -> Vec<(Option<NodeTy>, HashMap<String, Out>)> {
    let mut nodes = vec![
        (Some(NodeTy::Query), HashMap::new()),
        (Some(NodeTy::Mutation), HashMap::new()),
        (Some(NodeTy::A), HashMap::new()),
        (Some(NodeTy::B), HashMap::new()),
        (Some(NodeTy::C), HashMap::new()),
    ];
    for (n, f, o) in patches {
        nodes[n].1.insert(f.to_string(), o);
    }
    nodes
}

fn main() {
    let a = parse_args();
    let mut rng = Rng::new(a.seed);
    let mut out = String::new();
    let mut it = Interner::new();
    it.id("id");
    for (f, _) in FIELDS {
        it.id(f);
    }
    for k in ["X", "Y", "A", "B", "C", "Query", "Mutation", "Node", "Named", "Pair", "EmptyMutation"] {
        it.id(k);
    }
    // schemas[fast][k]: k recording extensions, registered in the order 0, 1, 2
    let mk = |fast: bool, k: usize| {
        let mut b = build();
        if fast {
            b = b.validation_mode(ValidationMode::Fast);
        }
        for i in 0..k {
            b = b.extension(RecFactory(i));
        }
        b.finish()
    };
    let schemas: Vec<Vec<FamilySchema>> = vec![(0..4).map(|k| mk(false, k)).collect(), (0..4).map(|k| mk(true, k)).collect()];

    // registry dump through a probe request
    let dumped: Arc<Mutex<Option<String>>> = Arc::new(Mutex::new(None));
    let it_cell = Arc::new(Mutex::new(std::mem::take(&mut it)));
    {
        let it_cell = it_cell.clone();
        let dumped = dumped.clone();
        set_probe(move |r| {
            let mut it = it_cell.lock().unwrap();
            *dumped.lock().unwrap() = Some(dump_registry(&mut it, r));
        });
    }
    let w0 = Arc::new(gen_world(&mut rng.fork(), 0, false));
    let _ = block_on(schemas[0][0].execute(Request::new("{ id }").data(w0)));
    it = std::mem::take(&mut *it_cell.lock().unwrap());
    let gschema = dumped.lock().unwrap().take().expect("probe did not run");
    writeln!(out, "DEF\tfam\t{gschema}").unwrap();

    let j = |text: &str, patches: Vec<(usize, &str, Out)>, opname: Option<&str>, fast: bool, intro: bool| Job {
        text: text.to_string(),
        vars: serde_json::json!({}),
        opname: opname.map(|s| s.to_string()),
        nodes: small_nodes(patches),
        fast,
        intro,
    };
    let mut corpus: Vec<Job> = vec![
        // the known class: introspection-only execution replaces the mutation root by EmptyMutation
        j("mutation { id }", vec![], None, false, true),
        j("mutation { a { id } k0: id __typename }", vec![(1, "a", Out::Ref(2))], None, false, true),
        j("mutation { __typename }", vec![], None, false, true),
        j("mutation { ... on Mutation { id } ... { name } }", vec![], None, false, true),
        j("{ id a { id } bs { id } }", vec![(0, "a", Out::Ref(2))], None, false, true),
        j("{ ... on Query { k0: id } ...F } fragment F on Query { name }", vec![], None, true, true),
        // the second known class: field names unknown to the registry, accepted by ValidationMode::Fast
        j("{ nope id }", vec![], None, true, false),
        j("{ a { k0: nope id } id }", vec![(0, "a", Out::Ref(2))], None, true, false),
        j("{ node { score } }", vec![(0, "node", Out::Ref(2))], None, true, false),
        j("{ bs { nope } }", vec![(0, "bs", Out::List(vec![Out::Ref(3)]))], None, true, false),
        j("{ ab { id } named { id name } }", vec![(0, "ab", Out::Ref(2)), (0, "named", Out::Ref(3))], None, true, false),
        // cut-off rules
        j("{ a { id }", vec![], None, false, false),
        j("query { id ", vec![], None, true, false),
        j("", vec![], None, false, false),
        j("{ nope }", vec![], None, false, false),
        j("{ a }", vec![(0, "a", Out::Ref(2))], None, false, false),
        j("{ id { x } }", vec![], None, true, false),
        j("query A { id } query B { name }", vec![], None, false, false),
        j("query A { id } query B { name }", vec![], Some("C"), false, false),
        j("query A { id } query B { name }", vec![], Some("B"), false, false),
        j("query A { id }", vec![], Some("Z"), true, false),
        j("query A { id }", vec![], None, false, false),
        j("mutation M { id k0: name }", vec![], None, false, false),
        // failing resolvers (witnesses of the executor findings)
        j("{ a { id name } }", vec![(0, "a", Out::Ref(2)), (2, "name", Out::Err)], None, false, false),
        j("{ a { id } a { b { score } } }", vec![(0, "a", Out::Ref(2)), (2, "b", Out::Ref(3)), (3, "score", Out::Err)], None, false, false),
        j("{ bs { id score } }", vec![(0, "bs", Out::List(vec![Out::Ref(3), Out::Ref(3)])), (3, "score", Out::Err)], None, false, false),
        j("{ cs { id score } id }", vec![(0, "cs", Out::List(vec![Out::Ref(4), Out::Null, Out::Ref(4)])), (4, "score", Out::Err)], None, false, false),
        j("{ b { score ratio } }", vec![(0, "b", Out::Ref(3)), (3, "score", Out::Float(f64::NAN)), (3, "ratio", Out::Float(f64::INFINITY))], None, false, false),
        j("{ node { id name } }", vec![(0, "node", Out::Ref(2)), (2, "name", Out::Err)], None, false, false),
        j("{ node { ... on Pair { ... on A { id } } } a { ... on Pair { __typename } } }", vec![(0, "node", Out::Ref(2)), (0, "a", Out::Ref(2))], None, false, false),
        j("query($s: Boolean = true) { a @skip(if: $s) { id } b @include(if: $s) { id } }", vec![(0, "a", Out::Ref(2)), (0, "b", Out::Ref(3))], None, false, false),
        j("mutation { a { id } a { id } k0: id }", vec![(1, "a", Out::Ref(2))], None, false, false),
        // lists, interfaces, unions, nested lists
        j("{ grid nodes { id ... on A { score } ... on Named { name } } abs { __typename ... on B { id } } }",
          vec![(0, "grid", Out::List(vec![Out::List(vec![Out::Int(1), Out::Int(2)]), Out::List(vec![])])),
               (0, "nodes", Out::List(vec![Out::Ref(2), Out::Ref(3), Out::Ref(4)])),
               (0, "abs", Out::List(vec![Out::Ref(3), Out::Null, Out::Ref(2)]))], None, false, false),
        j("{ named { name ... on Node { id } } ab { ... on Node { id } ... on Named { k1: name } } }", vec![(0, "named", Out::Ref(3)), (0, "ab", Out::Ref(2))], None, false, false),
        j("{ id @include(if: true) a @skip(if: false) { id @include(if: true) } }", vec![(0, "a", Out::Ref(2))], None, false, false),
        j("{ id @foo a { id } }", vec![(0, "a", Out::Ref(2))], None, true, false),
        j("mutation { id @foo }", vec![], None, true, true),
    ];
    corpus.reverse();

    let mut case_no = 0;
    let mut doc_no = 0;
    while case_no < a.n {
        doc_no += 1;
        let job = if let Some(jb) = corpus.pop() {
            jb
        } else {
            let fault_pm = [0u64, 0, 30, 100][rng.below(4)];
            let world = gen_world(&mut rng.fork(), fault_pm, rng.chance(1, 6));
            let mut dg = DocGen { r: rng.fork(), frags: vec![], uses: vec![], dup: rng.chance(1, 2) };
            let (mut text, vars, mut opname) = dg.document();
            // malformed variants: truncated text (parse error), unknown field (validation error), unknown operation name
            let mut fast = rng.chance(1, 4);
            match rng.below(24) {
                0 => {
                    let cut = rng.below(text.len().max(1));
                    text = text.chars().take(cut).collect();
                    // a cut between definitions leaves spreads of undefined fragments, which only strict
                    // validation rejects (the executor's "Unknown fragment" error is not modelled)
                    fast = false;
                }
                1 => text = text.replacen("id", "idd", 1),
                2 => opname = Some("Nope".to_string()),
                _ => {}
            }
            Job { text, vars, opname, nodes: world.nodes, fast, intro: rng.chance(1, 10) }
        };
        let parsed = async_graphql::parser::parse_query(&job.text).ok();
        let mut runs: Vec<Run> = vec![];
        for k in 0..4 {
            let w = Arc::new(World { nodes: job.nodes.clone(), ..Default::default() });
            let mut req = Request::new(job.text.clone()).variables(Variables::from_json(job.vars.clone())).data(w.clone());
            if let Some(n) = &job.opname {
                req = req.operation_name(n.clone());
            }
            if job.intro {
                req = req.only_introspection();
            }
            LOG.lock().unwrap().clear();
            let resp = block_on(schemas[job.fast as usize][k].execute(req));
            let hooks = std::mem::take(&mut *LOG.lock().unwrap());
            let trace: Vec<(usize, String)> = w.trace.lock().unwrap().iter().filter_map(|e| if let Event::Start(_, n, f) = e { Some((*n, f.clone())) } else { None }).collect();
            let json = canon_json(&resp);
            let faults = w.nodes.iter().map(|n| n.1.values().filter(|o| **o == Out::Err).count()).sum::<usize>();
            runs.push(Run { resp, json, trace, hooks, faults });
        }
        // base outcomes of the phases that are not modelled (parser, validator), read from extension 0 of the k=1 run
        let parse_ok = runs[1].hooks.iter().any(|e| matches!(e, Ev::Exit(0, Hk::Parse, true)));
        let valid = !runs[1].hooks.iter().any(|e| matches!(e, Ev::Exit(0, Hk::Validation, false)));
        let gdoc = match (&parsed, parse_ok) {
            (Some(d), true) => format!("(Some {})", g_document(&mut it, d)),
            _ => "None".to_string(),
        };
        let world = World { nodes: job.nodes.clone(), ..Default::default() };
        let gworld = g_world(&mut it, &world);
        let g_resp = |it: &mut Interner, r: &Run| {
            format!(
                "{{| rs_data := {}; rs_errors := {}; rs_trace := {} |}}",
                g_const(it, &r.resp.data),
                g_list(r.resp.errors.iter(), |e| g_path(it, &e.path)),
                g_list(r.trace.iter(), |(n, f)| format!("({}%N, {})", n, it.n(f)))
            )
        };
        let gbase = g_resp(&mut it, &runs[0]);
        for k in 0..4 {
            let r = &runs[k];
            let same = r.json == runs[0].json;
            let gimpl = format!(
                "{{| i_resp := {}; i_base := {}; i_same := {}; i_hooks := {} |}}",
                g_resp(&mut it, r),
                gbase,
                g_bool(same),
                g_list(r.hooks.iter(), |e| g_ev(&mut it, e))
            );
            let gcfg = format!(
                "{{| c_k := {}%N; c_valid := {}; c_intro := {}; c_empty := {}; c_fast := {} |}}",
                k,
                g_bool(valid),
                g_bool(job.intro),
                it.n("EmptyMutation"),
                g_bool(job.fast)
            );
            let nontrivial = k > 0 && (r.resp.data != Value::Null || !r.resp.errors.is_empty());
            let meta = format!(
                "{{\"uses\":[\"fam\"],\"text\":{},\"impl\":{},\"nontrivial\":{}}}",
                jstr(&format!(
                    "[k={k} {}{}op={:?} vars={} faults={} doc#{doc_no}] {}",
                    if job.fast { "fast " } else { "" },
                    if job.intro { "introspection-only " } else { "" },
                    job.opname,
                    job.vars,
                    r.faults,
                    job.text.trim()
                )),
                jstr(&format!(
                    "{} errors={:?} hooks={} same_as_k0={}",
                    serde_json::to_string(&r.resp.data).unwrap().chars().take(160).collect::<String>(),
                    r.resp.errors.iter().map(|e| format!("{:?}:{}", e.path, e.message.chars().take(40).collect::<String>())).collect::<Vec<_>>(),
                    r.hooks.len(),
                    same
                )),
                nontrivial
            );
            writeln!(out, "CASE\t(fam, {gworld}, {gdoc}, {}, {}, {gcfg}, {gimpl})\t{meta}", g_opt(job.opname.as_ref(), |n| it.n(n)), g_vars(&mut it, &job.vars)).unwrap();
            case_no += 1;
        }
    }

    // variant schema stream: fixed queries x {normal, introspection-only query} x k = 0..3
    {
        let vs: Vec<var::VarSchema> = (0..4)
            .map(|k| {
                let mut b = var::build();
                for i in 0..k {
                    b = b.extension(RecFactory(i));
                }
                b.finish()
            })
            .collect();
        for (qi, qtext) in var::QUERIES.iter().enumerate() {
            for intro in [false, true] {
                if intro && qtext.starts_with("mutation") {
                    continue; // the EmptyMutation class is covered by the family stream
                }
                let mut jsons: Vec<String> = vec![];
                for k in 0..4 {
                    let mut req = Request::new(*qtext);
                    if qi == 10 {
                        req = req.operation_name("R");
                    }
                    if intro {
                        req = req.only_introspection();
                    }
                    LOG.lock().unwrap().clear();
                    let resp = block_on(vs[k].execute(req));
                    let hooks = std::mem::take(&mut *LOG.lock().unwrap());
                    let json = canon_json(&resp);
                    jsons.push(json.clone());
                    let same = json == jsons[0];
                    let meta = format!(
                        "{{\"text\":{},\"impl\":{},\"nontrivial\":{}}}",
                        jstr(&format!("[variant k={k}{}] {}", if intro { " introspection-only" } else { "" }, qtext)),
                        jstr(&format!("{} hooks={} same_as_k0={}", json.chars().take(200).collect::<String>(), hooks.len(), same)),
                        k > 0
                    );
                    writeln!(out, "VAR\t({}%N, {}, {})\t{meta}", k, g_bool(same), g_list(hooks.iter(), |e| g_ev(&mut it, e))).unwrap();
                }
            }
        }
    }

    // introspection stream: sub-fields of __schema / __type alone and mixed with data fields, on the
    // static family schema and on a dynamic schema, with 1..3 recording extensions; the resolve hooks
    // are compared with the response tree
    {
        let dyns: Vec<async_graphql::dynamic::Schema> = (0..4).map(dyn_schema).collect();
        let s_types = ["Query", "Mutation", "A", "Node", "Named", "Pair", "Kind", "Int", "Nope"];
        let s_data = ["id", "k0: name", "a { id name }", "bs { id }", "grid", "nodes { id }", "__typename"];
        let d_types = ["Query", "Item", "Kind", "Int", "Nope"];
        let d_data = ["a", "k0: b", "kind", "item { x tags next { x } }", "items { x tags }", "__typename"];
        let fixed: Vec<&str> = vec![
            "{ __type(name: \"Query\") { name fields { name } } }",
            "{ __schema { queryType { name } } }",
            "{ __schema { types { name kind } } }",
            "{ __schema { types { name enumValues { name } possibleTypes { name } } directives { name locations args { name type { name kind ofType { name } } } } } }",
            "{ __type(name: \"Query\") { kind fields { name args { name } type { name kind ofType { name kind ofType { name kind ofType { name } } } } } } }",
            "{ __type(name: \"Kind\") { name enumValues { name isDeprecated } inputFields { name } interfaces { name } } }",
            "{ __type(name: \"Nope\") { name } }",
            "{ __schema { mutationType { name } subscriptionType { name } } __type(name: \"Int\") { name kind } }",
        ];
        let n_intro = 8 + (a.n / 16).min(600);
        let mut rr = rng.fork();
        for qi in 0..n_intro {
            for dynamic in [false, true] {
                let text = if qi < fixed.len() {
                    let base = fixed[qi].to_string();
                    // mixed with data fields
                    if qi % 2 == 1 { base.replacen("{ ", if dynamic { "{ a items { x tags } " } else { "{ id bs { id } " }, 1) } else { base }
                } else if dynamic {
                    intro_query(&mut rr, &d_types, &d_data)
                } else {
                    intro_query(&mut rr, &s_types, &s_data)
                };
                let mut base_json = String::new();
                for k in 0..4 {
                    LOG.lock().unwrap().clear();
                    let resp = if dynamic {
                        block_on(dyns[k].execute(Request::new(text.clone())))
                    } else {
                        let w = Arc::new(World { nodes: small_nodes(vec![(0, "a", Out::Ref(2)), (0, "bs", Out::List(vec![Out::Ref(3), Out::Ref(3)])), (0, "nodes", Out::List(vec![Out::Ref(2), Out::Ref(4)])), (0, "grid", Out::List(vec![Out::List(vec![Out::Int(1)])]))]), ..Default::default() });
                        block_on(schemas[0][k].execute(Request::new(text.clone()).data(w)))
                    };
                    let hooks = std::mem::take(&mut *LOG.lock().unwrap());
                    let json = canon_json(&resp);
                    if k == 0 {
                        base_json = json.clone();
                        continue;
                    }
                    if !resp.errors.is_empty() {
                        writeln!(out, "INTROSKIP\t\t{}", jstr(&format!("{} -> {}", text, resp.errors[0].message))).unwrap();
                        break;
                    }
                    let mut tree = vec![];
                    tree_paths(&resp.data, &mut vec![], &mut tree);
                    let same = json == base_json;
                    let nh = hooks.iter().filter(|e| matches!(e, Ev::Enter(0, Hk::Field(..) | Hk::Item(..)))).count();
                    let meta = format!(
                        "{{\"text\":{},\"impl\":{},\"nontrivial\":true}}",
                        jstr(&format!("[introspection {} k={k}] {}", if dynamic { "dynamic" } else { "static" }, text)),
                        jstr(&format!("response positions={} resolve hooks seen by extension 0={} same_as_k0={}", tree.len(), nh, same))
                    );
                    writeln!(
                        out,
                        "INTRO\t({}%N, {}, {}, {}, {})\t{meta}",
                        k,
                        g_bool(same),
                        g_bool(dynamic),
                        g_list(hooks.iter(), |e| g_ev(&mut it, e)),
                        g_list(tree.iter(), |p| g_segs(&mut it, p))
                    )
                    .unwrap();
                }
            }
        }
    }
    writeln!(out, "NAMES\t\t{}", serde_json::to_string(&it.names).unwrap()).unwrap();
    std::fs::write(format!("{}/c30.cases", a.out), out).unwrap();
}

//! C16 correspondence: a compiled family of serde types (serde-derive structs
//! and enums of every variant form, options, maps with string keys, sequences,
//! tuples, every integer width, floats, bool, string, bytes, unit, char) nested
//! up to four levels, random values, the REAL `async_graphql_value::to_value`
//! and `from_value`.  Prints, per case, the type descriptor (shared DEF), the
//! typed value, the GraphQL value produced and what from_value returned, as
//! Gallina terms of coq/theories/SerdeRT.v.
//!
//! Streams: RT (typed value -> to_value -> from_value), DE (a mutated or
//! hand-made GraphQL value given to from_value::<T>).
use std::collections::BTreeMap;
use std::fmt::Write as _;
use std::panic::AssertUnwindSafe;

use agv_harness::*;
use async_graphql_value::{ConstValue, Name, Number, from_value, to_value};
use serde::de::DeserializeOwned;
use serde::{Deserialize, Serialize};

// ------------------------------------------------------------ printers ----
fn g_n(n: u128) -> String {
    format!("{}%N", n)
}

fn g_bytes(b: &[u8]) -> String {
    let mut o = String::from("[");
    for (i, c) in b.iter().enumerate() {
        if i > 0 {
            o.push(';');
        }
        write!(o, "{}", c).unwrap();
    }
    o.push_str("]%N");
    o
}

fn g_gval(v: &ConstValue) -> String {
    match v {
        ConstValue::Null => "GNull".into(),
        ConstValue::Number(n) => {
            if let Some(i) = n.as_i64() {
                format!("(GInt {})", g_z(i as i128))
            } else if let Some(u) = n.as_u64() {
                format!("(GInt {})", g_z(u as i128))
            } else {
                format!("(GFloat {})", g_n(n.as_f64().unwrap().to_bits() as u128))
            }
        }
        ConstValue::String(s) => format!("(GStr {})", g_str(s)),
        ConstValue::Boolean(b) => format!("(GBool {})", g_bool(*b)),
        ConstValue::Binary(b) => format!("(GBin {})", g_bytes(b)),
        ConstValue::Enum(n) => format!("(GEnum {})", g_str(n.as_str())),
        ConstValue::List(l) => format!("(GList {})", g_list(l.iter(), g_gval)),
        ConstValue::Object(m) => format!("(GObj {})", g_list(m.iter(), |(k, x)| format!("({}, {})", g_str(k.as_str()), g_gval(x)))),
    }
}

fn g_outcome<T>(r: &Option<Result<T, ()>>, f: impl Fn(&T) -> String) -> String {
    match r {
        None => "Panic".into(),
        Some(Ok(v)) => format!("(Ok {})", f(v)),
        Some(Err(())) => "(Err 0%N)".into(),
    }
}

fn jstr(s: &str) -> String {
    serde_json::to_string(s).unwrap()
}

// --------------------------------------------------------------- shapes ----
/// A Rust type of the family: its descriptor, a random generator and the
/// printer of its values (SerdeRT.sty / SerdeRT.sval).
trait Shape: Sized {
    fn sty() -> String;
    fn rnd(r: &mut Rng, d: usize) -> Self;
    fn sval(&self) -> String;
}

macro_rules! int_shape {
    ($($t:ident $tag:ident),*) => {$(
        impl Shape for $t {
            fn sty() -> String { format!("(TInt {})", stringify!($tag)) }
            fn rnd(r: &mut Rng, _d: usize) -> Self {
                match r.below(8) {
                    0 => $t::MIN,
                    1 => $t::MAX,
                    2 => 0,
                    3 => 1,
                    4 => $t::MAX / 2,
                    5 => ($t::MIN).wrapping_add(1),
                    _ => {
                        // random magnitude
                        let bits = r.below(std::mem::size_of::<$t>() * 8) as u32;
                        let raw = ((r.next() as u128) << 64 | r.next() as u128) as $t;
                        raw >> ((std::mem::size_of::<$t>() as u32 * 8 - 1).saturating_sub(bits))
                    }
                }
            }
            fn sval(&self) -> String { format!("(SInt {} {})", stringify!($tag), g_big(*self as i128, *self as u128, $t::MIN != 0)) }
        }
    )*};
}

/// i128-safe printer (u128 values above i128::MAX are printed unsigned)
fn g_big(s: i128, u: u128, signed: bool) -> String {
    if signed { format!("({})%Z", s) } else { format!("({})%Z", u) }
}

int_shape!(i8 I8, i16 I16, i32 I32, i64 I64, i128 I128, u8 U8, u16 U16, u32 U32, u64 U64, u128 U128);

fn rnd_f64(r: &mut Rng) -> f64 {
    match r.below(16) {
        0 => f64::NAN,
        1 => f64::INFINITY,
        2 => f64::NEG_INFINITY,
        3 => 0.0,
        4 => -0.0,
        5 => f64::MIN_POSITIVE / 4.0, // subnormal
        6 => f64::MAX,
        7 => r.range(-1000, 1000) as f64,
        8 => r.range(-1000, 1000) as f64 / 8.0,
        9 => (r.next() >> 11) as f64, // 53-bit integer
        _ => {
            let b = r.next();
            let f = f64::from_bits(b);
            if f.is_finite() { f } else { 1.5 }
        }
    }
}

fn rnd_f32(r: &mut Rng) -> f32 {
    match r.below(14) {
        0 => f32::NAN,
        1 => f32::INFINITY,
        2 => f32::NEG_INFINITY,
        3 => 0.0,
        4 => -0.0,
        5 => f32::MIN_POSITIVE / 4.0,
        6 => f32::MAX,
        7 => f32::from_bits(1),
        8 => r.range(-1000, 1000) as f32 / 4.0,
        _ => {
            let f = f32::from_bits(r.next() as u32);
            if f.is_finite() { f } else { 2.5 }
        }
    }
}

impl Shape for f64 {
    fn sty() -> String {
        "TF64".into()
    }
    fn rnd(r: &mut Rng, _d: usize) -> Self {
        rnd_f64(r)
    }
    fn sval(&self) -> String {
        format!("(SF64 {})", g_n(self.to_bits() as u128))
    }
}

impl Shape for f32 {
    fn sty() -> String {
        "TF32".into()
    }
    fn rnd(r: &mut Rng, _d: usize) -> Self {
        rnd_f32(r)
    }
    fn sval(&self) -> String {
        // carried as the binary64 image of the value
        format!("(SF32 {})", g_n((*self as f64).to_bits() as u128))
    }
}

impl Shape for bool {
    fn sty() -> String {
        "TBool".into()
    }
    fn rnd(r: &mut Rng, _d: usize) -> Self {
        r.chance(1, 2)
    }
    fn sval(&self) -> String {
        format!("(SBool {})", g_bool(*self))
    }
}

impl Shape for char {
    fn sty() -> String {
        "TChar".into()
    }
    fn rnd(r: &mut Rng, _d: usize) -> Self {
        *r.pick(&['a', 'Z', '0', 'é', '\u{1F600}', '\n'])
    }
    fn sval(&self) -> String {
        format!("(SChar {})", g_n(*self as u128))
    }
}

const WORDS: &[&str] = &["", "a", "b", "ab", "U", "N", "A", "x", "id", "é", "日本", "\u{1F600}", "null", "a b", "\"q\"", "T2", "S", "Z", "0", "zz"];

fn rnd_string(r: &mut Rng) -> String {
    if r.chance(3, 4) {
        r.pick(WORDS).to_string()
    } else {
        let n = r.below(5);
        (0..n).map(|_| *r.pick(&['a', 'b', 'c', 'k', '_', '1', 'ß', '€', '\u{10FFFF}', ' '])).collect()
    }
}

impl Shape for String {
    fn sty() -> String {
        "TStr".into()
    }
    fn rnd(r: &mut Rng, _d: usize) -> Self {
        rnd_string(r)
    }
    fn sval(&self) -> String {
        format!("(SStr {})", g_str(self))
    }
}

/// Bytes of the serde data model: serialize_bytes / visit_bytes, visit_byte_buf
/// (and visit_seq of u8, as serde_bytes::ByteBuf does).
#[derive(Clone, Debug, PartialEq)]
pub struct Bytes(pub Vec<u8>);

impl Serialize for Bytes {
    fn serialize<S: serde::Serializer>(&self, s: S) -> Result<S::Ok, S::Error> {
        s.serialize_bytes(&self.0)
    }
}

impl<'de> Deserialize<'de> for Bytes {
    fn deserialize<D: serde::Deserializer<'de>>(d: D) -> Result<Self, D::Error> {
        struct V;
        impl<'de> serde::de::Visitor<'de> for V {
            type Value = Bytes;
            fn expecting(&self, f: &mut std::fmt::Formatter) -> std::fmt::Result {
                f.write_str("byte array")
            }
            fn visit_bytes<E: serde::de::Error>(self, v: &[u8]) -> Result<Bytes, E> {
                Ok(Bytes(v.to_vec()))
            }
            fn visit_byte_buf<E: serde::de::Error>(self, v: Vec<u8>) -> Result<Bytes, E> {
                Ok(Bytes(v))
            }
            fn visit_seq<A: serde::de::SeqAccess<'de>>(self, mut seq: A) -> Result<Bytes, A::Error> {
                let mut out = vec![];
                while let Some(b) = seq.next_element::<u8>()? {
                    out.push(b);
                }
                Ok(Bytes(out))
            }
        }
        d.deserialize_byte_buf(V)
    }
}

fn rnd_bytes(r: &mut Rng) -> Vec<u8> {
    match r.below(5) {
        0 => vec![],
        1 => rnd_string(r).into_bytes(),
        2 => vec![0xff, 0x00],
        _ => (0..r.below(5)).map(|_| r.next() as u8).collect(),
    }
}

impl Shape for Bytes {
    fn sty() -> String {
        "TBytes".into()
    }
    fn rnd(r: &mut Rng, _d: usize) -> Self {
        Bytes(rnd_bytes(r))
    }
    fn sval(&self) -> String {
        format!("(SBytes {})", g_bytes(&self.0))
    }
}

impl Shape for () {
    fn sty() -> String {
        "TUnit".into()
    }
    fn rnd(_r: &mut Rng, _d: usize) -> Self {}
    fn sval(&self) -> String {
        "SUnit".into()
    }
}

impl<T: Shape> Shape for Option<T> {
    fn sty() -> String {
        format!("(TOption {})", T::sty())
    }
    fn rnd(r: &mut Rng, d: usize) -> Self {
        if r.chance(1, 4) { None } else { Some(T::rnd(r, d.saturating_sub(1))) }
    }
    fn sval(&self) -> String {
        match self {
            None => "SNone".into(),
            Some(v) => format!("(SSome {})", v.sval()),
        }
    }
}

impl<T: Shape> Shape for Box<T> {
    // serde: Box<T> serializes and deserializes as T
    fn sty() -> String {
        T::sty()
    }
    fn rnd(r: &mut Rng, d: usize) -> Self {
        Box::new(T::rnd(r, d))
    }
    fn sval(&self) -> String {
        (**self).sval()
    }
}

fn rnd_len(r: &mut Rng, d: usize) -> usize {
    let max = [1, 2, 3, 4][d.min(3)];
    if r.chance(1, 6) { 0 } else { r.below(max + 1) }
}

impl<T: Shape> Shape for Vec<T> {
    fn sty() -> String {
        format!("(TSeq {})", T::sty())
    }
    fn rnd(r: &mut Rng, d: usize) -> Self {
        let n = rnd_len(r, d);
        (0..n).map(|_| T::rnd(r, d.saturating_sub(1))).collect()
    }
    fn sval(&self) -> String {
        format!("(SSeq {})", g_list(self.iter(), |x| x.sval()))
    }
}

impl<T: Shape> Shape for BTreeMap<String, T> {
    fn sty() -> String {
        format!("(TMap {})", T::sty())
    }
    fn rnd(r: &mut Rng, d: usize) -> Self {
        let n = rnd_len(r, d);
        (0..n).map(|_| (rnd_string(r), T::rnd(r, d.saturating_sub(1)))).collect()
    }
    fn sval(&self) -> String {
        format!("(SMap {})", g_list(self.iter(), |(k, x)| format!("({}, {})", g_str(k), x.sval())))
    }
}

macro_rules! tuple_shape {
    ($(($($n:ident $i:tt),+))*) => {$(
        impl<$($n: Shape),+> Shape for ($($n,)+) {
            fn sty() -> String { format!("(TTuple {})", g_list(vec![$($n::sty()),+], |x| x)) }
            fn rnd(r: &mut Rng, d: usize) -> Self { ($($n::rnd(r, d.saturating_sub(1)),)+) }
            fn sval(&self) -> String { format!("(STuple {})", g_list(vec![$(self.$i.sval()),+], |x| x)) }
        }
    )*};
}
tuple_shape!((A 0) (A 0, B 1) (A 0, B 1, C 2) (A 0, B 1, C 2, D 3));

impl<T: Shape, const K: usize> Shape for [T; K]
where
    [T; K]: Sized,
{
    // serde: arrays are tuples
    fn sty() -> String {
        format!("(TTuple {})", g_list((0..K).map(|_| T::sty()), |x| x))
    }
    fn rnd(r: &mut Rng, d: usize) -> Self {
        std::array::from_fn(|_| T::rnd(r, d.saturating_sub(1)))
    }
    fn sval(&self) -> String {
        format!("(STuple {})", g_list(self.iter(), |x| x.sval()))
    }
}

fn strs(v: Vec<String>) -> String {
    g_list(v, |x| x)
}

macro_rules! sh_struct {
    ($name:ident { $($f:ident : $t:ty),* }) => {
        #[derive(Serialize, Deserialize, Clone, Debug, PartialEq)]
        pub struct $name { $(pub $f: $t),* }
        impl Shape for $name {
            fn sty() -> String {
                let v: Vec<String> = vec![$(format!("({}, {})", g_str(stringify!($f)), <$t>::sty())),*];
                format!("(TStruct {})", strs(v))
            }
            #[allow(unused_variables)]
            fn rnd(r: &mut Rng, d: usize) -> Self { $name { $($f: <$t>::rnd(r, d.saturating_sub(1))),* } }
            fn sval(&self) -> String {
                let v: Vec<String> = vec![$(format!("({}, {})", g_str(stringify!($f)), self.$f.sval())),*];
                format!("(SStruct {})", strs(v))
            }
        }
    };
}

macro_rules! sh_tuple_struct {
    ($name:ident ( $($x:ident : $t:ty),* )) => {
        #[derive(Serialize, Deserialize, Clone, Debug, PartialEq)]
        pub struct $name ( $(pub $t),* );
        impl Shape for $name {
            fn sty() -> String {
                let v: Vec<String> = vec![$(<$t>::sty()),*];
                format!("(TTuple {})", strs(v))
            }
            #[allow(unused_variables)]
            fn rnd(r: &mut Rng, d: usize) -> Self { $name ( $(<$t>::rnd(r, d.saturating_sub(1))),* ) }
            fn sval(&self) -> String {
                let $name($($x),*) = self;
                let v: Vec<String> = vec![$($x.sval()),*];
                format!("(STuple {})", strs(v))
            }
        }
    };
}

macro_rules! sh_newtype {
    ($name:ident ( $t:ty )) => {
        #[derive(Serialize, Deserialize, Clone, Debug, PartialEq)]
        pub struct $name(pub $t);
        impl Shape for $name {
            fn sty() -> String { format!("(TNewtype {})", <$t>::sty()) }
            fn rnd(r: &mut Rng, d: usize) -> Self { $name(<$t>::rnd(r, d)) }
            fn sval(&self) -> String { format!("(SNewtype {})", self.0.sval()) }
        }
    };
}

macro_rules! sh_unit {
    ($name:ident) => {
        #[derive(Serialize, Deserialize, Clone, Debug, PartialEq)]
        pub struct $name;
        impl Shape for $name {
            fn sty() -> String { "TUnitStruct".into() }
            fn rnd(_r: &mut Rng, _d: usize) -> Self { $name }
            fn sval(&self) -> String { "SUnit".into() }
        }
    };
}

macro_rules! sh_enum {
    ($name:ident;
     unit [ $($u:ident),* ];
     newtype [ $($n:ident ( $nt:ty )),* ];
     tuple [ $($p:ident ( $($px:ident : $pt:ty),* )),* ];
     strct [ $($s:ident { $($sf:ident : $st:ty),* }),* ]) => {
        #[derive(Serialize, Deserialize, Clone, Debug, PartialEq)]
        pub enum $name {
            $($u,)*
            $($n($nt),)*
            $($p($($pt),*),)*
            $($s { $($sf: $st),* },)*
        }
        impl Shape for $name {
            fn sty() -> String {
                let mut v: Vec<String> = vec![];
                $(v.push(format!("({}, (KUnit, TUnit))", g_str(stringify!($u))));)*
                $(v.push(format!("({}, (KNewtype, {}))", g_str(stringify!($n)), <$nt>::sty()));)*
                $(v.push({
                    let ts: Vec<String> = vec![$(<$pt>::sty()),*];
                    format!("({}, (KTuple, (TTuple {})))", g_str(stringify!($p)), strs(ts))
                });)*
                $(v.push({
                    let fs: Vec<String> = vec![$(format!("({}, {})", g_str(stringify!($sf)), <$st>::sty())),*];
                    format!("({}, (KStruct, (TStruct {})))", g_str(stringify!($s)), strs(fs))
                });)*
                format!("(TEnum {})", strs(v))
            }
            #[allow(unused_variables)]
            fn rnd(r: &mut Rng, d: usize) -> Self {
                let d = d.saturating_sub(1);
                let mut opts: Vec<fn(&mut Rng, usize) -> $name> = vec![];
                $(opts.push(|_r, _d| $name::$u);)*
                $(opts.push(|r, d| $name::$n(<$nt>::rnd(r, d)));)*
                $(opts.push(|r, d| $name::$p($(<$pt>::rnd(r, d)),*));)*
                $(opts.push(|r, d| $name::$s { $($sf: <$st>::rnd(r, d)),* });)*
                let k = r.below(opts.len());
                opts[k](r, d)
            }
            fn sval(&self) -> String {
                match self {
                    $($name::$u => format!("(SVariant {} KUnit SUnit)", g_str(stringify!($u))),)*
                    $($name::$n(x) => format!("(SVariant {} KNewtype {})", g_str(stringify!($n)), x.sval()),)*
                    $($name::$p($($px),*) => {
                        let v: Vec<String> = vec![$($px.sval()),*];
                        format!("(SVariant {} KTuple (STuple {}))", g_str(stringify!($p)), strs(v))
                    })*
                    $($name::$s { $($sf),* } => {
                        let v: Vec<String> = vec![$(format!("({}, {})", g_str(stringify!($sf)), $sf.sval())),*];
                        format!("(SVariant {} KStruct (SStruct {}))", g_str(stringify!($s)), strs(v))
                    })*
                }
            }
        }
    };
}

// ----------------------------------------------------------- the family ----
sh_unit!(Unit0);
sh_newtype!(NtI(i32));
sh_newtype!(NtOpt(Option<i32>));
sh_newtype!(NtUnit(()));
sh_newtype!(NtF(f64));
sh_newtype!(NtNt(NtOpt));
sh_tuple_struct!(Ts0());
sh_tuple_struct!(Ts2(a: i32, b: String));
sh_tuple_struct!(Ts3(a: Option<NtI>, b: Vec<Ts2>, c: f64));
sh_struct!(P0 {});
sh_struct!(P1 { a: i32 });
sh_struct!(P3 { id: u64, name: String, tags: Vec<String> });
sh_struct!(POpt { a: Option<i32>, b: Option<Option<bool>>, c: Option<()>, d: Option<String> });
sh_enum!(E1; unit [A, B, C]; newtype []; tuple []; strct []);
sh_enum!(E2;
    unit [U];
    newtype [N(i32)];
    tuple [T2(x0: i32, x1: String), Z()];
    strct [S { x: f64, y: Option<bool> }, S0 {}]);
sh_enum!(E3;
    unit [None, Null];
    newtype [NO(Option<i32>), NU(()), NE(E1), NS(P3), NV(Vec<u8>), NT((i8, i8)), NB(Box<E2>)];
    tuple [T(x0: E1, x1: Option<E2>), T3(x0: u8, x1: (), x2: Vec<E1>)];
    strct [S { inner: P1, list: Vec<Option<E1>>, m: BTreeMap<String, E2> }]);
sh_enum!(E4;
    unit [];
    newtype [Only(Option<Option<u16>>)];
    tuple [];
    strct []);
sh_struct!(Deep1 {
    a: Option<Vec<BTreeMap<String, E2>>>,
    b: (Ts2, Option<Option<u8>>),
    c: E3,
    d: Bytes,
    e: Vec<(String, f32)>
});
sh_struct!(Deep2 {
    x: Vec<Deep1>,
    y: Option<E3>,
    z: NtOpt,
    u: Option<Unit0>,
    w: [i16; 3],
    k: BTreeMap<String, Option<Deep1>>
});
sh_struct!(Nums {
    a: i8, b: i16, c: i32, d: i64, e: u8, f: u16, g: u32, h: u64, x: f32, y: f64, t: bool
});
sh_struct!(Wide { big: i128, ubig: u128, c: char });
sh_tuple_struct!(TsDeep(a: Vec<Vec<Option<Vec<i8>>>>, b: BTreeMap<String, BTreeMap<String, Vec<E1>>>, c: Option<(E2, Ts0, P0)>));

// ---------------------------------------------------------------- cases ----
struct Out {
    text: String,
    defs: std::collections::BTreeSet<String>,
    /// quirk flag of the class "field-less tuple variant" (Gallina bool), inferred by
    /// running the class's witness on the real code
    q: &'static str,
}

/// true = today's behaviour: `E2::Z()` does not survive to_value / from_value.
fn infer_quirk_empty_tuple_variant() -> bool {
    match to_value(E2::Z()) {
        Ok(g) => !matches!(catch(AssertUnwindSafe(move || from_value::<E2>(g))), Some(Ok(E2::Z()))),
        Err(_) => true,
    }
}

impl Out {
    fn def<T: Shape>(&mut self, name: &str) {
        if self.defs.insert(name.to_string()) {
            writeln!(self.text, "DEF\t{}\t{}", name, T::sty()).unwrap();
        }
    }
}

fn rt_case<T: Shape + Serialize + DeserializeOwned + std::fmt::Debug>(out: &mut Out, tyname: &str, v: &T) {
    out.def::<T>(tyname);
    let g: Option<Result<ConstValue, ()>> = catch(AssertUnwindSafe(|| to_value(v).map_err(|_| ())));
    let r: Option<Result<T, ()>> = match &g {
        Some(Ok(gv)) => {
            let gv = gv.clone();
            catch(AssertUnwindSafe(move || from_value::<T>(gv).map_err(|_| ())))
        }
        Some(Err(())) => Some(Err(())),
        None => None,
    };
    let sv = v.sval();
    let nontrivial = matches!(&g, Some(Ok(x)) if *x != ConstValue::Null);
    let impl_text = format!(
        "to_value={} from_value={}",
        match &g {
            Some(Ok(x)) => x.to_string(),
            Some(Err(())) => "Err".into(),
            None => "PANIC".into(),
        },
        match &r {
            Some(Ok(x)) => format!("{:?}", x),
            Some(Err(())) => "Err".into(),
            None => "PANIC".into(),
        }
    );
    writeln!(
        out.text,
        "RT\t({}, {}, {}, {}, {})\t{{\"uses\":[{}],\"text\":{},\"impl\":{},\"nontrivial\":{}}}",
        out.q,
        tyname,
        sv,
        g_outcome(&g, g_gval),
        g_outcome(&r, |x: &T| x.sval()),
        jstr(tyname),
        jstr(&format!("{}: {:?}", tyname, v)),
        jstr(&impl_text),
        nontrivial
    )
    .unwrap();
}

fn de_case<T: Shape + DeserializeOwned + std::fmt::Debug>(out: &mut Out, tyname: &str, g: &ConstValue) {
    out.def::<T>(tyname);
    let gv = g.clone();
    let r: Option<Result<T, ()>> = catch(AssertUnwindSafe(move || from_value::<T>(gv).map_err(|_| ())));
    let impl_text = match &r {
        Some(Ok(x)) => format!("{:?}", x),
        Some(Err(())) => "Err".into(),
        None => "PANIC".into(),
    };
    writeln!(
        out.text,
        "DE\t({}, {}, {}, {})\t{{\"uses\":[{}],\"text\":{},\"impl\":{},\"nontrivial\":{}}}",
        out.q,
        tyname,
        g_gval(g),
        g_outcome(&r, |x: &T| x.sval()),
        jstr(tyname),
        jstr(&format!("{} <- {}", tyname, gdebug(g))),
        jstr(&impl_text),
        matches!(&r, Some(Ok(_)))
    )
    .unwrap();
}

/// Display of ConstValue does not show Binary / Enum-vs-String; this does.
fn gdebug(g: &ConstValue) -> String {
    match g {
        ConstValue::Binary(b) => format!("bin{:?}", b.as_ref()),
        ConstValue::Enum(n) => format!("enum:{}", n),
        ConstValue::List(l) => format!("[{}]", l.iter().map(gdebug).collect::<Vec<_>>().join(",")),
        ConstValue::Object(m) => format!("{{{}}}", m.iter().map(|(k, v)| format!("{:?}:{}", k.as_str(), gdebug(v))).collect::<Vec<_>>().join(",")),
        ConstValue::Number(n) => {
            if n.is_f64() {
                format!("f{:?}", n.as_f64().unwrap())
            } else {
                n.to_string()
            }
        }
        other => other.to_string(),
    }
}

// ------------------------------------------------------------ mutation ----
fn pool(r: &mut Rng) -> ConstValue {
    match r.below(16) {
        0 => ConstValue::Null,
        1 => ConstValue::Boolean(r.chance(1, 2)),
        2 => ConstValue::Number((r.range(-3, 300)).into()),
        3 => ConstValue::Number((*r.pick(&[i64::MIN, -129, -128, 127, 128, 255, 256, 65535, 65536, i32::MAX as i64, i32::MAX as i64 + 1, i64::MAX])).into()),
        4 => ConstValue::Number((*r.pick(&[u64::MAX, i64::MAX as u64 + 1, 1u64 << 53, (1u64 << 53) + 1, (1u64 << 24) + 1, (1u64 << 60) + (1u64 << 36), u64::MAX - 1024])).into()),
        5 => {
            let f = rnd_f64(r);
            Number::from_f64(f).map(ConstValue::Number).unwrap_or(ConstValue::Null)
        }
        6 => ConstValue::Number(Number::from_f64(rnd_f32(r) as f64).unwrap_or_else(|| 1.into())),
        7 => ConstValue::String(rnd_string(r)),
        8 => ConstValue::Enum(Name::new(rnd_string(r))),
        9 => ConstValue::Binary(rnd_bytes(r).into()),
        10 => ConstValue::List(vec![]),
        11 => ConstValue::List((0..1 + r.below(3)).map(|_| pool_leaf(r)).collect()),
        12 => ConstValue::Object(Default::default()),
        13 => ConstValue::Object((0..1 + r.below(2)).map(|_| (Name::new(rnd_string(r)), pool_leaf(r))).collect()),
        14 => ConstValue::String(r.pick(&["A", "U", "N", "T2", "Z", "S", "S0", "None", "Null", "NO", "NU", "T", "Only"]).to_string()),
        _ => ConstValue::Object([(Name::new(*r.pick(&["A", "U", "N", "T2", "Z", "S", "S0", "NU", "NO", "T3", "Only"])), pool_leaf(r))].into_iter().collect()),
    }
}

fn pool_leaf(r: &mut Rng) -> ConstValue {
    match r.below(7) {
        0 => ConstValue::Null,
        1 => ConstValue::Boolean(true),
        2 => ConstValue::Number(r.range(-2, 260).into()),
        3 => ConstValue::String(rnd_string(r)),
        4 => ConstValue::List(vec![]),
        5 => ConstValue::Object(Default::default()),
        _ => ConstValue::Number(Number::from_f64(r.range(-8, 8) as f64 / 2.0).unwrap()),
    }
}

fn count_nodes(g: &ConstValue) -> usize {
    1 + match g {
        ConstValue::List(l) => l.iter().map(count_nodes).sum(),
        ConstValue::Object(m) => m.values().map(count_nodes).sum(),
        _ => 0,
    }
}

fn mutate_here(r: &mut Rng, g: &ConstValue) -> ConstValue {
    match g {
        ConstValue::List(l) if r.chance(2, 3) => {
            let mut l = l.clone();
            match r.below(5) {
                0 => {
                    l.pop();
                }
                1 => l.push(pool(r)),
                2 => l.clear(),
                3 => l.reverse(),
                _ => {
                    if !l.is_empty() {
                        let i = r.below(l.len());
                        l.remove(i);
                    }
                }
            }
            ConstValue::List(l)
        }
        ConstValue::Object(m) if r.chance(2, 3) => {
            let mut e: Vec<(Name, ConstValue)> = m.iter().map(|(k, v)| (k.clone(), v.clone())).collect();
            match r.below(6) {
                0 => {
                    if !e.is_empty() {
                        let i = r.below(e.len());
                        e.remove(i);
                    }
                }
                1 => e.push((Name::new(rnd_string(r)), pool(r))),
                2 => e.reverse(),
                3 => {
                    if !e.is_empty() {
                        let i = r.below(e.len());
                        e[i].0 = Name::new(rnd_string(r));
                    }
                }
                4 => {
                    if e.len() > 1 {
                        let i = r.below(e.len());
                        let j = r.below(e.len());
                        let k = e[j].0.clone();
                        e[i].0 = k; // duplicate key: IndexMap keeps the first position, last value
                    }
                }
                _ => {
                    if !e.is_empty() {
                        let i = r.below(e.len());
                        e[i].1 = pool(r);
                    }
                }
            }
            ConstValue::Object(e.into_iter().collect())
        }
        ConstValue::String(s) if r.chance(1, 2) => ConstValue::Enum(Name::new(s)),
        ConstValue::Number(n) if r.chance(1, 2) => {
            if let Some(i) = n.as_i64() {
                match r.below(3) {
                    0 => ConstValue::Number(Number::from_f64(i as f64).unwrap()),
                    1 => ConstValue::Number((i.wrapping_neg()).into()),
                    _ => ConstValue::Number((i.wrapping_add(*r.pick(&[1, -1, 256, 65536, 1 << 32]))).into()),
                }
            } else if let Some(f) = n.as_f64() {
                match r.below(3) {
                    0 => ConstValue::Number(((f as i64).clamp(-1000000, 1000000)).into()),
                    1 => Number::from_f64(f * 1.0000001).map(ConstValue::Number).unwrap_or(ConstValue::Null),
                    _ => Number::from_f64(f64::from_bits(f.to_bits() ^ (1 << r.below(40)))).map(ConstValue::Number).unwrap_or(ConstValue::Null),
                }
            } else {
                pool(r)
            }
        }
        _ => pool(r),
    }
}

fn mutate_at(r: &mut Rng, g: &ConstValue, target: &mut isize) -> ConstValue {
    if *target == 0 {
        *target -= 1;
        return mutate_here(r, g);
    }
    *target -= 1;
    match g {
        ConstValue::List(l) => ConstValue::List(l.iter().map(|x| if *target >= 0 { mutate_at(r, x, target) } else { x.clone() }).collect()),
        ConstValue::Object(m) => ConstValue::Object(
            m.iter()
                .map(|(k, x)| (k.clone(), if *target >= 0 { mutate_at(r, x, target) } else { x.clone() }))
                .collect(),
        ),
        other => other.clone(),
    }
}

fn mutate(r: &mut Rng, g: &ConstValue) -> ConstValue {
    let n = count_nodes(g);
    // bias towards the top of the tree
    let mut target = if r.chance(1, 3) { 0 } else { r.below(n) as isize };
    mutate_at(r, g, &mut target)
}

// -------------------------------------------------------------- driver -----
type Runner = Box<dyn Fn(&mut Out, &mut Rng, bool)>;

fn runner<T: Shape + Serialize + DeserializeOwned + std::fmt::Debug + 'static>(name: &'static str) -> Runner {
    Box::new(move |out, r, de| {
        let d = 1 + r.below(4);
        let v = T::rnd(r, d);
        if !de {
            rt_case::<T>(out, name, &v);
        } else {
            let g = match to_value(&v) {
                Ok(g) => g,
                Err(_) => pool(r),
            };
            let mut g2 = if r.chance(1, 8) { pool(r) } else { mutate(r, &g) };
            if r.chance(1, 4) {
                g2 = mutate(r, &g2);
            }
            de_case::<T>(out, name, &g2);
        }
    })
}

macro_rules! fam {
    ($($name:ident : $t:ty),* $(,)?) => {
        vec![$((stringify!($name), runner::<$t>(stringify!($name)))),*]
    };
}

fn family() -> Vec<(&'static str, Runner)> {
    fam![
        ty_bool: bool, ty_i8: i8, ty_i16: i16, ty_i32: i32, ty_i64: i64, ty_u8: u8, ty_u16: u16, ty_u32: u32, ty_u64: u64,
        ty_i128: i128, ty_u128: u128, ty_f32: f32, ty_f64: f64, ty_char: char, ty_str: String, ty_bytes: Bytes, ty_unit: (),
        ty_opt_i32: Option<i32>, ty_opt_opt_i32: Option<Option<i32>>, ty_opt_unit: Option<()>, ty_opt_f64: Option<f64>,
        ty_opt_str: Option<String>, ty_opt3: Option<Option<Option<bool>>>, ty_opt_unit0: Option<Unit0>, ty_opt_ntopt: Option<NtOpt>,
        ty_opt_ntnt: Option<NtNt>, ty_opt_vec: Option<Vec<i16>>, ty_vec_opt: Vec<Option<u8>>, ty_vec_opt_opt: Vec<Option<Option<u8>>>,
        ty_vec_unit: Vec<()>, ty_vec_f32: Vec<f32>,
        ty_map_i64: BTreeMap<String, i64>, ty_map_deep: BTreeMap<String, Vec<Option<String>>>, ty_map_map: BTreeMap<String, BTreeMap<String, bool>>,
        ty_tup1: (u8,), ty_tup2: (i32, String), ty_tup_deep: ((i8, bool), Option<(f32, String)>, Vec<()>), ty_tup4: (u64, i64, f64, Option<u64>),
        ty_arr: [u8; 3], ty_arr0: [i32; 0],
        ty_unit0: Unit0, ty_nt_i: NtI, ty_nt_opt: NtOpt, ty_nt_unit: NtUnit, ty_nt_f: NtF, ty_nt_nt: NtNt,
        ty_ts0: Ts0, ty_ts2: Ts2, ty_ts3: Ts3, ty_p0: P0, ty_p1: P1, ty_p3: P3, ty_popt: POpt,
        ty_e1: E1, ty_e2: E2, ty_e3: E3, ty_e4: E4, ty_opt_e1: Option<E1>, ty_opt_e2: Option<E2>, ty_vec_e2: Vec<E2>, ty_map_e3: BTreeMap<String, E3>,
        ty_deep1: Deep1, ty_deep2: Deep2, ty_nums: Nums, ty_wide: Wide, ty_tsdeep: TsDeep,
        ty_box: Box<Option<Box<E2>>>,
    ]
}

fn fixed_corpus(out: &mut Out) {
    // witnesses of the known classes
    rt_case::<Option<Option<i32>>>(out, "ty_opt_opt_i32", &Some(None));
    rt_case::<Option<()>>(out, "ty_opt_unit", &Some(()));
    rt_case::<Option<Unit0>>(out, "ty_opt_unit0", &Some(Unit0));
    rt_case::<Option<NtOpt>>(out, "ty_opt_ntopt", &Some(NtOpt(None)));
    rt_case::<Option<f64>>(out, "ty_opt_f64", &Some(f64::NAN));
    rt_case::<Option<f64>>(out, "ty_opt_f64", &Some(f64::INFINITY));
    rt_case::<f64>(out, "ty_f64", &f64::NAN);
    rt_case::<f64>(out, "ty_f64", &f64::NEG_INFINITY);
    rt_case::<f32>(out, "ty_f32", &f32::INFINITY);
    rt_case::<E2>(out, "ty_e2", &E2::Z());
    rt_case::<i128>(out, "ty_i128", &1i128);
    rt_case::<u128>(out, "ty_u128", &7u128);
    rt_case::<char>(out, "ty_char", &'a');
    // each variant form, boundaries
    rt_case::<E2>(out, "ty_e2", &E2::U);
    rt_case::<E2>(out, "ty_e2", &E2::N(-1));
    rt_case::<E2>(out, "ty_e2", &E2::T2(1, "x".into()));
    rt_case::<E2>(out, "ty_e2", &E2::S { x: 1.5, y: None });
    rt_case::<E2>(out, "ty_e2", &E2::S0 {});
    rt_case::<E3>(out, "ty_e3", &E3::None);
    rt_case::<E3>(out, "ty_e3", &E3::NO(None));
    rt_case::<E3>(out, "ty_e3", &E3::NU(()));
    rt_case::<Option<E3>>(out, "ty_opt_e3", &Some(E3::Null));
    rt_case::<Ts0>(out, "ty_ts0", &Ts0());
    rt_case::<Option<Ts0>>(out, "ty_opt_ts0", &Some(Ts0()));
    rt_case::<P0>(out, "ty_p0", &P0 {});
    rt_case::<Option<P0>>(out, "ty_opt_p0", &Some(P0 {}));
    rt_case::<Option<Vec<i16>>>(out, "ty_opt_vec", &Some(vec![]));
    rt_case::<Option<Option<i32>>>(out, "ty_opt_opt_i32", &Some(Some(0)));
    rt_case::<Option<Option<i32>>>(out, "ty_opt_opt_i32", &None);
    rt_case::<u64>(out, "ty_u64", &u64::MAX);
    rt_case::<i64>(out, "ty_i64", &i64::MIN);
    rt_case::<f64>(out, "ty_f64", &-0.0);
    rt_case::<f32>(out, "ty_f32", &f32::from_bits(1));
    rt_case::<f32>(out, "ty_f32", &f32::MAX);
    rt_case::<Bytes>(out, "ty_bytes", &Bytes(vec![0, 255, 128]));
    rt_case::<Option<Bytes>>(out, "ty_opt_bytes", &Some(Bytes(vec![])));
    rt_case::<BTreeMap<String, i64>>(out, "ty_map_i64", &[("b".to_string(), 1), ("".to_string(), 2), ("a".to_string(), 3), ("ab".to_string(), 4), ("é".to_string(), 5), ("\u{10FFFF}".to_string(), 6)].into_iter().collect());
    // from_value on hand-made values: the other accepted forms
    let obj = |e: Vec<(&str, ConstValue)>| ConstValue::Object(e.into_iter().map(|(k, v)| (Name::new(k), v)).collect());
    let num = |i: i64| ConstValue::Number(i.into());
    de_case::<E2>(out, "ty_e2", &obj(vec![("U", ConstValue::Null)]));
    de_case::<E2>(out, "ty_e2", &obj(vec![("U", num(1))]));
    de_case::<E2>(out, "ty_e2", &ConstValue::Enum(Name::new("U")));
    de_case::<E2>(out, "ty_e2", &ConstValue::String("N".into()));
    de_case::<E2>(out, "ty_e2", &obj(vec![("Z", ConstValue::List(vec![]))]));
    de_case::<E2>(out, "ty_e2", &obj(vec![("Z", ConstValue::Null)]));
    de_case::<E2>(out, "ty_e2", &obj(vec![("T2", ConstValue::List(vec![num(1)]))]));
    de_case::<E2>(out, "ty_e2", &obj(vec![("T2", ConstValue::List(vec![num(1), ConstValue::String("s".into()), num(3)]))]));
    de_case::<E2>(out, "ty_e2", &obj(vec![("S", ConstValue::List(vec![ConstValue::Number(Number::from_f64(1.0).unwrap()), ConstValue::Null]))]));
    de_case::<E2>(out, "ty_e2", &obj(vec![("S", obj(vec![("x", num(1))]))]));
    de_case::<E2>(out, "ty_e2", &obj(vec![("S", obj(vec![("y", ConstValue::Boolean(true))]))]));
    de_case::<E2>(out, "ty_e2", &obj(vec![("S", obj(vec![("x", num(1)), ("q", num(2)), ("y", ConstValue::Null)]))]));
    de_case::<E2>(out, "ty_e2", &obj(vec![("U", ConstValue::Null), ("N", num(1))]));
    de_case::<E2>(out, "ty_e2", &obj(vec![]));
    de_case::<P3>(out, "ty_p3", &ConstValue::List(vec![num(1), ConstValue::String("n".into()), ConstValue::List(vec![])]));
    de_case::<P3>(out, "ty_p3", &ConstValue::List(vec![num(1), ConstValue::String("n".into())]));
    de_case::<POpt>(out, "ty_popt", &obj(vec![]));
    de_case::<POpt>(out, "ty_popt", &obj(vec![("c", num(0))]));
    de_case::<P1>(out, "ty_p1", &obj(vec![]));
    de_case::<Ts0>(out, "ty_ts0", &ConstValue::Null);
    de_case::<Ts0>(out, "ty_ts0", &ConstValue::List(vec![num(1)]));
    de_case::<Unit0>(out, "ty_unit0", &ConstValue::List(vec![]));
    de_case::<()>(out, "ty_unit", &ConstValue::List(vec![]));
    de_case::<NtI>(out, "ty_nt_i", &ConstValue::List(vec![num(1)]));
    de_case::<String>(out, "ty_str", &ConstValue::Binary("h\u{e9}\u{20ac}\u{1F600}".as_bytes().to_vec().into()));
    de_case::<String>(out, "ty_str", &ConstValue::Binary(vec![0xc0, 0x80].into()));
    de_case::<String>(out, "ty_str", &ConstValue::Binary(vec![0xed, 0xa0, 0x80].into()));
    de_case::<String>(out, "ty_str", &ConstValue::Binary(vec![0xf4, 0x90, 0x80, 0x80].into()));
    de_case::<String>(out, "ty_str", &ConstValue::Binary(vec![0xe2, 0x82].into()));
    de_case::<Bytes>(out, "ty_bytes", &ConstValue::List(vec![num(0), num(255)]));
    de_case::<Bytes>(out, "ty_bytes", &ConstValue::List(vec![num(256)]));
    de_case::<Bytes>(out, "ty_bytes", &ConstValue::String("ab".into()));
    de_case::<char>(out, "ty_char", &ConstValue::String("é".into()));
    de_case::<char>(out, "ty_char", &ConstValue::String("ab".into()));
    de_case::<BTreeMap<String, i64>>(out, "ty_map_i64", &obj(vec![("b", num(1)), ("a", num(2))]));
    de_case::<i128>(out, "ty_i128", &ConstValue::Number(u64::MAX.into()));
    de_case::<u128>(out, "ty_u128", &num(-1));
    de_case::<u8>(out, "ty_u8", &ConstValue::Number(Number::from_f64(1.0).unwrap()));
}

fn float_cases(out: &mut Out, r: &mut Rng, n: usize) {
    let fl = |f: f64| ConstValue::Number(Number::from_f64(f).unwrap());
    for _ in 0..n {
        // binary64 values around binary32 rounding boundaries
        let x = loop {
            let f = f32::from_bits(r.next() as u32);
            if f.is_finite() {
                break f;
            }
        };
        let x = match r.below(6) {
            0 => f32::from_bits(r.below(64) as u32),          // tiny subnormals
            1 => f32::from_bits(0x7f7f_fff0 + r.below(16) as u32), // near MAX
            2 => f32::from_bits(0x0080_0000 - 8 + r.below(16) as u32), // around MIN_POSITIVE
            _ => x,
        };
        let next = f32::from_bits(x.to_bits().wrapping_add(1));
        let a = x as f64;
        let b = if next.is_finite() { next as f64 } else { a * 2.0 };
        let mid = a / 2.0 + b / 2.0;
        let cand = match r.below(6) {
            0 => mid,
            1 => f64::from_bits(mid.to_bits().wrapping_add(1)),
            2 => f64::from_bits(mid.to_bits().wrapping_sub(1)),
            3 => f64::from_bits(a.to_bits() ^ (r.next() & 0x1fff_ffff)),
            4 => a,
            _ => {
                let f = f64::from_bits(r.next());
                if f.is_finite() { f } else { mid }
            }
        };
        if cand.is_finite() {
            de_case::<f32>(out, "ty_f32", &fl(cand));
        }
        // integers into floats (one rounding)
        let u = match r.below(4) {
            0 => r.next(),
            1 => r.next() >> r.below(64),
            2 => (1u64 << (24 + r.below(40))) + (1u64 << r.below(24)),
            _ => u64::MAX - (r.next() >> (r.below(60) + 4)),
        };
        de_case::<f32>(out, "ty_f32", &ConstValue::Number(u.into()));
        de_case::<f64>(out, "ty_f64", &ConstValue::Number(u.into()));
        let i = (r.next() as i64) >> r.below(64);
        de_case::<f32>(out, "ty_f32", &ConstValue::Number(i.into()));
        de_case::<f64>(out, "ty_f64", &ConstValue::Number(i.into()));
    }
    // largest finite / overflow to infinity
    for f in [f32::MAX as f64, 3.4028235677973366e38, 3.4028235677973362e38, 3.402823669209385e38, 1e39, -1e39, f64::MAX, 1e-46, 7.006492321624085e-46, 7.006492321624087e-46, 5e-324] {
        de_case::<f32>(out, "ty_f32", &fl(f));
    }
}

fn main() {
    let a = parse_args();
    // Rng::new(s) and Rng::new(s + 1) are the same SplitMix stream shifted by one draw;
    // forking decorrelates consecutive seeds.
    let mut rng = Rng::new(a.seed).fork();
    let q = g_bool(infer_quirk_empty_tuple_variant());
    let mut out = Out { text: String::new(), defs: Default::default(), q };
    writeln!(out.text, "QUIRK\t\t{{\"empty_tuple_variant\":{}}}", q).unwrap();
    // types used only by the fixed corpus
    out.def::<Option<E3>>("ty_opt_e3");
    out.def::<Option<Ts0>>("ty_opt_ts0");
    out.def::<Option<P0>>("ty_opt_p0");
    out.def::<Option<Bytes>>("ty_opt_bytes");
    fixed_corpus(&mut out);
    float_cases(&mut out, &mut rng, (a.n / 40).max(5));
    let fam = family();
    let mut k = 0usize;
    while k < a.n {
        // every type in turn (so that each is covered even for small n), random order within a round
        let mut order: Vec<usize> = (0..fam.len()).collect();
        rng.shuffle(&mut order);
        for i in order {
            if k >= a.n {
                break;
            }
            let de = rng.chance(2, 5);
            (fam[i].1)(&mut out, &mut rng, de);
            k += 1;
        }
    }
    std::fs::write(format!("{}/c16.cases", a.out), out.text).unwrap();
}

//! C21 correspondence: secret arguments / input fields never appear in the
//! query text produced for logging and tracing.
//!
//! A harness extension calls `ExtensionContext::stringify_execute_doc(doc, variables)`
//! (what Logger / Tracing / OpenTelemetry call) on the parsed document of every
//! request.  Each case is a PAIR of requests that are identical except for the
//! values supplied at secret positions (sentinel values `SECa…`/`91007…` in the
//! first request, `SECb…`/`92007…` in the second).  Printed per case: the
//! registry as dumped from the real `Registry`, both parsed documents (fragment
//! and operation order = the real map iteration order), both variable maps and
//! both real outputs.
use std::borrow::Cow;
use std::fmt::Write as _;
use std::sync::{Arc, Mutex, RwLock};

use agv_harness::*;
use async_graphql::extensions::{Extension, ExtensionContext, ExtensionFactory, NextParseQuery};
use async_graphql::indexmap::IndexMap;
use async_graphql::parser::types::{DocumentOperations, ExecutableDocument, Field};
use async_graphql::registry::{MetaField, MetaInputValue, MetaType, MetaTypeName, Registry};
use async_graphql::*;
use async_graphql_value::{ConstValue, Name, Number, Value as GValue};

// ------------------------------------------------------------ description --
#[derive(Clone, Debug)]
struct ArgD {
    name: String,
    ty: String,
    secret: bool,
}
#[derive(Clone, Debug)]
struct FieldD {
    name: String,
    ty: String,
    args: Vec<ArgD>,
}
#[derive(Clone, Debug)]
enum TypeD {
    Object { name: String, fields: Vec<FieldD> },
    Interface { name: String, fields: Vec<FieldD>, possible: Vec<String> },
    Union { name: String, possible: Vec<String> },
    Input { name: String, fields: Vec<ArgD> },
}
impl TypeD {
    fn name(&self) -> &str {
        match self {
            TypeD::Object { name, .. } | TypeD::Interface { name, .. } | TypeD::Union { name, .. } | TypeD::Input { name, .. } => name,
        }
    }
}
#[derive(Clone, Debug, Default)]
struct SchemaD {
    types: Vec<TypeD>,
    query: String,
    mutation: Option<String>,
}
impl SchemaD {
    fn get(&self, n: &str) -> Option<&TypeD> {
        self.types.iter().find(|t| t.name() == n)
    }
    fn input(&self, n: &str) -> Option<&Vec<ArgD>> {
        match self.get(n) {
            Some(TypeD::Input { fields, .. }) => Some(fields),
            _ => None,
        }
    }
}

fn concrete(ty: &str) -> String {
    MetaTypeName::concrete_typename(ty).to_string()
}

/// What the generator knows about the schema is read back from the real registry.
fn desc_of_registry(r: &Registry) -> SchemaD {
    let args = |m: &IndexMap<String, MetaInputValue>| -> Vec<ArgD> {
        m.iter().map(|(k, v)| ArgD { name: k.clone(), ty: v.ty.clone(), secret: v.is_secret }).collect()
    };
    let fields = |m: &IndexMap<String, MetaField>| -> Vec<FieldD> {
        m.iter().map(|(k, f)| FieldD { name: k.clone(), ty: f.ty.clone(), args: args(&f.args) }).collect()
    };
    let mut types = vec![];
    for (k, t) in r.types.iter() {
        if k.starts_with("__") {
            continue;
        }
        match t {
            MetaType::Object { fields: fs, .. } => types.push(TypeD::Object { name: k.clone(), fields: fields(fs) }),
            MetaType::Interface { fields: fs, possible_types, .. } => {
                types.push(TypeD::Interface { name: k.clone(), fields: fields(fs), possible: possible_types.iter().cloned().collect() })
            }
            MetaType::Union { possible_types, .. } => types.push(TypeD::Union { name: k.clone(), possible: possible_types.iter().cloned().collect() }),
            MetaType::InputObject { input_fields, .. } => types.push(TypeD::Input { name: k.clone(), fields: args(input_fields) }),
            _ => {}
        }
    }
    SchemaD { types, query: r.query_type.clone(), mutation: r.mutation_type.clone() }
}

fn dump_registry(it: &mut Interner, r: &Registry) -> String {
    let args = |it: &mut Interner, m: &IndexMap<String, MetaInputValue>| {
        g_list(m.iter(), |(k, v)| {
            format!("({}, {{| iv_ty := {}; iv_secret := {} |}})", it.n(k), it.n(MetaTypeName::concrete_typename(&v.ty)), g_bool(v.is_secret))
        })
    };
    let fields = |it: &mut Interner, m: &IndexMap<String, MetaField>| {
        g_list(m.iter(), |(k, f)| {
            format!("({}, {{| mf_ty := {}; mf_args := {} |}})", it.n(k), it.n(MetaTypeName::concrete_typename(&f.ty)), args(it, &f.args))
        })
    };
    let types = g_list(r.types.iter(), |(k, t)| {
        let body = match t {
            MetaType::Object { fields: fs, .. } => format!("(MObject {})", fields(it, fs)),
            MetaType::Interface { fields: fs, .. } => format!("(MInterface {})", fields(it, fs)),
            MetaType::InputObject { input_fields, .. } => format!("(MInput {})", args(it, input_fields)),
            _ => "MOther".to_string(),
        };
        format!("({}, {})", it.n(k), body)
    });
    format!(
        "DSchema {{| s_types := {}; s_query := {}; s_mutation := {}; s_subscription := {} |}}",
        types,
        it.n(&r.query_type),
        g_opt(r.mutation_type.as_ref(), |m| it.n(m)),
        g_opt(r.subscription_type.as_ref(), |m| it.n(m))
    )
}

// ----------------------------------------------------- injected registries --
static CUR: RwLock<Option<Arc<SchemaD>>> = RwLock::new(None);
fn cur() -> Arc<SchemaD> {
    CUR.read().unwrap().clone().expect("no current schema")
}

fn meta_args(a: &[ArgD]) -> IndexMap<String, MetaInputValue> {
    let mut m = IndexMap::new();
    for x in a {
        let mut v = MetaInputValue::new(x.name.clone(), x.ty.clone());
        v.is_secret = x.secret;
        m.insert(x.name.clone(), v);
    }
    m
}
fn meta_fields(fs: &[FieldD]) -> IndexMap<String, MetaField> {
    let mut m = IndexMap::new();
    for f in fs {
        let mut mf = MetaField::new(f.name.clone(), f.ty.clone());
        mf.args = meta_args(&f.args);
        m.insert(f.name.clone(), mf);
    }
    m
}

fn inject(registry: &mut Registry, d: &SchemaD) {
    <i32 as OutputType>::create_type_info(registry);
    <String as OutputType>::create_type_info(registry);
    <bool as OutputType>::create_type_info(registry);
    registry.types.insert(
        "JSON".to_string(),
        MetaType::Scalar {
            name: "JSON".to_string(),
            description: None,
            is_valid: None,
            visible: None,
            inaccessible: false,
            tags: vec![],
            specified_by_url: None,
            directive_invocations: vec![],
            requires_scopes: vec![],
        },
    );
    for t in &d.types {
        match t {
            TypeD::Object { name, fields } => {
                registry.types.insert(
                    name.clone(),
                    MetaType::Object {
                        name: name.clone(),
                        description: None,
                        fields: meta_fields(fields),
                        cache_control: Default::default(),
                        extends: false,
                        shareable: false,
                        resolvable: true,
                        inaccessible: false,
                        interface_object: false,
                        tags: vec![],
                        keys: None,
                        visible: None,
                        is_subscription: false,
                        rust_typename: Some("GenObj"),
                        directive_invocations: vec![],
                        requires_scopes: vec![],
                    },
                );
            }
            TypeD::Interface { name, fields, possible } => {
                registry.types.insert(
                    name.clone(),
                    MetaType::Interface {
                        name: name.clone(),
                        description: None,
                        fields: meta_fields(fields),
                        possible_types: possible.iter().cloned().collect(),
                        extends: false,
                        inaccessible: false,
                        tags: vec![],
                        keys: None,
                        visible: None,
                        rust_typename: Some("GenObj"),
                        directive_invocations: vec![],
                        requires_scopes: vec![],
                    },
                );
                for p in possible {
                    registry.add_implements(p, name);
                }
            }
            TypeD::Union { name, possible } => {
                registry.types.insert(
                    name.clone(),
                    MetaType::Union {
                        name: name.clone(),
                        description: None,
                        possible_types: possible.iter().cloned().collect(),
                        visible: None,
                        inaccessible: false,
                        tags: vec![],
                        rust_typename: Some("GenObj"),
                        directive_invocations: vec![],
                    },
                );
            }
            TypeD::Input { name, fields } => {
                registry.types.insert(
                    name.clone(),
                    MetaType::InputObject {
                        name: name.clone(),
                        description: None,
                        input_fields: meta_args(fields),
                        visible: None,
                        inaccessible: false,
                        tags: vec![],
                        rust_typename: Some("GenIn"),
                        oneof: false,
                        directive_invocations: vec![],
                    },
                );
            }
        }
    }
}

struct GQ;
struct GM;
macro_rules! gen_root {
    ($t:ident, $name:expr) => {
        impl OutputType for $t {
            fn type_name() -> Cow<'static, str> {
                Cow::Owned($name)
            }
            fn create_type_info(registry: &mut Registry) -> String {
                inject(registry, &cur());
                Self::type_name().into_owned()
            }
            async fn resolve(&self, _ctx: &ContextSelectionSet<'_>, _field: &Positioned<Field>) -> ServerResult<Value> {
                Ok(Value::Null)
            }
        }
        impl ContainerType for $t {
            async fn resolve_field(&self, _ctx: &Context<'_>) -> ServerResult<Option<Value>> {
                Ok(None)
            }
        }
        impl ObjectType for $t {}
    };
}
gen_root!(GQ, cur().query.clone());
gen_root!(GM, cur().mutation.clone().unwrap_or_else(|| "GenMutation".into()));

fn gen_schema(r: &mut Rng) -> SchemaD {
    let nin = 1 + r.below(3);
    let nobj = 2 + r.below(3);
    let ins: Vec<String> = (0..nin).map(|i| format!("In{i}")).collect();
    let objs: Vec<String> = (0..nobj).map(|i| format!("O{i}")).collect();
    let has_iface = r.chance(1, 2);
    let has_union = r.chance(1, 2);
    let scalars = ["Int", "String", "Boolean", "JSON"];
    let wrap = |r: &mut Rng, n: &str| -> String {
        match r.below(8) {
            0 => format!("{n}!"),
            1 | 2 => format!("[{n}]"),
            3 => format!("[{n}!]!"),
            4 => format!("[[{n}]]"),
            _ => n.to_string(),
        }
    };
    let mut types = vec![];
    // input objects: In_i may refer to In_j (j >= i allowed: recursive input types are legal when nullable)
    for (i, n) in ins.iter().enumerate() {
        let nf = 2 + r.below(3);
        let mut fields = vec![];
        for j in 0..nf {
            let base = if r.chance(2, 5) { ins[r.below(nin).max(if r.chance(1, 2) { i } else { 0 }).min(nin - 1)].clone() } else { r.pick(&scalars).to_string() };
            fields.push(ArgD { name: format!("k{j}"), ty: wrap(r, &base), secret: r.chance(2, 5) });
        }
        if !fields.iter().any(|f| f.secret) && r.chance(2, 3) {
            fields[0].secret = true;
        }
        types.push(TypeD::Input { name: n.clone(), fields });
    }
    let gen_args = |r: &mut Rng| -> Vec<ArgD> {
        let na = if r.chance(3, 4) { 1 + r.below(3) } else { 0 };
        (0..na)
            .map(|j| {
                let base = if r.chance(1, 2) { r.pick(&ins).clone() } else { r.pick(&scalars).to_string() };
                ArgD { name: format!("a{j}"), ty: wrap(r, &base), secret: r.chance(1, 3) }
            })
            .collect()
    };
    let mut out_named: Vec<String> = vec!["Int".into(), "String".into()];
    out_named.extend(objs.iter().cloned());
    if has_iface {
        out_named.push("I0".into());
    }
    if has_union {
        out_named.push("U0".into());
    }
    let ifields: Vec<FieldD> = if has_iface {
        (0..1 + r.below(2))
            .map(|j| {
                let t = r.pick(&out_named).clone();
                FieldD { name: format!("i{j}"), ty: wrap(r, &t), args: gen_args(r) }
            })
            .collect()
    } else {
        vec![]
    };
    let mut impls = vec![];
    for (k, o) in objs.iter().enumerate() {
        let nf = 1 + r.below(4);
        let mut fields: Vec<FieldD> = (0..nf)
            .map(|j| {
                let t = if k == 0 && j == 0 { "Int".to_string() } else { r.pick(&out_named).clone() };
                FieldD { name: format!("f{j}"), ty: wrap(r, &t), args: gen_args(r) }
            })
            .collect();
        if has_iface && r.chance(2, 3) {
            impls.push(o.clone());
            for f in &ifields {
                // the object's own copy of an interface field may mark other arguments secret
                let mut f2 = f.clone();
                if r.chance(1, 3) {
                    for a in f2.args.iter_mut() {
                        a.secret = r.chance(1, 2);
                    }
                }
                fields.push(f2);
            }
        }
        types.push(TypeD::Object { name: o.clone(), fields });
    }
    if has_iface {
        if impls.is_empty() {
            impls.push(objs[0].clone());
            if let TypeD::Object { fields, .. } = types.iter_mut().find(|t| t.name() == objs[0]).unwrap() {
                fields.extend(ifields.iter().cloned());
            }
        }
        types.push(TypeD::Interface { name: "I0".into(), fields: ifields, possible: impls });
    }
    if has_union {
        let mut possible: Vec<String> = objs.iter().filter(|_| r.chance(1, 2)).cloned().collect();
        if possible.is_empty() {
            possible.push(objs[0].clone());
        }
        types.push(TypeD::Union { name: "U0".into(), possible });
    }
    SchemaD { types, query: "O0".into(), mutation: if r.chance(1, 2) { Some("O1".into()) } else { None } }
}

// ------------------------------------------------- derive-built fixed schema
mod fixed {
    use async_graphql::*;

    #[derive(InputObject)]
    pub struct Inner {
        pub note: Option<String>,
        #[graphql(secret)]
        pub token: Option<String>,
        #[graphql(secret)]
        pub pin: Option<i32>,
    }

    #[derive(InputObject)]
    pub struct Cred {
        pub user: Option<String>,
        #[graphql(secret)]
        pub pw: Option<String>,
        pub inner: Option<Inner>,
        pub inners: Option<Vec<Inner>>,
        pub tags: Option<Vec<String>>,
        #[graphql(secret)]
        pub keys: Option<Vec<String>>,
        #[graphql(secret)]
        pub sinner: Option<Inner>,
        pub meta: Option<Json<serde_json::Value>>,
    }

    #[derive(OneofObject)]
    pub enum Proof {
        Code(i32),
        #[graphql(secret)]
        Pass(String),
        Cred(Cred),
    }

    pub struct User;
    #[Object]
    impl User {
        async fn name(&self) -> String {
            "u".into()
        }
        async fn check(&self, #[graphql(secret)] pw: Option<String>, hint: Option<String>) -> bool {
            let _ = (pw, hint);
            true
        }
        async fn friend(&self) -> User {
            User
        }
        async fn verify(&self, cred: Option<Cred>) -> bool {
            let _ = cred;
            true
        }
    }

    pub struct Bot;
    #[Object]
    impl Bot {
        async fn name(&self) -> String {
            "b".into()
        }
        async fn check(&self, #[graphql(secret)] pw: Option<String>, hint: Option<String>) -> bool {
            let _ = (pw, hint);
            true
        }
        async fn owner(&self) -> User {
            User
        }
    }

    #[derive(Interface)]
    #[graphql(
        field(name = "name", ty = "String"),
        field(name = "check", ty = "bool", arg(name = "pw", ty = "Option<String>", secret), arg(name = "hint", ty = "Option<String>"))
    )]
    pub enum Account {
        User(User),
        Bot(Bot),
    }

    #[derive(Union)]
    pub enum Who {
        User(User),
        Bot(Bot),
    }

    #[derive(SimpleObject)]
    #[graphql(complex)]
    pub struct Session {
        pub id: i32,
    }
    #[ComplexObject]
    impl Session {
        async fn user(&self) -> User {
            User
        }
        async fn refresh(&self, #[graphql(secret)] token: Option<String>, ttl: Option<i32>) -> bool {
            let _ = (token, ttl);
            true
        }
    }

    pub struct Query;
    #[Object]
    impl Query {
        async fn login(&self, user: Option<String>, #[graphql(secret)] pw: Option<String>) -> Session {
            let _ = (user, pw);
            Session { id: 1 }
        }
        async fn auth(&self, cred: Option<Cred>) -> Session {
            let _ = cred;
            Session { id: 1 }
        }
        async fn auth_many(&self, creds: Option<Vec<Cred>>, #[graphql(secret)] master: Option<Cred>) -> i32 {
            let _ = (creds, master);
            1
        }
        async fn prove(&self, proof: Option<Proof>) -> bool {
            let _ = proof;
            true
        }
        async fn me(&self) -> User {
            User
        }
        async fn account(&self) -> Account {
            Account::User(User)
        }
        async fn accounts(&self) -> Vec<Account> {
            vec![]
        }
        async fn who(&self) -> Who {
            Who::Bot(Bot)
        }
        async fn plain(&self, x: Option<i32>, j: Option<Json<serde_json::Value>>, #[graphql(secret)] sj: Option<Json<serde_json::Value>>) -> i32 {
            let _ = (x, j, sj);
            1
        }
    }

    pub struct Mutation;
    #[Object]
    impl Mutation {
        async fn set_password(&self, #[graphql(secret)] old: Option<String>, #[graphql(secret)] new: Option<String>, user: Option<String>) -> bool {
            let _ = (old, new, user);
            true
        }
        async fn register(&self, cred: Option<Cred>, #[graphql(secret)] code: Option<i32>) -> Session {
            let _ = (cred, code);
            Session { id: 2 }
        }
    }
}

// -------------------------------------------------------------- extension --
#[derive(Default)]
struct Shared {
    it: Interner,
    desc: Option<SchemaD>,
    registry_g: Option<String>,
    last: Option<(String, String, String, Vec<(u64, String)>)>, // doc, vars, output, floats
    order: Vec<String>, // fragment and operation names in the real map iteration order
}

struct Cap(Arc<Mutex<Shared>>);
impl ExtensionFactory for Cap {
    fn create(&self) -> Arc<dyn Extension> {
        Arc::new(CapExt(self.0.clone()))
    }
}
struct CapExt(Arc<Mutex<Shared>>);

/// The document in the order the real maps iterate (the order the printer sees).
fn g_document_real(it: &mut Interner, doc: &ExecutableDocument) -> String {
    let ops: Vec<(Option<String>, &async_graphql::parser::types::OperationDefinition)> = match &doc.operations {
        DocumentOperations::Single(op) => vec![(None, &op.node)],
        DocumentOperations::Multiple(m) => m.iter().map(|(k, v)| (Some(k.to_string()), &v.node)).collect(),
    };
    // sanity: `iter()` of DocumentOperations yields the same order
    let order2: Vec<Option<String>> = doc.operations.iter().map(|(k, _)| k.map(|n| n.to_string())).collect();
    assert_eq!(order2, ops.iter().map(|o| o.0.clone()).collect::<Vec<_>>());
    format!(
        "{{| doc_ops := {}; doc_frags := {} |}}",
        g_list(ops.iter(), |(n, op)| g_operation(it, n.as_deref(), op)),
        g_list(doc.fragments.iter(), |(n, fr)| format!(
            "({}, {{| fr_cond := {}; fr_dirs := {}; fr_sels := {} |}})",
            it.n(n),
            it.n(&fr.node.type_condition.node.on.node),
            g_directives(it, &fr.node.directives),
            g_selections(it, &fr.node.selection_set.node)
        ))
    )
}

fn collect_floats_c(v: &ConstValue, out: &mut Vec<(u64, String)>) {
    match v {
        ConstValue::Number(n) if n.as_i64().is_none() && n.as_u64().is_none() => {
            out.push((n.as_f64().unwrap_or(f64::NAN).to_bits(), n.to_string()));
        }
        ConstValue::List(l) => l.iter().for_each(|x| collect_floats_c(x, out)),
        ConstValue::Object(m) => m.values().for_each(|x| collect_floats_c(x, out)),
        _ => {}
    }
}

#[async_trait::async_trait]
impl Extension for CapExt {
    async fn parse_query(
        &self,
        ctx: &ExtensionContext<'_>,
        query: &str,
        variables: &Variables,
        next: NextParseQuery<'_>,
    ) -> ServerResult<ExecutableDocument> {
        let doc = next.run(ctx, query, variables).await?;
        // exactly what LoggerExtension::parse_query / Tracing / OpenTelemetry call
        let out = ctx.stringify_execute_doc(&doc, variables);
        let mut sh = self.0.lock().unwrap();
        let sh = &mut *sh;
        if sh.registry_g.is_none() {
            sh.registry_g = Some(dump_registry(&mut sh.it, &ctx.schema_env.registry));
            sh.desc = Some(desc_of_registry(&ctx.schema_env.registry));
        }
        let gd = g_document_real(&mut sh.it, &doc);
        let gv = g_list(variables.iter(), |(k, v)| format!("({}, {})", sh.it.n(k), g_const(&mut sh.it, v)));
        let mut floats = vec![];
        for (_, v) in variables.iter() {
            collect_floats_c(v, &mut floats);
        }
        sh.order = doc.fragments.keys().map(|k| format!("f:{k}")).chain(doc.operations.iter().map(|(k, _)| format!("o:{}", k.map(|n| n.as_str()).unwrap_or("")))).collect();
        sh.last = Some((gd, gv, out, floats));
        // stop here: nothing of the request needs to run
        Err(ServerError::new("c21-stop", None))
    }
}

fn run_one<E: Executor>(schema: &E, sh: &Arc<Mutex<Shared>>, doc: &str, vars: &ConstValue) -> Option<(String, String, String, Vec<(u64, String)>)> {
    sh.lock().unwrap().last = None;
    let req = Request::new(doc).variables(Variables::from_value(vars.clone()));
    let _ = block_on(schema.execute(req));
    sh.lock().unwrap().last.take()
}

/// Both requests of a pair.  Fragments and operations live in hash maps whose
/// iteration order is random per parsed document; the pair is comparable only
/// when both documents iterate in the same order, so the second request is
/// re-parsed until it does.
type Captured = Option<(String, String, String, Vec<(u64, String)>)>;
fn run_pair<E: Executor>(schema: &E, sh: &Arc<Mutex<Shared>>, da: &str, va: &ConstValue, db: &str, vb: &ConstValue) -> (Captured, Captured) {
    let ra = run_one(schema, sh, da, va);
    let oa = sh.lock().unwrap().order.clone();
    if ra.is_none() {
        return (None, None);
    }
    for _ in 0..2000 {
        let rb = run_one(schema, sh, db, vb);
        if rb.is_none() {
            return (ra, None);
        }
        if sh.lock().unwrap().order == oa {
            return (ra, rb);
        }
    }
    (ra, None)
}

// ---------------------------------------------------------------- generator --
struct VarD {
    name: String,
    ty: String,
    key: (String, bool, bool), // concrete type, secret, typed
    val: Option<(ConstValue, ConstValue)>,
    default: Option<(ConstValue, ConstValue)>,
}

struct Gen<'a> {
    d: &'a SchemaD,
    r: Rng,
    k: usize, // sentinel counter
    vars: Vec<VarD>,
    used: Vec<usize>,                          // variables used by the selection being generated
    frags: Vec<(String, String, String, String, Vec<usize>)>, // name, cond, body a, body b, used vars
    wild: bool,
    lists: bool,   // allow lists around input objects with secrets (class 1)
    untyped: bool, // allow `... { }` (class 2)
    defaults: bool, // allow defaults on secret-used variables (class 3)
    skip_secret: bool, // leave secret arguments / fields out (lists and `... { }` outside the known classes)
}

fn gname(s: &str) -> Name {
    Name::new(s)
}
fn obj(kv: Vec<(String, GValue)>) -> GValue {
    let mut m = IndexMap::new();
    for (k, v) in kv {
        m.insert(gname(&k), v);
    }
    GValue::Object(m)
}

const STRS: [&str; 10] = ["alice", "", "a b", "q\"uote", "back\\slash", "line\nbreak", "tab\there", "é😀", "null", "<secret>"];

impl Gen<'_> {
    fn plain_scalar(&mut self, base: &str) -> GValue {
        match base {
            "Int" => match self.r.below(6) {
                0 => GValue::Null,
                1 => GValue::Number(Number::from(-(self.r.below(1000) as i64))),
                2 => GValue::Number(Number::from(u64::MAX - self.r.below(3) as u64)),
                _ => GValue::Number(Number::from(self.r.below(100000) as i64)),
            },
            "Boolean" => GValue::Boolean(self.r.chance(1, 2)),
            "JSON" => match self.r.below(5) {
                0 => obj(vec![("x".into(), GValue::Number(Number::from(1))), ("pw".into(), GValue::String("visible".into()))]),
                1 => GValue::List(vec![GValue::Number(Number::from(1)), GValue::String("two".into()), obj(vec![("k0".into(), GValue::Null)])]),
                2 => GValue::Enum(gname("RED")),
                _ => GValue::String((*self.r.pick(&STRS)).into()),
            },
            _ => match self.r.below(8) {
                0 => GValue::Null,
                1 => GValue::Enum(gname("BLUE")),
                2 => GValue::Number(Number::from(7)),
                _ => GValue::String((*self.r.pick(&STRS)).into()),
            },
        }
    }

    /// a pair of constants for a secret position
    fn secret_const(&mut self, base: &str, depth: usize) -> (GValue, GValue) {
        self.k += 1;
        let k = self.k;
        let s = |p: &str| GValue::String(format!("{p}{k}"));
        let shape = self.r.below(20);
        if shape < 2 && depth > 0 {
            let (a1, b1) = self.secret_const(base, depth - 1);
            let (a2, b2) = self.secret_const(base, depth - 1);
            return (GValue::List(vec![a1, a2]), GValue::List(vec![b1, b2]));
        }
        if shape == 2 {
            return (GValue::Enum(gname(&format!("SECa{k}"))), GValue::Enum(gname(&format!("SECb{k}"))));
        }
        if shape == 3 {
            // different kinds of value on the two sides
            return (s("x\"SECa"), GValue::Number(Number::from(92007000 + k as i64)));
        }
        if shape == 4 {
            // different shapes on the two sides
            return (GValue::List(vec![s("SECa")]), obj(vec![("zz".into(), s("SECb"))]));
        }
        if let Some(fields) = self.d.input(base).cloned()
            && depth > 0
            && shape < 16
        {
            // an object all of whose content is secret
            let mut a = vec![];
            let mut b = vec![];
            for f in fields.iter() {
                if self.r.chance(2, 3) {
                    let (x, y) = self.secret_const(&concrete(&f.ty), depth - 1);
                    a.push((f.name.clone(), x));
                    // the second request may even use other keys here
                    b.push((if self.r.chance(1, 10) { "other".to_string() } else { f.name.clone() }, y));
                }
            }
            return (obj(a), obj(b));
        }
        match base {
            "Int" => (GValue::Number(Number::from(91007000 + k as i64)), GValue::Number(Number::from(92007000 + k as i64))),
            _ => (s("SECa"), s("SECb")),
        }
    }

    /// a pair of constants supplied for a non-secret position of declared type `ty`
    fn plain_const(&mut self, ty: &str, typed: bool, depth: usize) -> (GValue, GValue) {
        let base = concrete(ty);
        let is_list = ty.starts_with('[');
        if typed && self.d.input(&base).is_some() {
            let fields = self.d.input(&base).unwrap().clone();
            let as_list = if is_list { self.r.chance(5, 6) } else { self.r.chance(1, 12) };
            if as_list && depth > 0 && (self.lists || self.r.chance(1, 3)) {
                let n = self.r.below(3);
                let mut a = vec![];
                let mut b = vec![];
                let saved = self.skip_secret;
                self.skip_secret = saved || !self.lists;
                for _ in 0..n {
                    let (x, y) = self.plain_const(&base, true, depth - 1);
                    a.push(x);
                    b.push(y);
                }
                self.skip_secret = saved;
                return (GValue::List(a), GValue::List(b));
            }
            if depth == 0 || self.r.chance(1, 15) {
                return (GValue::Null, GValue::Null);
            }
            let mut order: Vec<usize> = (0..fields.len()).collect();
            self.r.shuffle(&mut order);
            let mut a = vec![];
            let mut b = vec![];
            for i in order {
                if !self.r.chance(2, 3) {
                    continue;
                }
                let f = &fields[i];
                if f.secret && self.skip_secret {
                    continue;
                }
                let (x, y) = if f.secret { self.secret_const(&concrete(&f.ty), depth - 1) } else { self.plain_const(&f.ty, true, depth - 1) };
                a.push((f.name.clone(), x));
                b.push((f.name.clone(), y));
            }
            if self.wild && self.r.chance(1, 8) {
                let v = self.plain_scalar("String");
                a.push(("zz".into(), v.clone()));
                b.push(("zz".into(), v));
            }
            return (obj(a), obj(b));
        }
        let v = if is_list && depth > 0 && self.r.chance(3, 4) {
            GValue::List((0..self.r.below(3)).map(|_| self.plain_scalar(&base)).collect())
        } else {
            self.plain_scalar(&base)
        };
        (v.clone(), v)
    }

    fn to_const(v: &GValue) -> ConstValue {
        v.clone().into_const().expect("constant")
    }

    /// value pair (document syntax, may use variables) for an argument or input field
    fn value(&mut self, ty: &str, secret: bool, typed: bool, depth: usize) -> (GValue, GValue) {
        let base = concrete(ty);
        // variable?
        if self.r.chance(1, 5) {
            let key = (base.clone(), secret, typed);
            let reuse: Vec<usize> = self.vars.iter().enumerate().filter(|(_, v)| v.key == key).map(|(i, _)| i).collect();
            let idx = if !reuse.is_empty() && self.r.chance(1, 3) {
                *self.r.pick(&reuse)
            } else {
                let (a, b) = if secret { self.secret_const(&base, depth) } else { self.plain_const(ty, typed, depth) };
                let val = if self.r.chance(1, 10) { None } else { Some((Self::to_const(&a), Self::to_const(&b))) };
                let has_default = self.r.chance(1, 4) && (!secret || self.defaults);
                let default = if has_default {
                    let (a, b) = if secret {
                        if self.defaults { self.secret_const(&base, depth) } else { (GValue::Null, GValue::Null) }
                    } else if self.defaults {
                        self.plain_const(ty, typed, depth)
                    } else {
                        let v = self.plain_scalar("String");
                        (v.clone(), v)
                    };
                    // without `defaults` a default that contains secret parts is never generated
                    Some((Self::to_const(&a), Self::to_const(&b)))
                } else {
                    None
                };
                let name = format!("v{}", self.vars.len());
                let ty_decl = if ty.is_empty() { "String".to_string() } else { ty.to_string() };
                self.vars.push(VarD { name, ty: ty_decl, key, val, default });
                self.vars.len() - 1
            };
            if !self.used.contains(&idx) {
                self.used.push(idx);
            }
            let v = GValue::Variable(gname(&self.vars[idx].name));
            return (v.clone(), v);
        }
        if secret {
            // literal secret, possibly with variables inside a secret object
            if depth > 0 && self.r.chance(1, 8) {
                let (x, y) = self.value(&base, true, typed, depth - 1);
                return (obj(vec![("in".into(), x)]), obj(vec![("in".into(), y)]));
            }
            return self.secret_const(&base, depth);
        }
        if typed && self.d.input(&base).is_some() && depth > 0 && self.r.chance(9, 10) {
            let fields = self.d.input(&base).unwrap().clone();
            let is_list = ty.starts_with('[');
            let as_list = if is_list { self.r.chance(5, 6) } else { self.r.chance(1, 12) };
            if as_list && (self.lists || self.r.chance(1, 3)) {
                let n = self.r.below(3);
                let mut a = vec![];
                let mut b = vec![];
                let saved = self.skip_secret;
                self.skip_secret = saved || !self.lists;
                for _ in 0..n {
                    let (x, y) = self.value(&base, false, true, depth - 1);
                    a.push(x);
                    b.push(y);
                }
                self.skip_secret = saved;
                return (GValue::List(a), GValue::List(b));
            }
            let mut order: Vec<usize> = (0..fields.len()).collect();
            self.r.shuffle(&mut order);
            let mut a = vec![];
            let mut b = vec![];
            for i in order {
                if !self.r.chance(2, 3) {
                    continue;
                }
                let f = &fields[i];
                if f.secret && self.skip_secret {
                    continue;
                }
                let (x, y) = self.value(&f.ty, f.secret, true, depth - 1);
                a.push((f.name.clone(), x));
                b.push((f.name.clone(), y));
            }
            if self.wild && self.r.chance(1, 8) {
                let (x, y) = self.value("String", false, false, 0);
                a.push(("zz".into(), x));
                b.push(("zz".into(), y));
            }
            return (obj(a), obj(b));
        }
        self.plain_const(ty, typed, depth)
    }

    fn conds_for(&self, ty: &str) -> Vec<String> {
        let mut v = vec![ty.to_string()];
        match self.d.get(ty) {
            Some(TypeD::Object { .. }) => {
                for t in &self.d.types {
                    match t {
                        TypeD::Interface { name, possible, .. } | TypeD::Union { name, possible } if possible.iter().any(|p| p == ty) => v.push(name.clone()),
                        _ => {}
                    }
                }
            }
            Some(TypeD::Interface { possible, .. }) | Some(TypeD::Union { possible, .. }) => v.extend(possible.iter().cloned()),
            _ => {}
        }
        v
    }

    /// selection set on (spec-typed) parent `ty`; writes both variants
    fn sels(&mut self, ty: &str, depth: usize, oa: &mut String, ob: &mut String) {
        oa.push('{');
        ob.push('{');
        let n = 1 + self.r.below(3);
        let mut fields: Vec<FieldD> = match self.d.get(ty) {
            Some(TypeD::Object { fields, .. }) | Some(TypeD::Interface { fields, .. }) => fields.clone(),
            _ => vec![],
        };
        if !self.r.chance(1, 6) && fields.iter().any(|f| !f.name.starts_with("__")) {
            fields.retain(|f| !f.name.starts_with("__"));
        }
        let mut emitted = 0;
        for _ in 0..n {
            let k = self.r.below(12);
            if k < 7 && !fields.is_empty() {
                let with_args: Vec<&FieldD> = fields.iter().filter(|f| !f.args.is_empty()).collect();
                let f = if !with_args.is_empty() && self.r.chance(2, 3) { (*self.r.pick(&with_args)).clone() } else { self.r.pick(&fields).clone() };
                let base = concrete(&f.ty);
                let composite = matches!(self.d.get(&base), Some(TypeD::Object { .. } | TypeD::Interface { .. } | TypeD::Union { .. }));
                if composite && depth == 0 {
                    continue;
                }
                let alias = if self.r.chance(1, 6) { format!("al{}: ", self.r.below(3)) } else { String::new() };
                let mut sa = format!(" {alias}{}", f.name);
                let mut sb = sa.clone();
                let mut args: Vec<(String, GValue, GValue)> = vec![];
                let mut order: Vec<usize> = (0..f.args.len()).collect();
                self.r.shuffle(&mut order);
                for i in order {
                    if !self.r.chance(3, 4) {
                        continue;
                    }
                    let a = &f.args[i];
                    if a.secret && self.skip_secret {
                        continue;
                    }
                    let (x, y) = self.value(&a.ty, a.secret, true, 3);
                    args.push((a.name.clone(), x, y));
                }
                if self.wild && self.r.chance(1, 8) {
                    let (x, y) = self.value("String", false, false, 1);
                    args.push(("nosucharg".into(), x, y));
                }
                if !args.is_empty() {
                    sa.push('(');
                    sb.push('(');
                    for (i, (n, x, y)) in args.iter().enumerate() {
                        let sep = if i > 0 { ", " } else { "" };
                        write!(sa, "{sep}{n}: {x}").unwrap();
                        write!(sb, "{sep}{n}: {y}").unwrap();
                    }
                    sa.push(')');
                    sb.push(')');
                }
                if self.r.chance(1, 10) {
                    sa.push_str(" @include(if: true)");
                    sb.push_str(" @include(if: true)");
                }
                oa.push_str(&sa);
                ob.push_str(&sb);
                if composite {
                    oa.push(' ');
                    ob.push(' ');
                    self.sels(&base, depth - 1, oa, ob);
                }
                emitted += 1;
            } else if k == 7 {
                oa.push_str(" __typename");
                ob.push_str(" __typename");
                emitted += 1;
            } else if k < 10 && depth > 0 {
                let conds = self.conds_for(ty);
                if self.r.chance(1, 3) && (self.untyped || self.r.chance(1, 2)) {
                    oa.push_str(" ... ");
                    ob.push_str(" ... ");
                    let saved = self.skip_secret;
                    self.skip_secret = saved || !self.untyped;
                    self.sels(ty, depth - 1, oa, ob);
                    self.skip_secret = saved;
                } else {
                    let c = if self.wild && self.r.chance(1, 8) { self.d.types[self.r.below(self.d.types.len())].name().to_string() } else { self.r.pick(&conds).clone() };
                    write!(oa, " ... on {c} ").unwrap();
                    write!(ob, " ... on {c} ").unwrap();
                    self.sels(&c, depth - 1, oa, ob);
                }
                emitted += 1;
            } else if depth > 0 {
                let conds = self.conds_for(ty);
                let c = self.r.pick(&conds).clone();
                let name = format!("F{}", self.frags.len());
                self.frags.push((name.clone(), c.clone(), String::new(), String::new(), vec![]));
                let idx = self.frags.len() - 1;
                let saved = std::mem::take(&mut self.used);
                let (mut fa, mut fb) = (String::new(), String::new());
                self.sels(&c, depth - 1, &mut fa, &mut fb);
                let used_here = std::mem::replace(&mut self.used, saved);
                self.frags[idx].2 = fa;
                self.frags[idx].3 = fb;
                self.frags[idx].4 = used_here;
                write!(oa, " ...{name}").unwrap();
                write!(ob, " ...{name}").unwrap();
                emitted += 1;
            }
        }
        if self.wild && self.r.chance(1, 10) {
            oa.push_str(" nosuchfield(pw: \"visible\")");
            ob.push_str(" nosuchfield(pw: \"visible\")");
            emitted += 1;
        }
        if emitted == 0 {
            oa.push_str(" __typename");
            ob.push_str(" __typename");
        }
        oa.push_str(" }");
        ob.push_str(" }");
    }

    /// a pair of requests: (doc a, vars a, doc b, vars b)
    fn request_pair(&mut self) -> (String, ConstValue, String, ConstValue) {
        let nops = if self.r.chance(1, 6) { 2 } else { 1 };
        let mut ops = vec![];
        for i in 0..nops {
            let mutation = self.d.mutation.is_some() && self.r.chance(1, 3);
            let root = if mutation { self.d.mutation.clone().unwrap() } else { self.d.query.clone() };
            let depth = 1 + self.r.below(3);
            self.used.clear();
            let (mut a, mut b) = (String::new(), String::new());
            self.sels(&root, depth, &mut a, &mut b);
            ops.push((i, mutation, a, b, std::mem::take(&mut self.used)));
        }
        let frag_used: Vec<usize> = self.frags.iter().flat_map(|f| f.4.iter().copied()).collect();
        let (mut da, mut db) = (String::new(), String::new());
        let extra_unused = self.r.chance(1, 8);
        for (i, mutation, a, b, used) in &ops {
            let mut declared: Vec<usize> = used.clone();
            for u in &frag_used {
                if !declared.contains(u) {
                    declared.push(*u);
                }
            }
            declared.sort();
            let kw = if *mutation { "mutation" } else { "query" };
            let anonymous = nops == 1 && self.r.chance(1, 4);
            let (mut ha, mut hb) = (String::new(), String::new());
            if !declared.is_empty() || extra_unused {
                ha.push('(');
                hb.push('(');
                let mut first = true;
                for v in &declared {
                    let v = &self.vars[*v];
                    let sep = if first { "" } else { ", " };
                    first = false;
                    write!(ha, "{sep}${}: {}", v.name, v.ty).unwrap();
                    write!(hb, "{sep}${}: {}", v.name, v.ty).unwrap();
                    if let Some((x, y)) = &v.default {
                        write!(ha, " = {x}").unwrap();
                        write!(hb, " = {y}").unwrap();
                    }
                }
                if extra_unused {
                    let sep = if first { "" } else { ", " };
                    write!(ha, "{sep}$unused: [Int!] = [1, 2]").unwrap();
                    write!(hb, "{sep}$unused: [Int!] = [1, 2]").unwrap();
                }
                ha.push(')');
                hb.push(')');
            }
            if anonymous && declared.is_empty() && !extra_unused && !*mutation && self.r.chance(1, 2) {
                writeln!(da, "{a}").unwrap();
                writeln!(db, "{b}").unwrap();
            } else if anonymous {
                writeln!(da, "{kw} {ha} {a}").unwrap();
                writeln!(db, "{kw} {hb} {b}").unwrap();
            } else {
                writeln!(da, "{kw} Op{i}{ha} {a}").unwrap();
                writeln!(db, "{kw} Op{i}{hb} {b}").unwrap();
            }
        }
        for (n, c, a, b, _) in &self.frags {
            writeln!(da, "fragment {n} on {c} {a}").unwrap();
            writeln!(db, "fragment {n} on {c} {b}").unwrap();
        }
        let mut va = IndexMap::new();
        let mut vb = IndexMap::new();
        for v in &self.vars {
            if let Some((x, y)) = &v.val {
                va.insert(gname(&v.name), x.clone());
                vb.insert(gname(&v.name), y.clone());
            }
        }
        (da, ConstValue::Object(va), db, ConstValue::Object(vb))
    }
}

fn jstr(s: &str) -> String {
    serde_json::to_string(s).unwrap()
}

/// Fixed corpus on the derive-built schema: (document, variables as GraphQL
/// constant).  The second request of each pair is the first with SECa -> SECb
/// and 91007 -> 92007.
fn corpus() -> Vec<(&'static str, &'static str)> {
    vec![
        // masked today
        (r#"{ login(user: "u", pw: "SECa1") { id } }"#, "{}"),
        (r#"query Q($p: String) { login(user: "u", pw: $p) { id } }"#, r#"{p: "SECa2"}"#),
        (r#"{ auth(cred: {user: "u", pw: "SECa3", inner: {note: "n", token: "SECa4", pin: 91007005}}) { id } }"#, "{}"),
        (r#"query Q($c: Cred) { auth(cred: $c) { id } }"#, r#"{c: {user: "u", pw: "SECa6", inner: {token: "SECa7"}}}"#),
        (r#"{ account { ... on User { check(pw: "SECa8", hint: "h") } ... on Account { check(pw: "SECa9") } } }"#, "{}"),
        (r#"{ me { ...F } } fragment F on User { check(pw: "SECa10") friend { verify(cred: {pw: "SECa11"}) } }"#, "{}"),
        (r#"mutation M { setPassword(old: "SECa12", new: "SECa13", user: "u") register(cred: {pw: "SECa14"}, code: 91007015) { id refresh(token: "SECa16", ttl: 3) } }"#, "{}"),
        (r#"{ authMany(master: {user: "SECa17", tags: ["SECa18"]}) auth(cred: {keys: ["SECa19", "SECa20"], sinner: {note: "SECa21"}}) { id } }"#, "{}"),
        (r#"{ prove(proof: {pass: "SECa22"}) plain(x: 1, j: {pw: "visible"}, sj: {a: "SECa23"}) }"#, "{}"),
        (r#"{ who { ... on Bot { owner { check(pw: "SECa24") } } } }"#, "{}"),
        (r#"query Q($p: String, $q: String) { login(user: $q, pw: $p) { id } }"#, r#"{q: "bob"}"#),
        (r#"query Q($t: String) { auth(cred: {user: "u", inner: {token: $t}}) { id } }"#, r#"{}"#),
        (r#"query Q($t: String) { auth(cred: {user: "u", inner: {token: $t}}) { id } }"#, r#"{t: "SECa25"}"#),
        // class 1: secret inside a list of input objects
        (r#"{ authMany(creds: [{user: "u", pw: "SECa30"}]) }"#, "{}"),
        (r#"{ auth(cred: {user: "u", inners: [{note: "n", token: "SECa31"}]}) { id } }"#, "{}"),
        (r#"query Q($cs: [Cred!]) { authMany(creds: $cs) }"#, r#"{cs: [{user: "u", pw: "SECa32"}]}"#),
        (r#"{ auth(cred: [{pw: "SECa33"}]) { id } }"#, "{}"),
        // class 2: below an inline fragment without type condition
        (r#"{ ... { login(user: "u", pw: "SECa40") { id } } }"#, "{}"),
        (r#"{ me { ... @include(if: true) { friend { check(pw: "SECa41") } } } }"#, "{}"),
        (r#"{ ... { ... on Query { login(pw: "SECa42") { id } } auth(cred: {user: "u"}) { id } } }"#, "{}"),
        // class 3: as a variable default
        (r#"query Q($p: String = "SECa50") { login(user: "u", pw: $p) { id } }"#, "{}"),
        (r#"query Q($c: Cred = {user: "u", pw: "SECa51"}) { auth(cred: $c) { id } }"#, r#"{c: {user: "w", pw: "SECa52"}}"#),
        (r#"query ($p: String = "SECa53") { login(user: "u", pw: $p) { id } }"#, "{}"),
        (r#"query Q($p: String = "SECa54") { me { ...F } } fragment F on User { check(pw: $p) }"#, "{}"),
        (r#"query Q($p: String = "same") { login(user: $p, pw: "SECa55") { id } }"#, "{}"),
    ]
}

fn main() {
    let a = parse_args();
    let mut rng = Rng::new(a.seed);
    let mut out = String::new();
    let sh: Arc<Mutex<Shared>> = Arc::new(Mutex::new(Shared::default()));
    let mut case_no = 0usize;
    let mut schema_no = 0usize;

    let mut emit_case = |out: &mut String,
                         sh: &Arc<Mutex<Shared>>,
                         sname: &str,
                         ra: Option<(String, String, String, Vec<(u64, String)>)>,
                         rb: Option<(String, String, String, Vec<(u64, String)>)>,
                         text: String| {
        let (Some((d1, v1, o1, f1)), Some((d2, v2, o2, f2))) = (ra, rb) else {
            // a document that does not parse never reaches the printer
            writeln!(out, "SKIP\t0\t{{\"text\":{}}}", jstr(&text)).unwrap();
            return false;
        };
        let mut fl = f1;
        fl.extend(f2);
        fl.sort();
        fl.dedup();
        let _ = sh;
        let leak = ["SECa", "SECb", "91007", "92007"].iter().any(|s| o1.contains(s) || o2.contains(s));
        writeln!(
            out,
            "PAIR\t{{| c_schema := {sname}; c_names := names; c_floats := {}; c_d1 := {d1}; c_v1 := {v1}; c_d2 := {d2}; c_v2 := {v2}; c_o1 := {}; c_o2 := {} |}}\t{{\"text\":{},\"impl\":{},\"uses\":[\"{sname}\",\"names\"],\"nontrivial\":{}}}",
            g_list(fl.iter(), |(b, s)| format!("({}%N, {})", b, g_str(s))),
            g_str(&o1),
            g_str(&o2),
            jstr(&text),
            jstr(&format!("{o1} || {o2}{}", if leak { " [sentinel visible]" } else { "" })),
            text.contains("SEC") || text.contains("91007")
        )
        .unwrap();
        true
    };

    // ---- fixed corpus on the derive-built schema
    {
        let schema = Schema::build(fixed::Query, fixed::Mutation, EmptySubscription).extension(Cap(sh.clone())).finish();
        sh.lock().unwrap().registry_g = None;
        for (doc, vars) in corpus() {
            let docb = doc.replace("SECa", "SECb").replace("91007", "92007");
            let varsb = vars.replace("SECa", "SECb").replace("91007", "92007");
            let cv = |s: &str| -> ConstValue {
                // parse a GraphQL constant through the real parser
                let d = async_graphql::parser::parse_query(format!("{{ f(v: {s}) }}")).expect("corpus variables parse");
                let op = d.operations.iter().next().unwrap().1;
                match &op.node.selection_set.node.items[0].node {
                    async_graphql::parser::types::Selection::Field(f) => f.node.arguments[0].1.node.clone().into_const().unwrap(),
                    _ => unreachable!(),
                }
            };
            let (ca, cb) = (cv(vars), cv(&varsb));
            let (ra, rb) = run_pair(&schema, &sh, doc, &ca, &docb, &cb);
            if case_no == 0 {
                let g = sh.lock().unwrap().registry_g.clone().unwrap();
                writeln!(out, "DEF\tschema0\t{g}").unwrap();
            }
            let text = format!("[derive] {doc} || vars {vars}");
            if emit_case(&mut out, &sh, "schema0", ra, rb, text) {
                case_no += 1;
            }
        }
    }

    // ---- generated pairs
    while case_no < a.n {
        schema_no += 1;
        let use_fixed = schema_no % 3 == 0;
        let sname = if use_fixed { "schema0".to_string() } else { format!("schema{schema_no}") };
        let per_schema = 12;
        if use_fixed {
            let schema = Schema::build(fixed::Query, fixed::Mutation, EmptySubscription).extension(Cap(sh.clone())).finish();
            let desc = sh.lock().unwrap().desc.clone();
            // the description of the fixed schema was captured by the corpus run; refresh it
            sh.lock().unwrap().registry_g = None;
            let _ = run_one(&schema, &sh, "{ __typename }", &ConstValue::Object(Default::default()));
            let desc = sh.lock().unwrap().desc.clone().or(desc).expect("description");
            gen_cases(&mut rng, &desc, &schema, &sh, &sname, per_schema, a.n, &mut case_no, &mut out, &mut emit_case, "derive");
        } else {
            let d = gen_schema(&mut rng);
            let has_mut = d.mutation.is_some();
            *CUR.write().unwrap() = Some(Arc::new(d));
            sh.lock().unwrap().registry_g = None;
            if has_mut {
                let schema = Schema::build(GQ, GM, EmptySubscription).extension(Cap(sh.clone())).finish();
                let _ = run_one(&schema, &sh, "{ __typename }", &ConstValue::Object(Default::default()));
                let g = sh.lock().unwrap().registry_g.clone().unwrap();
                writeln!(out, "DEF\t{sname}\t{g}").unwrap();
                let desc = sh.lock().unwrap().desc.clone().unwrap();
                gen_cases(&mut rng, &desc, &schema, &sh, &sname, per_schema, a.n, &mut case_no, &mut out, &mut emit_case, "gen");
            } else {
                let schema = Schema::build(GQ, EmptyMutation, EmptySubscription).extension(Cap(sh.clone())).finish();
                let _ = run_one(&schema, &sh, "{ __typename }", &ConstValue::Object(Default::default()));
                let g = sh.lock().unwrap().registry_g.clone().unwrap();
                writeln!(out, "DEF\t{sname}\t{g}").unwrap();
                let desc = sh.lock().unwrap().desc.clone().unwrap();
                gen_cases(&mut rng, &desc, &schema, &sh, &sname, per_schema, a.n, &mut case_no, &mut out, &mut emit_case, "gen");
            }
        }
    }
    // the name table (interned id -> text), complete only now
    {
        let s = sh.lock().unwrap();
        writeln!(out, "DEF\tnames\tDNames {}", g_list(s.it.names.iter(), |n| g_str(n))).unwrap();
    }
    std::fs::create_dir_all(&a.out).unwrap();
    std::fs::write(format!("{}/c21.cases", a.out), out).unwrap();
    println!("c21: {} cases", case_no);
}

#[allow(clippy::too_many_arguments)]
fn gen_cases<E: Executor>(
    rng: &mut Rng,
    desc: &SchemaD,
    schema: &E,
    sh: &Arc<Mutex<Shared>>,
    sname: &str,
    per_schema: usize,
    n: usize,
    case_no: &mut usize,
    out: &mut String,
    emit_case: &mut impl FnMut(&mut String, &Arc<Mutex<Shared>>, &str, Option<(String, String, String, Vec<(u64, String)>)>, Option<(String, String, String, Vec<(u64, String)>)>, String) -> bool,
    tag: &str,
) {
    for _ in 0..per_schema {
        if *case_no >= n {
            break;
        }
        // two thirds of the pairs stay outside the three known classes
        let mode = rng.below(6);
        let mut g = Gen {
            d: desc,
            r: rng.fork(),
            k: rng.below(900),
            vars: vec![],
            used: vec![],
            frags: vec![],
            wild: rng.chance(1, 4),
            lists: mode == 3,
            untyped: mode == 4,
            defaults: mode == 5,
            skip_secret: false,
        };
        let (da, va, db, vb) = g.request_pair();
        let (ra, rb) = run_pair(schema, sh, &da, &va, &db, &vb);
        let text = format!("[{tag} {sname}] {} || vars {}", da.trim(), va);
        if emit_case(out, sh, sname, ra, rb, text) {
            *case_no += 1;
        }
    }
}

//! C25 correspondence: drives the real `async_graphql::http::WebSocket` with a
//! channel-backed client stream, controllable init/ping callbacks, a manual
//! keep-alive timer and subscriptions whose source streams are channels, one
//! `poll_next` at a time with a flag waker (no runtime).  Every action of a
//! script and what the library answered is printed as a Gallina term of
//! coq/theories/Ws.v.
use std::collections::HashMap;
use std::fmt::Write as _;
use std::pin::Pin;
use std::sync::atomic::{AtomicBool, AtomicU64, AtomicUsize, Ordering};
use std::sync::{Arc, Mutex};
use std::task::{Context as TaskCx, Poll, Wake, Waker};
use std::time::Duration;

use agv_harness::*;
use async_graphql::http::{WebSocket, WebSocketProtocols, WsMessage};
use async_graphql::*;
use futures_channel::mpsc::{UnboundedReceiver, UnboundedSender, unbounded};
use futures_util::future::BoxFuture;
use futures_util::stream::{BoxStream, Stream, StreamExt};

// ---------------------------------------------------------------- schema --
type Reg = Arc<Mutex<HashMap<i32, UnboundedReceiver<i32>>>>;

struct Q;
#[Object]
impl Q {
    async fn x(&self) -> i32 {
        0
    }
}

struct Sub;
#[Subscription]
impl Sub {
    /// The source stream of operation instance `k` (registered by the harness
    /// before the start frame is sent).
    async fn s(&self, ctx: &async_graphql::Context<'_>, k: i32) -> BoxStream<'static, i32> {
        let reg = ctx.data_unchecked::<Reg>();
        match reg.lock().unwrap().remove(&k) {
            Some(rx) => rx.boxed(),
            None => futures_util::stream::empty().boxed(),
        }
    }
}

// ----------------------------------------------------------------- world --
struct Counting {
    rx: UnboundedReceiver<String>,
    n: Arc<AtomicUsize>,
}
impl Stream for Counting {
    type Item = String;
    fn poll_next(mut self: Pin<&mut Self>, cx: &mut TaskCx<'_>) -> Poll<Option<String>> {
        let r = self.rx.poll_next_unpin(cx);
        if let Poll::Ready(Some(_)) = &r {
            self.n.fetch_add(1, Ordering::SeqCst);
        }
        r
    }
}

#[derive(Clone)]
struct ManualTimer {
    generation: Arc<AtomicU64>,
    fired: Arc<AtomicU64>,
}
impl async_graphql::runtime::Timer for ManualTimer {
    fn delay(&self, _d: Duration) -> BoxFuture<'static, ()> {
        let g = self.generation.fetch_add(1, Ordering::SeqCst) + 1;
        let fired = self.fired.clone();
        Box::pin(futures_util::future::poll_fn(move |_| {
            if fired.load(Ordering::SeqCst) == g { Poll::Ready(()) } else { Poll::Pending }
        }))
    }
}

struct Flag(AtomicBool);
impl Wake for Flag {
    fn wake(self: Arc<Self>) {
        self.0.store(true, Ordering::SeqCst);
    }
    fn wake_by_ref(self: &Arc<Self>) {
        self.0.store(true, Ordering::SeqCst);
    }
}

type Gate = Arc<Mutex<UnboundedReceiver<bool>>>;
async fn gate_next(g: Gate) -> Option<bool> {
    futures_util::future::poll_fn(move |cx| g.lock().unwrap().poll_next_unpin(cx)).await
}

// --------------------------------------------------------------- scripts --
#[derive(Clone, Debug, PartialEq)]
enum Ev {
    Init,
    Start(usize),
    Stop(usize),
    Terminate,
    Ping,
    Pong,
    Bad(usize),
    Eof,
    InitDone(bool),
    PingDone(bool),
    Item(usize), // instance
    End(usize),
    Timer,
    /// stop the operation (a or b) whose id was NOT carried by the last data/next frame
    StopOther,
    /// no event: only the poll of the step
    Tick,
}

#[derive(Clone, Debug)]
struct Step {
    ev: Ev,
    poll: u8, // after the event: 0 no poll, 1 exactly one poll_next, 2 poll to quiescence
}

const IDS: [&str; 3] = ["a", "b", "c"];

struct Session {
    modern: bool,
    ws: Pin<Box<dyn Stream<Item = WsMessage>>>,
    client: Option<UnboundedSender<String>>,
    taken: Arc<AtomicUsize>,
    init_tx: UnboundedSender<bool>,
    ping_tx: UnboundedSender<bool>,
    timer: Option<ManualTimer>,
    reg: Reg,
    senders: Vec<Option<UnboundedSender<i32>>>, // by instance
    seqs: Vec<i32>,
    flag: Arc<Flag>,
    finished: bool,
    trace: Vec<String>,
    text: Vec<String>,
    outs: usize,
    last_data: Option<usize>,
}

static NEXT_KEY: AtomicU64 = AtomicU64::new(0);

fn new_session(schema: &Schema<Q, EmptyMutation, Sub>, reg: &Reg, modern: bool, ka: bool) -> Session {
    let (ctx, crx) = unbounded::<String>();
    let taken = Arc::new(AtomicUsize::new(0));
    let (init_tx, init_rx) = unbounded::<bool>();
    let (ping_tx, ping_rx) = unbounded::<bool>();
    let init_gate: Gate = Arc::new(Mutex::new(init_rx));
    let ping_gate: Gate = Arc::new(Mutex::new(ping_rx));
    let proto = if modern { WebSocketProtocols::GraphQLWS } else { WebSocketProtocols::SubscriptionsTransportWS };
    let timer = ManualTimer { generation: Arc::new(AtomicU64::new(0)), fired: Arc::new(AtomicU64::new(u64::MAX)) };
    let ws = WebSocket::new(schema.clone(), Counting { rx: crx, n: taken.clone() }, proto)
        .on_connection_init(move |_payload| async move {
            match gate_next(init_gate).await {
                Some(true) => Ok(Data::default()),
                _ => Err(Error::new("init-rejected")),
            }
        })
        .on_ping(move |_data: Option<&Data>, _payload: Option<serde_json::Value>| {
            let g = ping_gate.clone();
            async move {
                match gate_next(g).await {
                    Some(true) => Ok(None),
                    _ => Err(Error::new("ping-failed")),
                }
            }
        });
    let ws: Pin<Box<dyn Stream<Item = WsMessage>>> = if ka {
        Box::pin(ws.keepalive_timeout(timer.clone(), Duration::from_secs(1)))
    } else {
        Box::pin(ws)
    };
    Session {
        modern,
        ws,
        client: Some(ctx),
        taken,
        init_tx,
        ping_tx,
        timer: if ka { Some(timer) } else { None },
        reg: reg.clone(),
        senders: vec![],
        seqs: vec![],
        flag: Arc::new(Flag(AtomicBool::new(false))),
        finished: false,
        trace: vec![],
        text: vec![],
        outs: 0,
        last_data: None,
    }
}

fn decode(modern: bool, m: &WsMessage) -> (String, String, Option<usize>) {
    // (gallina, readable, id chosen)
    let _ = modern;
    match m {
        WsMessage::Close(code, why) => (format!("RMsg (OClose {code})"), format!("close {code} {why:?}"), None),
        WsMessage::Text(t) => {
            let v: serde_json::Value = serde_json::from_str(t).unwrap_or(serde_json::Value::Null);
            let ty = v.get("type").and_then(|x| x.as_str()).unwrap_or("?");
            let id = v.get("id").and_then(|x| x.as_str()).and_then(|s| IDS.iter().position(|x| *x == s));
            match ty {
                "connection_ack" => ("RMsg OAck".into(), "ack".into(), None),
                "pong" => ("RMsg OPong".into(), "pong".into(), None),
                "connection_error" => {
                    let msg = v.pointer("/payload/message").and_then(|x| x.as_str()).unwrap_or("");
                    let why = match msg {
                        "timeout" => 1,
                        "Too many initialisation requests." => 2,
                        "init-rejected" => 3,
                        "ping-failed" => 4,
                        _ => 9,
                    };
                    (format!("RMsg (OConnErr {why})"), format!("connection_error {msg:?}"), None)
                }
                "data" | "next" => {
                    let val = v.pointer("/payload/data/s").and_then(|x| x.as_i64());
                    let errs = v.pointer("/payload/errors").is_some();
                    match (id, val, errs) {
                        (Some(i), Some(x), false) => (
                            format!("RMsg ({} {} {} {})", if ty == "data" { "OData" } else { "ONext" }, i, x / 1000, x % 1000),
                            format!("{ty} {} inst{} #{}", IDS[i], x / 1000, x % 1000),
                            Some(i),
                        ),
                        // an error response or an unreadable payload: no model output equals it
                        _ => (format!("RMsg (OData 99 99 99)"), format!("unexpected {t}"), id),
                    }
                }
                "complete" => match id {
                    Some(i) => (format!("RMsg (OComplete {i})"), format!("complete {}", IDS[i]), Some(i)),
                    None => ("RMsg (OComplete 99)".into(), format!("unexpected {t}"), None),
                },
                _ => ("RMsg (OConnErr 99)".into(), format!("unexpected {t}"), None),
            }
        }
    }
}

impl Session {
    fn poll_once(&mut self) -> Option<bool> {
        // returns Some(true) if a message came out, Some(false) if ended, None if pending
        if self.finished {
            return Some(false);
        }
        let before = self.taken.load(Ordering::SeqCst);
        let waker = Waker::from(self.flag.clone());
        let mut cx = TaskCx::from_waker(&waker);
        let mut res;
        let mut spins = 0;
        loop {
            self.flag.0.store(false, Ordering::SeqCst);
            res = self.ws.as_mut().poll_next(&mut cx);
            // a self-wake while pending counts as the same logical poll
            if res.is_pending() && self.flag.0.load(Ordering::SeqCst) && spins < 8 {
                spins += 1;
                continue;
            }
            break;
        }
        let k = self.taken.load(Ordering::SeqCst) - before;
        let (g, txt, choice) = match &res {
            Poll::Pending => ("RPending".to_string(), "pending".to_string(), None),
            Poll::Ready(None) => ("REnd".to_string(), "end".to_string(), None),
            Poll::Ready(Some(m)) => decode(self.modern, m),
        };
        if g.starts_with("RMsg (OData") || g.starts_with("RMsg (ONext") {
            self.last_data = choice;
        }
        let c = match choice {
            Some(i) => format!("(Some {i})"),
            None => "None".into(),
        };
        self.trace.push(format!("(APoll {c}, ObsPoll {k}%nat ({g}))"));
        if !matches!(res, Poll::Pending) || k > 0 || true {
            self.text.push(if k > 0 { format!("<{txt} read{k}>") } else { format!("<{txt}>") });
        }
        match res {
            Poll::Pending => None,
            Poll::Ready(None) => {
                self.finished = true;
                Some(false)
            }
            Poll::Ready(Some(_)) => {
                self.outs += 1;
                Some(true)
            }
        }
    }

    fn quiesce(&mut self) {
        let mut guard = 0;
        while !self.finished && guard < 200 {
            guard += 1;
            if self.poll_once().is_none() {
                break;
            }
        }
    }

    fn send(&mut self, frame: String) {
        if let Some(c) = &self.client {
            let _ = c.unbounded_send(frame);
        }
    }

    fn apply(&mut self, ev: &Ev, rng: &mut Rng) {
        let m = self.modern;
        let resolved;
        let ev = match ev {
            Ev::Tick => return,
            Ev::StopOther => {
                resolved = Ev::Stop(match self.last_data {
                    Some(0) => 1,
                    _ => 0,
                });
                &resolved
            }
            e => e,
        };
        let (g, txt): (String, String) = match ev {
            Ev::Init => {
                self.send(r#"{"type":"connection_init","payload":{}}"#.into());
                ("EClient CInit".into(), "init".into())
            }
            Ev::Start(i) => {
                let inst = self.senders.len();
                if self.client.is_some() {
                    let key = NEXT_KEY.fetch_add(1, Ordering::SeqCst) as i32;
                    let (tx, rx) = unbounded::<i32>();
                    self.reg.lock().unwrap().insert(key, rx);
                    self.senders.push(Some(tx));
                    self.seqs.push(0);
                    let ty = if m { "subscribe" } else { "start" };
                    self.send(format!(
                        r#"{{"type":"{ty}","id":"{}","payload":{{"query":"subscription {{ s(k: {key}) }}"}}}}"#,
                        IDS[*i]
                    ));
                }
                (format!("EClient (CStart {i} {inst})"), format!("start {} (inst{inst})", IDS[*i]))
            }
            Ev::Stop(i) => {
                let ty = if m { "complete" } else { "stop" };
                self.send(format!(r#"{{"type":"{ty}","id":"{}"}}"#, IDS[*i]));
                (format!("EClient (CStop {i})"), format!("stop {}", IDS[*i]))
            }
            Ev::Terminate => {
                self.send(r#"{"type":"connection_terminate"}"#.into());
                ("EClient CTerminate".into(), "terminate".into())
            }
            Ev::Ping => {
                self.send(r#"{"type":"ping"}"#.into());
                ("EClient CPing".into(), "ping".into())
            }
            Ev::Pong => {
                self.send(r#"{"type":"pong","payload":{"a":1}}"#.into());
                ("EClient CPong".into(), "pong".into())
            }
            Ev::Bad(k) => {
                let frames = [
                    "{",
                    r#"{"type":"bogus"}"#,
                    r#"{"type":"start","payload":{"query":"{x}"}}"#,
                    "[1,2]",
                    r#"{"id":"a"}"#,
                    "",
                ];
                let f = frames[*k % frames.len()];
                self.send(f.into());
                ("EClient CBad".into(), format!("bad {f:?}"))
            }
            Ev::Eof => {
                self.client = None;
                ("EClient CEof".into(), "eof".into())
            }
            Ev::InitDone(b) => {
                let _ = self.init_tx.unbounded_send(*b);
                (format!("EInitDone {}", g_bool(*b)), format!("init-answer {b}"))
            }
            Ev::PingDone(b) => {
                let _ = self.ping_tx.unbounded_send(*b);
                (format!("EPingDone {}", g_bool(*b)), format!("ping-answer {b}"))
            }
            Ev::Item(inst) => {
                let mut seq = 0;
                if let Some(Some(tx)) = self.senders.get(*inst) {
                    seq = self.seqs[*inst];
                    self.seqs[*inst] += 1;
                    let _ = tx.unbounded_send((*inst as i32) * 1000 + seq);
                }
                (format!("EItem {inst} {seq}"), format!("item inst{inst} #{seq}"))
            }
            Ev::End(inst) => {
                if let Some(s) = self.senders.get_mut(*inst) {
                    *s = None;
                }
                (format!("EEnd {inst}"), format!("end inst{inst}"))
            }
            Ev::Timer => {
                if let Some(t) = &self.timer {
                    t.fired.store(t.generation.load(Ordering::SeqCst), Ordering::SeqCst);
                }
                ("ETimer".into(), "timer".into())
            }
            Ev::StopOther | Ev::Tick => unreachable!(),
        };
        let _ = rng;
        self.trace.push(format!("(AEnv ({g}), ObsEnv)"));
        self.text.push(txt);
    }
}

fn run_script(schema: &Schema<Q, EmptyMutation, Sub>, reg: &Reg, modern: bool, ka: bool, script: &[Step], rng: &mut Rng) -> (String, String, bool) {
    let mut s = new_session(schema, reg, modern, ka);
    for st in script {
        s.apply(&st.ev, rng);
        match st.poll {
            1 => {
                s.poll_once();
            }
            2 => s.quiesce(),
            _ => {}
        }
    }
    s.quiesce();
    // leftovers of this session
    let term = format!(
        "({}, {}, [{}])",
        if modern { "Modern" } else { "Legacy" },
        g_bool(ka),
        s.trace.join("; ")
    );
    let text = format!("{}{} {}", if modern { "modern" } else { "legacy" }, if ka { "+ka" } else { "" }, s.text.join(" "));
    (term, text, s.outs > 0)
}

fn jstr(s: &str) -> String {
    serde_json::to_string(s).unwrap()
}

/// The alphabet of the bounded-exhaustive part.  Items/ends go to the most
/// recently created instance ("L") or to instance 0 ("0").
#[derive(Clone, Copy, Debug)]
enum Sym {
    Init,
    InitOk,
    InitErr,
    StartA,
    StartB,
    StopA,
    ItemL,
    Item0,
    EndL,
    Ping,
    PingOk,
    Bad,
    Timer,
    Term,
    Eof,
}
const ALPHA: [Sym; 15] = [
    Sym::Init, Sym::InitOk, Sym::InitErr, Sym::StartA, Sym::StartB, Sym::StopA, Sym::ItemL, Sym::Item0, Sym::EndL,
    Sym::Ping, Sym::PingOk, Sym::Bad, Sym::Timer, Sym::Term, Sym::Eof,
];

fn concretise(syms: &[Sym], polls: &dyn Fn(usize) -> bool) -> Vec<Step> {
    let polls = |j: usize| if polls(j) { 2u8 } else { 0u8 };
    let mut insts = 0usize;
    let mut out = vec![];
    for (j, s) in syms.iter().enumerate() {
        let ev = match s {
            Sym::Init => Ev::Init,
            Sym::InitOk => Ev::InitDone(true),
            Sym::InitErr => Ev::InitDone(false),
            Sym::StartA => {
                insts += 1;
                Ev::Start(0)
            }
            Sym::StartB => {
                insts += 1;
                Ev::Start(1)
            }
            Sym::StopA => Ev::Stop(0),
            Sym::ItemL => Ev::Item(insts.saturating_sub(1)),
            Sym::Item0 => Ev::Item(0),
            Sym::EndL => Ev::End(insts.saturating_sub(1)),
            Sym::Ping => Ev::Ping,
            Sym::PingOk => Ev::PingDone(true),
            Sym::Bad => Ev::Bad(j),
            Sym::Timer => Ev::Timer,
            Sym::Term => Ev::Terminate,
            Sym::Eof => Ev::Eof,
        };
        out.push(Step { ev, poll: polls(j) });
    }
    out
}

fn random_script(r: &mut Rng) -> Vec<Step> {
    let long = r.chance(1, 4);
    let len = 3 + r.below(if long { 38 } else { 14 });
    let mut insts = 0usize;
    let mut out = vec![];
    // mostly well-behaved prefix
    let polite = r.chance(3, 4);
    let batchy = r.chance(1, 3);
    // single-step style: most polls are exactly one poll_next, so that frames
    // and events arrive while other streams are still ready
    let stepper = r.chance(1, 3);
    if polite {
        let p0 = !batchy || r.chance(1, 2);
        out.push(Step { ev: Ev::Init, poll: if p0 { 2 } else { 0 } });
        if r.chance(9, 10) {
            out.push(Step { ev: Ev::InitDone(r.chance(9, 10)), poll: 2 });
        }
    }
    for _ in 0..len {
        let w = r.below(100);
        let ev = if w < 22 {
            insts += 1;
            { let w3 = r.chance(1, 5); Ev::Start(r.below(if w3 { 3 } else { 2 })) }
        } else if w < 50 {
            if insts == 0 { Ev::Pong } else { Ev::Item(if r.chance(2, 3) { insts - 1 } else { r.below(insts) }) }
        } else if w < 60 {
            if insts == 0 { Ev::Ping } else { Ev::End(if r.chance(1, 2) { insts - 1 } else { r.below(insts) }) }
        } else if w < 70 {
            { let w3 = r.chance(1, 5); Ev::Stop(r.below(if w3 { 3 } else { 2 })) }
        } else if w < 76 {
            Ev::Ping
        } else if w < 82 {
            Ev::PingDone(r.chance(5, 6))
        } else if w < 85 {
            Ev::Pong
        } else if w < 88 {
            Ev::Init
        } else if w < 91 {
            Ev::InitDone(r.chance(3, 4))
        } else if w < 94 {
            Ev::Timer
        } else if w < 96 {
            Ev::Bad(r.below(6))
        } else if w < 98 {
            Ev::Terminate
        } else {
            Ev::Eof
        };
        let poll: u8 = if stepper {
            [0u8, 0, 1, 1, 1, 2][r.below(6)]
        } else if batchy {
            if r.chance(1, 3) { 2 } else { 0 }
        } else if r.chance(9, 10) {
            2
        } else {
            0
        };
        let ev = if stepper && r.chance(1, 8) { Ev::StopOther } else { ev };
        out.push(Step { ev, poll });
        if stepper && r.chance(1, 4) {
            out.push(Step { ev: Ev::Tick, poll: 1 });
        }
    }
    out
}

fn main() {
    let a = parse_args();
    let mut rng = Rng::new(a.seed);
    let reg: Reg = Arc::new(Mutex::new(HashMap::new()));
    let schema = Schema::build(Q, EmptyMutation, Sub).data(reg.clone()).finish();
    let mut out = String::new();
    let mut n = 0usize;
    let emit = |out: &mut String, modern: bool, ka: bool, script: &[Step], rng: &mut Rng| {
        let (term, text, nontrivial) = run_script(&schema, &reg, modern, ka, script, rng);
        writeln!(out, "CASE\t{term}\t{{\"text\":{},\"nontrivial\":{}}}", jstr(&text), nontrivial).unwrap();
        reg.lock().unwrap().clear();
    };
    let p = |ev: Ev| Step { ev, poll: 2 };
    let np = |ev: Ev| Step { ev, poll: 0 };
    let p1 = |ev: Ev| Step { ev, poll: 1 };
    // fixed corpus: witnesses of the known findings and boundary conversations
    let corpus: Vec<Vec<Step>> = vec![
        // duplicate live id
        vec![p(Ev::Init), p(Ev::InitDone(true)), p(Ev::Start(0)), p(Ev::Item(0)), p(Ev::Start(0)), p(Ev::Item(0)), p(Ev::Item(1)), p(Ev::End(0)), p(Ev::End(1))],
        // start before init / before ack
        vec![p(Ev::Start(0))],
        vec![p(Ev::Init), p(Ev::Start(0)), p(Ev::InitDone(true))],
        // bad frames
        vec![p(Ev::Bad(0))],
        vec![p(Ev::Init), p(Ev::InitDone(true)), p(Ev::Bad(1))],
        // double init
        vec![p(Ev::Init), p(Ev::InitDone(true)), p(Ev::Init), p(Ev::Start(0))],
        vec![np(Ev::Init), np(Ev::Init), p(Ev::InitDone(true))],
        // rejected init
        vec![p(Ev::Init), p(Ev::InitDone(false)), p(Ev::Start(0))],
        // normal life cycle, two operations
        vec![p(Ev::Init), p(Ev::InitDone(true)), p(Ev::Start(0)), p(Ev::Start(1)), p(Ev::Item(0)), p(Ev::Item(1)), p(Ev::Stop(0)), p(Ev::Item(0)), p(Ev::End(1)), p(Ev::Stop(1)), p(Ev::Eof)],
        // batching: everything sent before the first poll
        vec![np(Ev::Init), np(Ev::InitDone(true)), np(Ev::Start(0)), np(Ev::Start(1)), np(Ev::Item(0)), np(Ev::Item(1)), np(Ev::Item(0)), np(Ev::End(0)), p(Ev::Stop(1))],
        // ping blocks reading and streams until answered
        vec![p(Ev::Init), p(Ev::InitDone(true)), p(Ev::Start(0)), p(Ev::Ping), p(Ev::Item(0)), p(Ev::Stop(0)), p(Ev::PingDone(true))],
        vec![p(Ev::Ping), p(Ev::PingDone(false)), p(Ev::Init)],
        // keep-alive
        vec![p(Ev::Init), p(Ev::InitDone(true)), p(Ev::Timer), p(Ev::Start(0))],
        vec![p(Ev::Init), np(Ev::Timer), p(Ev::Pong), p(Ev::InitDone(true))],
        vec![p(Ev::Init), p(Ev::InitDone(true)), p(Ev::Terminate), p(Ev::Start(0))],
        vec![p(Ev::Init), p(Ev::InitDone(true)), p(Ev::Start(0)), p(Ev::Eof), p(Ev::Item(0)), p(Ev::Timer)],
        // two streams ready in the same poll, one frame taken, then the client stops the other operation:
        // after its complete nothing may carry the stopped id
        vec![p(Ev::Init), p(Ev::InitDone(true)), p(Ev::Start(0)), p(Ev::Start(1)), np(Ev::Item(0)), p1(Ev::Item(1)),
             p1(Ev::StopOther), p1(Ev::Tick), p(Ev::Tick)],
        vec![p(Ev::Init), p(Ev::InitDone(true)), p(Ev::Start(0)), p(Ev::Start(1)), np(Ev::Item(0)), np(Ev::Item(1)), np(Ev::Item(0)),
             p1(Ev::Item(1)), p1(Ev::Stop(0)), p1(Ev::Tick), p1(Ev::Stop(1)), p(Ev::Tick)],
        // same with a replaced id and with an ended stream among the ready ones
        vec![p(Ev::Init), p(Ev::InitDone(true)), p(Ev::Start(0)), p(Ev::Start(1)), np(Ev::Item(0)), np(Ev::Item(1)),
             p1(Ev::End(0)), p1(Ev::Start(1)), p1(Ev::Item(2)), p1(Ev::StopOther), p(Ev::Tick)],
        vec![p(Ev::Init), p(Ev::InitDone(true)), p(Ev::Start(0)), p(Ev::Start(1)), p(Ev::Start(2)), np(Ev::Item(0)), np(Ev::Item(1)),
             p1(Ev::Item(2)), p1(Ev::Stop(0)), p1(Ev::Stop(1)), p1(Ev::Stop(2)), p(Ev::Tick)],
    ];
    for sc in &corpus {
        for modern in [false, true] {
            for ka in [false, true] {
                emit(&mut out, modern, ka, sc, &mut rng);
                n += 1;
            }
        }
    }
    // bounded-exhaustive over ALPHA, polling to quiescence after every event
    let thorough = a.n >= 20_000;
    let depth = if thorough { 3 } else { 2 };
    let mut idx = vec![0usize; 0];
    for len in 1..=depth {
        idx.clear();
        idx.resize(len, 0);
        loop {
            let syms: Vec<Sym> = idx.iter().map(|i| ALPHA[*i]).collect();
            let sc = concretise(&syms, &|_| true);
            for modern in [false, true] {
                emit(&mut out, modern, true, &sc, &mut rng);
                n += 1;
            }
            // next tuple
            let mut j = len;
            loop {
                if j == 0 {
                    break;
                }
                j -= 1;
                idx[j] += 1;
                if idx[j] < ALPHA.len() {
                    break;
                }
                idx[j] = 0;
                if j == 0 {
                    j = usize::MAX;
                    break;
                }
            }
            if j == usize::MAX {
                break;
            }
        }
    }
    // exhaustive continuation after an acknowledged handshake (longer useful depth)
    let depth2 = if thorough { 3 } else { 2 };
    let inner: Vec<Sym> = vec![Sym::StartA, Sym::StartB, Sym::StopA, Sym::ItemL, Sym::Item0, Sym::EndL, Sym::Ping, Sym::PingOk, Sym::Init, Sym::Bad];
    for len in depth2..=depth2 + 1 {
        let total = inner.len().pow(len as u32);
        for code in 0..total {
            let mut c = code;
            let mut syms = vec![Sym::Init, Sym::InitOk];
            for _ in 0..len {
                syms.push(inner[c % inner.len()]);
                c /= inner.len();
            }
            // every second script injects without polling in between
            let batch = code % 2 == 1;
            let sc = concretise(&syms, &|j| !batch || j < 2);
            emit(&mut out, code % 4 < 2, false, &sc, &mut rng);
            n += 1;
        }
    }
    // multi-ready, single-step: after an acknowledged handshake with operations a and b running,
    // all sequences over {item a, item b, end a, stop a, stop b, one poll}, no implicit polls
    {
        let alpha = [Ev::Item(0), Ev::Item(1), Ev::End(0), Ev::Stop(0), Ev::Stop(1), Ev::Tick];
        let maxlen = if thorough { 5 } else { 4 };
        for len in 2..=maxlen {
            let total = alpha.len().pow(len as u32);
            for code in 0..total {
                let mut c = code;
                let mut sc = vec![p(Ev::Init), p(Ev::InitDone(true)), p(Ev::Start(0)), p(Ev::Start(1))];
                for _ in 0..len {
                    let ev = alpha[c % alpha.len()].clone();
                    c /= alpha.len();
                    let poll = if ev == Ev::Tick { 1 } else { 0 };
                    sc.push(Step { ev, poll });
                }
                emit(&mut out, code % 2 == 0, false, &sc, &mut rng);
                n += 1;
            }
        }
    }
    // random longer scripts
    while n < a.n {
        let sc = random_script(&mut rng);
        let modern = rng.chance(1, 2);
        let ka = rng.chance(1, 2);
        emit(&mut out, modern, ka, &sc, &mut rng);
        n += 1;
    }
    std::fs::write(format!("{}/c25.cases", a.out), out).unwrap();
}

//! C10 / C11 correspondence: depth, complexity, recursion-depth and
//! directive limits, and the number of selection visits (cfg hook), on
//! generated schemas (injected registry with complexity rules) and one
//! derive-built schema.  `c10 <seed> <n> <out> [c11]`.
use std::fmt::Write as _;
use std::sync::atomic::Ordering;
use std::sync::{Arc, Mutex};

use agv_harness::genschema::*;
use agv_harness::*;
use async_graphql::parser::types::*;
use async_graphql::registry::{MetaType, MetaTypeName, Registry};
use async_graphql::*;

fn g_rule(it: &mut Interner, r: Rule) -> String {
    match rule_canon(r) {
        Rule::Default => "CDefault".into(),
        Rule::Const(k) => format!("(CConst {k}%N)"),
        Rule::ChildMul(k) => format!("(CChildMul {k}%N)"),
        Rule::ChildAdd(k) => format!("(CChildAdd {k}%N)"),
        Rule::ArgMul(d) => format!("(CArgMul {} {})", it.n("n"), g_opt(d, |x| g_z(x as i128))),
    }
}

fn dump_registry(it: &mut Interner, r: &Registry, d: &SchemaDesc) -> String {
    let rule_of = |ty: &str, f: &str| -> Rule {
        match d.get(ty) {
            Some(TypeDesc::Object { fields, .. }) => fields.iter().find(|x| x.name == f).map(|x| x.rule).unwrap_or_default(),
            _ => Rule::Default,
        }
    };
    let fields = |it: &mut Interner, ty: &str, fs: &indexmap::IndexMap<String, async_graphql::registry::MetaField>| {
        g_list(fs.iter(), |(k, f)| {
            format!(
                "({}, {{| mf_ty := {}; mf_rule := {} |}})",
                it.n(k),
                it.n(MetaTypeName::concrete_typename(&f.ty)),
                g_rule(it, rule_of(ty, k))
            )
        })
    };
    let types = g_list(r.types.iter().filter(|(k, _)| !k.starts_with("__")), |(k, t)| {
        let body = match t {
            MetaType::Object { fields: fs, .. } => format!("(MObject {})", fields(it, k, fs)),
            MetaType::Interface { fields: fs, .. } => format!("(MInterface {})", fields(it, k, fs)),
            _ => "MOther".to_string(),
        };
        format!("({}, {})", it.n(k), body)
    });
    format!(
        "{{| s_types := {}; s_query := {}; s_mutation := {}; s_subscription := {} |}}",
        types,
        it.n(&r.query_type),
        g_opt(r.mutation_type.as_ref(), |m| it.n(m)),
        g_opt(r.subscription_type.as_ref(), |m| it.n(m))
    )
}

fn rand_rule(r: &mut Rng) -> Rule {
    match r.below(12) {
        0 => Rule::Const(0),
        1 => Rule::Const(2),
        2 => Rule::Const(5),
        3 => Rule::ChildMul(2),
        4 => Rule::ChildMul(3),
        5 => Rule::ChildAdd(3),
        6 => Rule::ArgMul(None),
        7 => Rule::ArgMul(Some(3)),
        _ => Rule::Default,
    }
}

fn gen_schema(r: &mut Rng) -> SchemaDesc {
    let nobj = 2 + r.below(3);
    let nint = r.below(2);
    let nuni = r.below(2);
    let objs: Vec<String> = (0..nobj).map(|i| format!("O{i}")).collect();
    let ints: Vec<String> = (0..nint).map(|i| format!("I{i}")).collect();
    let unis: Vec<String> = (0..nuni).map(|i| format!("U{i}")).collect();
    let mut named: Vec<String> = vec!["Int".into()];
    named.extend(objs.iter().cloned());
    named.extend(objs.iter().cloned());
    named.extend(ints.iter().cloned());
    named.extend(unis.iter().cloned());
    let wrap = |r: &mut Rng, n: &str| -> String {
        match r.below(5) {
            0 => format!("{n}!"),
            1 => format!("[{n}]"),
            _ => n.to_string(),
        }
    };
    let mut idesc: Vec<(String, Vec<FieldDesc>, Vec<String>)> = vec![];
    for (k, i) in ints.iter().enumerate() {
        let t = r.pick(&named).clone();
        idesc.push((i.clone(), vec![FieldDesc { name: format!("i{k}f"), ty: wrap(r, &t), ..Default::default() }], vec![]));
    }
    let mut types = vec![];
    for (k, o) in objs.iter().enumerate() {
        let nf = 2 + r.below(3);
        let mut fields: Vec<FieldDesc> = (0..nf)
            .map(|j| {
                let t = if j == 0 { "Int".to_string() } else { r.pick(&named).clone() };
                let rule = if k == 0 && j == 0 { Rule::Default } else { rand_rule(r) };
                let args = if matches!(rule, Rule::ArgMul(_)) { vec![("n".to_string(), if matches!(rule, Rule::ArgMul(None)) { "Int!".to_string() } else { "Int".to_string() })] } else { vec![] };
                FieldDesc { name: format!("f{j}"), ty: wrap(r, &t), rule, args, ..Default::default() }
            })
            .collect();
        let mut implements = vec![];
        for (iname, ifields, possible) in idesc.iter_mut() {
            if r.chance(2, 3) {
                implements.push(iname.clone());
                possible.push(o.clone());
                for f in ifields.iter() {
                    let rule = rand_rule(r);
                    let rule = if matches!(rule, Rule::ArgMul(_)) { Rule::Const(2) } else { rule };
                    fields.push(FieldDesc { name: f.name.clone(), ty: f.ty.clone(), rule, ..Default::default() });
                }
            }
        }
        let _ = k;
        types.push(TypeDesc::Object { name: o.clone(), cc: Default::default(), fields, implements });
    }
    for (name, fields, possible) in idesc {
        types.push(TypeDesc::Interface { name, fields, possible });
    }
    for u in unis.iter() {
        let mut possible: Vec<String> = objs.iter().filter(|_| r.chance(1, 2)).cloned().collect();
        if possible.is_empty() {
            possible.push(objs[r.below(objs.len())].clone());
        }
        types.push(TypeDesc::Union { name: u.clone(), possible });
    }
    SchemaDesc { types, query: "O0".into(), mutation: if r.chance(1, 4) { Some("O1".into()) } else { None } }
}

struct DocGen<'a> {
    d: &'a SchemaDesc,
    r: Rng,
    frags: Vec<(String, String, String)>,
    wild: bool,
    uses_var: bool,
}

impl DocGen<'_> {
    fn conds_for(&self, ty: &str) -> Vec<String> {
        let mut v = vec![ty.to_string()];
        match self.d.get(ty) {
            Some(TypeDesc::Object { implements, .. }) => {
                v.extend(implements.iter().cloned());
                for t in &self.d.types {
                    if let TypeDesc::Union { name, possible } = t
                        && possible.iter().any(|p| p == ty)
                    {
                        v.push(name.clone());
                    }
                }
            }
            Some(TypeDesc::Interface { possible, .. }) | Some(TypeDesc::Union { possible, .. }) => v.extend(possible.iter().cloned()),
            None => {}
        }
        v
    }
    fn dirs(&mut self) -> String {
        let mut s = String::new();
        if self.r.chance(1, 5) {
            let k = 1 + self.r.below(3);
            for i in 0..k {
                if i == 0 || self.wild {
                    s.push_str(if self.r.chance(1, 2) { " @include(if: true)" } else { " @skip(if: false)" });
                }
            }
        }
        s
    }
    fn sels(&mut self, ty: &str, depth: usize) -> String {
        let mut out = String::from("{");
        let n = 1 + self.r.below(3);
        let fields: Vec<FieldDesc> = match self.d.get(ty) {
            Some(TypeDesc::Object { fields, .. }) | Some(TypeDesc::Interface { fields, .. }) => fields.clone(),
            _ => vec![],
        };
        let mut emitted = 0;
        for _ in 0..n {
            let k = self.r.below(10);
            if k < 5 && !fields.is_empty() {
                let f = self.r.pick(&fields).clone();
                let base = MetaTypeName::concrete_typename(&f.ty).to_string();
                let alias = if self.r.chance(1, 8) { format!("a{}: ", self.r.below(3)) } else { String::new() };
                let args = if !f.args.is_empty() && (f.args[0].1.ends_with('!') || self.r.chance(2, 3)) {
                    if self.r.chance(1, 3) {
                        self.uses_var = true;
                        "(n: $v)".to_string()
                    } else {
                        format!("(n: {})", self.r.below(4))
                    }
                } else {
                    String::new()
                };
                let dirs = self.dirs();
                if self.d.get(&base).is_some() {
                    if depth == 0 {
                        continue;
                    }
                    let sub = self.sels(&base, depth - 1);
                    write!(out, " {alias}{}{args}{dirs} {sub}", f.name).unwrap();
                } else {
                    write!(out, " {alias}{}{args}{dirs}", f.name).unwrap();
                }
                emitted += 1;
            } else if k == 5 {
                out.push_str(" __typename");
                emitted += 1;
            } else if k < 8 && depth > 0 {
                let conds = self.conds_for(ty);
                let c = self.r.pick(&conds).clone();
                if self.r.chance(1, 5) {
                    let sub = self.sels(ty, depth - 1);
                    write!(out, " ... {sub}").unwrap();
                } else {
                    let sub = self.sels(&c, depth - 1);
                    write!(out, " ... on {c} {sub}").unwrap();
                }
                emitted += 1;
            } else if depth > 0 {
                let conds = self.conds_for(ty);
                let c = self.r.pick(&conds).clone();
                let reuse: Vec<String> = self.frags.iter().filter(|f| f.1 == c && !f.2.is_empty()).map(|f| f.0.clone()).collect();
                if !reuse.is_empty() && self.r.chance(1, 2) {
                    write!(out, " ...{}", self.r.pick(&reuse)).unwrap();
                } else {
                    let name = format!("F{}", self.frags.len());
                    self.frags.push((name.clone(), c.clone(), String::new()));
                    let idx = self.frags.len() - 1;
                    let body = self.sels(&c, depth - 1);
                    self.frags[idx].2 = body;
                    write!(out, " ...{name}").unwrap();
                }
                emitted += 1;
            }
        }
        if emitted == 0 {
            out.push_str(" __typename");
        }
        out.push_str(" }");
        out
    }
    fn document(&mut self) -> (String, serde_json::Value) {
        let mut s = String::new();
        let nops = if self.r.chance(1, 8) { 2 } else { 1 };
        let mut vars = serde_json::Map::new();
        for i in 0..nops {
            let mutation = self.d.mutation.is_some() && self.r.chance(1, 5);
            let root = if mutation { self.d.mutation.clone().unwrap() } else { self.d.query.clone() };
            let depth = 1 + self.r.below(4);
            self.uses_var = false;
            let body = self.sels(&root, depth);
            let kw = if mutation { "mutation" } else { "query" };
            let vd = if self.uses_var {
                match self.r.below(3) {
                    0 => "($v: Int = 2)".to_string(),
                    1 => {
                        vars.insert("v".into(), serde_json::json!(self.r.below(4)));
                        "($v: Int)".to_string()
                    }
                    _ => {
                        vars.insert("v".into(), serde_json::json!(self.r.below(4)));
                        "($v: Int = 1)".to_string()
                    }
                }
            } else {
                String::new()
            };
            if nops == 1 && !mutation && vd.is_empty() && self.r.chance(1, 2) {
                writeln!(s, "{body}").unwrap();
            } else {
                writeln!(s, "{kw} Op{i}{vd} {body}").unwrap();
            }
        }
        for (n, c, b) in &self.frags {
            writeln!(s, "fragment {n} on {c} {b}").unwrap();
        }
        (s, serde_json::Value::Object(vars))
    }
}

// adversarial families for C11
fn fan_out(l: usize, width: usize) -> String {
    // F_i spreads F_{i+1} `width` times; the last selects a field
    let mut s = String::from("{ ...F0 }\n");
    for i in 0..l {
        let mut b = String::new();
        for _ in 0..width {
            if i + 1 < l {
                write!(b, " ...F{}", i + 1).unwrap();
            } else {
                b.push_str(" f0");
            }
        }
        writeln!(s, "fragment F{i} on O0 {{{b} }}").unwrap();
    }
    s
}
fn wide(n: usize) -> String {
    let mut s = String::from("{");
    for i in 0..n {
        write!(s, " a{i}: f0").unwrap();
    }
    s.push_str(" }\n");
    s
}
fn deep_inline(n: usize) -> String {
    let mut s = String::from("{");
    for _ in 0..n {
        s.push_str(" ... on O0 {");
    }
    s.push_str(" f0");
    for _ in 0..n {
        s.push_str(" }");
    }
    s.push_str(" }\n");
    s
}
fn many_ops(n: usize) -> String {
    let mut s = String::new();
    for i in 0..n {
        writeln!(s, "query Op{i} {{ f0 ...F0 }}").unwrap();
    }
    s.push_str("fragment F0 on O0 { f0 __typename }\n");
    s
}

mod fixed {
    use async_graphql::*;
    pub struct Leaf;
    #[Object]
    impl Leaf {
        #[graphql(complexity = 5)]
        async fn c5(&self) -> i32 {
            agv_harness::genschema::RESOLVER_CALLS.fetch_add(1, std::sync::atomic::Ordering::SeqCst);
            1
        }
        #[graphql(complexity = 0)]
        async fn c0(&self) -> i32 {
            agv_harness::genschema::RESOLVER_CALLS.fetch_add(1, std::sync::atomic::Ordering::SeqCst);
            1
        }
        async fn x(&self) -> i32 {
            agv_harness::genschema::RESOLVER_CALLS.fetch_add(1, std::sync::atomic::Ordering::SeqCst);
            1
        }
        async fn next(&self) -> Leaf {
            agv_harness::genschema::RESOLVER_CALLS.fetch_add(1, std::sync::atomic::Ordering::SeqCst);
            Leaf
        }
    }
    pub struct Query;
    #[Object]
    impl Query {
        async fn probe(&self, ctx: &Context<'_>) -> bool {
            agv_harness::genschema::run_probe(ctx);
            agv_harness::genschema::RESOLVER_CALLS.fetch_add(1, std::sync::atomic::Ordering::SeqCst);
            true
        }
        #[graphql(complexity = "n * child_complexity")]
        async fn many(&self, n: usize) -> Vec<Leaf> {
            agv_harness::genschema::RESOLVER_CALLS.fetch_add(1, std::sync::atomic::Ordering::SeqCst);
            (0..n.min(2)).map(|_| Leaf).collect()
        }
        #[graphql(complexity = "3 + child_complexity")]
        async fn plus(&self) -> Leaf {
            agv_harness::genschema::RESOLVER_CALLS.fetch_add(1, std::sync::atomic::Ordering::SeqCst);
            Leaf
        }
        async fn leaf(&self) -> Leaf {
            agv_harness::genschema::RESOLVER_CALLS.fetch_add(1, std::sync::atomic::Ordering::SeqCst);
            Leaf
        }
    }
    pub fn desc() -> agv_harness::genschema::SchemaDesc {
        use agv_harness::genschema::{FieldDesc as F, Rule, TypeDesc as T};
        let f = |n: &str, t: &str, rule: Rule| F { name: n.into(), ty: t.into(), rule, ..Default::default() };
        let mut many = f("many", "[Leaf!]!", Rule::ArgMul(None));
        many.args = vec![("n".into(), "Int!".into())];
        agv_harness::genschema::SchemaDesc {
            types: vec![
                T::Object {
                    name: "Query".into(),
                    cc: Default::default(),
                    fields: vec![f("probe", "Boolean!", Rule::Default), many, f("plus", "Leaf!", Rule::ChildAdd(3)), f("leaf", "Leaf!", Rule::Default)],
                    implements: vec![],
                },
                T::Object {
                    name: "Leaf".into(),
                    cc: Default::default(),
                    fields: vec![f("c5", "Int!", Rule::Const(5)), f("c0", "Int!", Rule::Const(0)), f("x", "Int!", Rule::Default), f("next", "Leaf!", Rule::Default)],
                    implements: vec![],
                },
            ],
            query: "Query".into(),
            mutation: None,
        }
    }
}

#[derive(Clone, Copy, Debug)]
struct Limits {
    rec: usize,
    dirs: Option<usize>,
    cx: Option<usize>,
    depth: Option<usize>,
}

fn g_limits(l: &Limits) -> String {
    format!(
        "{{| l_rec := {}%N; l_dirs := {}; l_cx := {}; l_depth := {} |}}",
        l.rec,
        g_opt(l.dirs, |x| format!("{x}%N")),
        g_opt(l.cx, |x| format!("{x}%N")),
        g_opt(l.depth, |x| format!("{x}%N"))
    )
}

struct Obs {
    decision: u8,
    resolvers: u64,
    analyzer: Option<(u64, u64)>,
    visits: (u64, u64, u64),
    /// C11: verif_hooks::RULE_STEPS read after the request (steps of the validation rules' own walks)
    steps: [u64; 5],
    msg: String,
}

fn classify(resp: &Response) -> (u8, String) {
    // pre-execution rejections carry no path and no data
    for e in &resp.errors {
        if e.path.is_empty() && resp.data == Value::Null {
            let m = &e.message;
            let c = if m.starts_with("The recursion depth of the query cannot be greater than") {
                1
            } else if m.starts_with("The number of directives on the field") {
                2
            } else if m == "Query is too complex." {
                3
            } else if m == "Query is nested too deep." {
                4
            } else {
                5
            };
            return (c, m.clone());
        }
    }
    (0, String::new())
}

fn run<E: Executor>(schema: &E, doc: &str, vars: &serde_json::Value) -> Obs {
    let mut req = Request::new(doc).variables(Variables::from_json(vars.clone()));
    if doc.contains("Op1") {
        req = req.operation_name("Op0");
    }
    RESOLVER_CALLS.store(0, Ordering::SeqCst);
    let _ = async_graphql::verif_hooks::take_visits();
    let _ = async_graphql::verif_hooks::take_rule_steps();
    let resp = block_on(schema.execute(req));
    let visits = async_graphql::verif_hooks::take_visits();
    let steps = async_graphql::verif_hooks::take_rule_steps();
    let resolvers = RESOLVER_CALLS.swap(0, Ordering::SeqCst);
    let (decision, msg) = classify(&resp);
    let analyzer = resp.extensions.get("analyzer").and_then(|v| {
        if let Value::Object(o) = v {
            let c = o.get("complexity").and_then(|x| if let Value::Number(n) = x { n.as_u64() } else { None })?;
            let d = o.get("depth").and_then(|x| if let Value::Number(n) = x { n.as_u64() } else { None })?;
            Some((c, d))
        } else {
            None
        }
    });
    Obs { decision, resolvers, analyzer, visits, steps, msg }
}

fn g_obs(o: &Obs) -> String {
    format!(
        "{{| o_decision := {}%N; o_resolvers := {}%N; o_analyzer := {}; o_visits := ({}%N, {}%N, {}%N) |}}",
        o.decision,
        o.resolvers,
        g_opt(o.analyzer, |(c, d)| format!("({c}%N, {d}%N)")),
        o.visits.0,
        o.visits.1,
        o.visits.2
    )
}

// harness-side nesting / directive measures, only used to choose limits near the boundary
fn nest_of(doc: &ExecutableDocument, ss: &SelectionSet, fuel: usize) -> usize {
    if fuel == 0 {
        return 0;
    }
    let mut m = 0;
    for s in &ss.items {
        let d = match &s.node {
            Selection::Field(f) => {
                if f.node.selection_set.node.items.is_empty() {
                    0
                } else {
                    1 + nest_of(doc, &f.node.selection_set.node, fuel - 1)
                }
            }
            Selection::FragmentSpread(sp) => match doc.fragments.get(&sp.node.fragment_name.node) {
                Some(fr) => 1 + nest_of(doc, &fr.node.selection_set.node, fuel - 1),
                None => 0,
            },
            Selection::InlineFragment(i) => 1 + nest_of(doc, &i.node.selection_set.node, fuel - 1),
        };
        m = m.max(d);
    }
    m
}
fn dirs_of(doc: &ExecutableDocument, ss: &SelectionSet, fuel: usize) -> usize {
    if fuel == 0 {
        return 0;
    }
    let mut m = 0;
    for s in &ss.items {
        let d = match &s.node {
            Selection::Field(f) => f.node.directives.len().max(dirs_of(doc, &f.node.selection_set.node, fuel - 1)),
            Selection::FragmentSpread(sp) => match doc.fragments.get(&sp.node.fragment_name.node) {
                Some(fr) => dirs_of(doc, &fr.node.selection_set.node, fuel - 1),
                None => 0,
            },
            Selection::InlineFragment(i) => dirs_of(doc, &i.node.selection_set.node, fuel - 1),
        };
        m = m.max(d);
    }
    m
}

fn near(r: &mut Rng, v: usize) -> usize {
    match r.below(4) {
        0 => v.saturating_sub(1),
        1 => v,
        2 => v + 1,
        _ => v + 2 + r.below(3),
    }
}

fn jstr(s: &str) -> String {
    serde_json::to_string(s).unwrap()
}

fn g_vars(it: &mut Interner, v: &serde_json::Value) -> String {
    match v {
        serde_json::Value::Object(m) => g_list(m.iter(), |(k, x)| {
            let gv = match x {
                serde_json::Value::Number(n) if n.is_i64() => format!("(VInt {})", g_z(n.as_i64().unwrap() as i128)),
                serde_json::Value::String(s) => format!("(VStr {})", g_str(s)),
                serde_json::Value::Bool(b) => format!("(VBool {})", g_bool(*b)),
                _ => "VNull".to_string(),
            };
            format!("({}, {})", it.n(k), gv)
        }),
        _ => "[]".into(),
    }
}

macro_rules! build_and_run {
    ($q:expr, $m:expr, $lim:expr, $fast:expr, $doc:expr, $vars:expr, $analyzer:expr) => {{
        let mut b = Schema::build($q, $m, EmptySubscription).limit_recursive_depth($lim.rec);
        if $analyzer {
            b = b.extension(extensions::Analyzer);
        }
        if let Some(x) = $lim.dirs {
            b = b.limit_directives(x);
        }
        if let Some(x) = $lim.cx {
            b = b.limit_complexity(x);
        }
        if let Some(x) = $lim.depth {
            b = b.limit_depth(x);
        }
        if $fast {
            b = b.validation_mode(ValidationMode::Fast);
        }
        let s = b.finish();
        run(&s, $doc, $vars)
    }};
}

fn exec(desc: &SchemaDesc, fixed_schema: bool, lim: &Limits, fast: bool, doc: &str, vars: &serde_json::Value, analyzer: bool) -> Obs {
    if fixed_schema {
        build_and_run!(fixed::Query, EmptyMutation, lim, fast, doc, vars, analyzer)
    } else if desc.mutation.is_some() {
        build_and_run!(gen_query(), gen_mutation(), lim, fast, doc, vars, analyzer)
    } else {
        build_and_run!(gen_query(), EmptyMutation, lim, fast, doc, vars, analyzer)
    }
}

fn main() {
    let a = parse_args();
    let c11 = a.rest.iter().any(|x| x == "c11");
    let mut rng = Rng::new(a.seed);
    let mut out = String::new();
    let mut it = Interner::new();
    it.id("n");
    let mut case_no = 0usize;
    let mut schema_no = 0usize;
    let no_limits = Limits { rec: 32, dirs: None, cx: None, depth: None };

    let emit = |out: &mut String, it: &mut Interner, sname: &str, desc: &SchemaDesc, fixed_schema: bool, text: &str, vars: &serde_json::Value, lim: &Limits, fast: bool, tag: &str| -> bool {
        let Ok(parsed) = async_graphql::parser::parse_query(text) else { return false };
        let mut o = exec(desc, fixed_schema, lim, fast, text, vars, false);
        // complexity/depth as computed by the library (Analyzer extension, no limits)
        o.analyzer = exec(desc, fixed_schema, &Limits { rec: 64, dirs: None, cx: None, depth: None }, fast, text, vars, true).analyzer;
        let gdoc = g_document(it, &parsed);
        let nontrivial = o.decision != 0 || o.analyzer.map(|(c, d)| c > 1 || d > 1).unwrap_or(false);
        let shown = if text.len() > 400 { format!("{}… ({} bytes)", &text[..400], text.len()) } else { text.trim().to_string() };
        let meta = format!(
            "{{\"uses\":[{}],\"text\":{},\"impl\":{},\"nontrivial\":{}}}",
            jstr(sname),
            jstr(&format!("[{sname}{}{} {:?} vars={}] {}", if fast { " fast" } else { "" }, tag, lim, vars, shown)),
            jstr(&format!("decision={} ({}) resolvers={} analyzer={:?} visits={:?}", o.decision, o.msg, o.resolvers, o.analyzer, o.visits)),
            nontrivial
        );
        writeln!(out, "CASE\t({sname}, {gdoc}, {}, {}, {}, {})\t{meta}", g_vars(it, vars), g_limits(lim), g_bool(fast), g_obs(&o)).unwrap();
        if c11 {
            // second C11 stream: the five rule-step counters, compared with RuleCost.rule_steps
            let meta = format!(
                "{{\"uses\":[{}],\"text\":{},\"impl\":{},\"nontrivial\":{}}}",
                jstr(sname),
                jstr(&format!("[{sname}{}{} {:?}] {}", if fast { " fast" } else { "" }, tag, lim, shown)),
                jstr(&format!("decision={} rule_steps={:?}", o.decision, o.steps)),
                o.steps.iter().any(|x| *x > 1)
            );
            writeln!(out, "RULE\t({sname}, {gdoc}, {}, {}, {})\t{meta}", g_limits(lim), g_bool(fast), g_list(o.steps.iter(), |x| format!("{x}%N"))).unwrap();
        }
        true
    };

    while case_no < a.n {
        let use_fixed = schema_no % 4 == 3;
        let desc = if use_fixed { fixed::desc() } else { gen_schema(&mut rng) };
        let sname = format!("s{schema_no}");
        let dumped: Arc<Mutex<Option<String>>> = Arc::new(Mutex::new(None));
        let present: Arc<Mutex<Vec<String>>> = Arc::new(Mutex::new(vec![]));
        let it_cell = Arc::new(Mutex::new(std::mem::take(&mut it)));
        {
            let it_cell = it_cell.clone();
            let dumped = dumped.clone();
            let desc2 = desc.clone();
            let present = present.clone();
            set_probe(move |r| {
                *present.lock().unwrap() = r.types.keys().cloned().collect();
                let mut it = it_cell.lock().unwrap();
                *dumped.lock().unwrap() = Some(dump_registry(&mut it, r, &desc2));
            });
        }
        if !use_fixed {
            set_current(desc.clone());
        }
        let probe_q = if use_fixed { "{ probe }" } else { "{ f0 }" };
        let _ = exec(&desc, use_fixed, &no_limits, true, probe_q, &serde_json::json!({}), false);
        it = std::mem::take(&mut *it_cell.lock().unwrap());
        let Some(gschema) = dumped.lock().unwrap().take() else {
            eprintln!("probe did not run for schema {schema_no}");
            schema_no += 1;
            continue;
        };
        writeln!(out, "DEF\t{sname}\t{gschema}").unwrap();
        // generate documents only over types that survived remove_unused_types
        let mut desc = desc;
        {
            let present = present.lock().unwrap();
            desc.types.retain(|t| present.iter().any(|p| p == t.name()));
            for t in desc.types.iter_mut() {
                match t {
                    TypeDesc::Interface { possible, .. } | TypeDesc::Union { possible, .. } => possible.retain(|x| present.iter().any(|p| p == x)),
                    TypeDesc::Object { implements, .. } => implements.retain(|x| present.iter().any(|p| p == x)),
                }
            }
        }

        if c11 && !use_fixed && schema_no % 4 == 0 {
            // adversarial families on this schema (root O0 has f0: Int)
            let top = if a.n >= 1000 { 17 } else { 13 };
            for l in [1usize, 2, 3, 5, 8, 10, 12, top] {
                let text = fan_out(l, 2);
                let lim = Limits { rec: 32, dirs: if l % 2 == 0 { Some(2) } else { None }, cx: None, depth: None };
                if emit(&mut out, &mut it, &sname, &desc, false, &text, &serde_json::json!({}), &lim, l % 3 == 0, " fan") {
                    case_no += 1;
                }
            }
            for text in [fan_out(6, 3), wide(200), deep_inline(30), deep_inline(40), many_ops(40)] {
                if emit(&mut out, &mut it, &sname, &desc, false, &text, &serde_json::json!({}), &no_limits, false, " family") {
                    case_no += 1;
                }
            }
        }

        for _ in 0..6 {
            if case_no >= a.n {
                break;
            }
            let fast = rng.chance(1, 3);
            let (text, vars) = if use_fixed {
                // hand-shaped documents on the derive-built schema
                let n = rng.below(4);
                let inner = ["c5", "c0 x", "x next { c5 x }", "...L", "next { ...L }"][rng.below(5)];
                let body = match rng.below(4) {
                    0 => format!("{{ many(n: {n}) {{ {inner} }} }}"),
                    1 => format!("{{ plus {{ {inner} }} leaf {{ x }} }}"),
                    2 => format!("query Op0($v: Int = 2) {{ many(n: $v) {{ {inner} }} probe }}"),
                    _ => format!("{{ leaf {{ {inner} }} ...Q }}"),
                };
                let mut t = format!("{body}\n");
                if body.contains("...L") {
                    t.push_str("fragment L on Leaf { c5 next { x } }\n");
                }
                if body.contains("...Q") {
                    t.push_str("fragment Q on Query { plus { c0 } }\n");
                }
                (t, serde_json::json!({}))
            } else {
                let mut dg = DocGen { d: &desc, r: rng.fork(), frags: vec![], wild: fast, uses_var: false };
                dg.document()
            };
            let Ok(parsed) = async_graphql::parser::parse_query(&text) else { continue };
            // reference run without limits to learn the measures
            let base = exec(&desc, use_fixed, &no_limits, fast, &text, &vars, true);
            let (cx, dp) = base.analyzer.unwrap_or((3, 2));
            let mut nest = 0;
            let mut dirs = 0;
            for (_, op) in parsed.operations.iter() {
                nest = nest.max(nest_of(&parsed, &op.node.selection_set.node, 64));
                dirs = dirs.max(dirs_of(&parsed, &op.node.selection_set.node, 64));
            }
            let lim = match rng.below(6) {
                0 => no_limits,
                1 => Limits { rec: near(&mut rng, nest), ..no_limits },
                2 => Limits { dirs: Some(near(&mut rng, dirs)), ..no_limits },
                3 => Limits { cx: Some(near(&mut rng, cx as usize)), ..no_limits },
                4 => Limits { depth: Some(near(&mut rng, dp as usize)), ..no_limits },
                _ => Limits { rec: if rng.chance(1, 2) { near(&mut rng, nest) } else { 32 }, dirs: if rng.chance(1, 2) { Some(near(&mut rng, dirs)) } else { None }, cx: if rng.chance(1, 2) { Some(near(&mut rng, cx as usize)) } else { None }, depth: if rng.chance(1, 2) { Some(near(&mut rng, dp as usize)) } else { None } },
            };
            if emit(&mut out, &mut it, &sname, &desc, use_fixed, &text, &vars, &lim, fast, "") {
                case_no += 1;
            }
        }
        schema_no += 1;
    }
    writeln!(out, "NAMES\t\t{}", serde_json::to_string(&it.names).unwrap()).unwrap();
    std::fs::write(format!("{}/c10.cases", a.out), out).unwrap();
}
